#!/venv/bin/python
"""evidence_summary.py -> markdown table of what the last quick runs covered (read from /verif/evidence/*.json)."""
import glob, json, os

print("| check | evaluations | distinct non-trivial | wall (s) | runs / hour | fault kinds fired | reach probes fired |")
print("|---|---|---|---|---|---|---|")
for f in sorted(glob.glob("/verif/evidence/C*.json")):
    d = json.load(open(f))
    cov = d.get("coverage", {})
    fired = cov.get("fault_kinds_fired") or {}
    probes = cov.get("probes") or cov.get("rare_branch_probes") or {}
    n_f = sum(1 for v in fired.values() if v) if isinstance(fired, dict) else "?"
    n_p = sum(1 for v in probes.values() if v) if isinstance(probes, dict) else "?"
    print(f"| {d.get('property_id', os.path.basename(f)[:-5])} | {cov.get('evaluations')} | {cov.get('distinct_nontrivial')} | {d.get('wall_s')} | {cov.get('runs_per_hour')} | {n_f} | {n_p} |")
