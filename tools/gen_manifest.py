#!/venv/bin/python
"""Generates /verif/MANIFEST.json from the table below (single source of truth)."""
import json, os, sys

VERIF = os.path.dirname(os.path.dirname(os.path.abspath(__file__)))
sys.path.insert(0, VERIF)

NA_PURE = {
    "C06": "not applicable to deterministic simulation: DPAPINGBlob/_pkcs7 pack/unpack are pure functions of the blob value; no schedule, clock, fault, peer or history can change the bytes emitted for a value (DESIGN section 6)",
    "C07": "not applicable to deterministic simulation: _asn1 is a pure codec over integers/strings/tags; the quantifier is over values only (DESIGN section 6)",
    "C08": "not applicable to deterministic simulation: sid_to_bytes/sd_to_bytes are pure string-to-bytes functions with no time, I/O, peer or shared state (DESIGN section 6)",
}

# id -> (level, design_ref, text, note, technique)
CHECKS = {}


def reg(pid, level, ref, text, note, technique):
    CHECKS[pid] = (level, ref, text, note, technique)


exec(open(os.path.join(VERIF, "tools", "manifest_table.py")).read())

ALL = ["C%02d" % i for i in range(1, 21)]
checks = []
for pid in ALL:
    if pid not in CHECKS:
        continue
    level, ref, text, note, technique = CHECKS[pid]
    checks.append({
        "property_id": pid,
        "quick_cmd": f"./check {pid} --tier quick",
        "thorough_cmd": f"./check {pid} --tier thorough",
        "evidence_file": f"/verif/evidence/{pid}.json",
        "replay_cmd_template": f"./check {pid} --replay {{path}}",
        "engine": "simworld",
        "level_claimed": {"category": level, "text": text, "design_ref": ref},
        "level_note": note,
        "technique": technique,
    })
na = []
for pid in ALL:
    if pid in CHECKS:
        continue
    na.append({"property_id": pid, "reason": NA_PURE.get(pid, "check not built yet in this session (planned, see DESIGN section 5); not claimed until it runs")})
m = {
    "version": 1,
    "setup_cmd": "cd /verif && PYTHONPATH=/verif /venv/bin/python -c \"import cryptography, spnego, dns, dpapi_ng\" && PYTHONPATH=/verif /venv/bin/python -m ref.calibrate",
    "hooks": {
        "guard": "DPAPI_NG_VERIF",
        "enable": "no hook exists: every seam is a module attribute or constructor argument replaced from /verif at run time (socket.create_connection, asyncio loop, dpapi_ng._client.time, os.urandom, dpapi_ng._crypto.AESGCM, spnego.client, dns.resolver.resolve); checks import /repo/src from the current working tree",
        "baseline_off_cmd": "cd /repo && /venv/bin/python -m pytest -ra -q -p no:cacheprovider --timeout=900 --continue-on-collection-errors",
        "source_commits": [],
        "add_only": True,
    },
    "engines": [{
        "name": "simworld",
        "path": "/verif/simworld",
        "serves_properties": sorted(CHECKS),
        "kind_free_text": "single-process deterministic simulator: virtual-time asyncio loop, simulated sockets, simulated clock/entropy/DNS/blob store, reference DC (independent codecs and key derivation), scripted and Byzantine peers, seeded plans with ddmin minimisation and fresh-interpreter replay",
    }],
    "checks": checks,
    "not_applicable": na,
    "notes": "Exit codes of every command: 0 held (or only KNOWN-FINDING lines), 1 VIOLATION, 2 harness error. Genuine defects repaired by fix: commits in /repo are recorded as fixed entries in /verif/known_findings.json.",
}
json.dump(m, open(os.path.join(VERIF, "MANIFEST.json"), "w"), indent=1)
print("MANIFEST.json:", len(checks), "checks,", len(na), "not applicable")
