T = "deterministic simulation with fault injection"
reg("C14", "fault_enumeration", "DESIGN 5.1 C14",
    "Real sync and async RPC clients run over a simulated transport; for a catalogue of replies every partition into <=3 chunks, every EOF/RST byte offset and PRNG finer partitions are injected; outcome must equal the one-piece outcome (also checked against an independent decoder) and EOF/RST must raise without spinning or blocking. Exhaustive over the stated small space, sampled beyond.",
    "trusted: ref.rpce as independent decoder; the simulated socket models recv/recv_into/readexactly semantics of ordered reliable byte streams; StubCtx is a stub security context",
    T + ": enumerated segmentation / stream-end faults on a simulated transport")
reg("C15", "fault_enumeration", "DESIGN 5.1 C15",
    "The real client handshake (both flavours; raw bind()+request() and the real _get_key with its EPM hop) runs against a scripted Byzantine server; the structured script family (every ack sequence over result vector x header-sign x token, every terminal at every depth, for context shapes of 1..4 legs with/without empty last token) is enumerated completely and PRNG scripts over the full alphabet are sampled; history clauses (a)-(f) are judged on the client's PDUs as decoded by an independent receiver and on the calls the scripted security context recorded.",
    "trusted: ref.rpce decoder/encoders; StubCtx is a stub security context; ambiguous protocol corners (mixed header-sign flags, cross-type acks, results in alter_context_resp) are recorded, not judged",
    T + ": scripted Byzantine peer, enumerated server scripts, history oracle")
