T = "deterministic simulation with fault injection"
reg("C14", "fault_enumeration", "DESIGN 5.1 C14",
    "Real sync and async RPC clients run over a simulated transport; for a catalogue of replies every partition into <=3 chunks, every EOF/RST byte offset and PRNG finer partitions are injected; outcome must equal the one-piece outcome (also checked against an independent decoder) and EOF/RST must raise without spinning or blocking. Exhaustive over the stated small space, sampled beyond.",
    "trusted: ref.rpce as independent decoder; the simulated socket models recv/recv_into/readexactly semantics of ordered reliable byte streams; StubCtx is a stub security context",
    T + ": enumerated segmentation / stream-end faults on a simulated transport")
