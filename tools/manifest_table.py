T = "deterministic simulation with fault injection"
reg("C14", "fault_enumeration", "DESIGN 5.1 C14",
    "Real sync and async RPC clients run over a simulated transport; for a catalogue of replies every partition into <=3 chunks, every EOF/RST byte offset and PRNG finer partitions are injected; outcome must equal the one-piece outcome (also checked against an independent decoder) and EOF/RST must raise without spinning or blocking. Exhaustive over the stated small space, sampled beyond.",
    "trusted: ref.rpce as independent decoder; the simulated socket models recv/recv_into/readexactly semantics of ordered reliable byte streams; StubCtx is a stub security context",
    T + ": enumerated segmentation / stream-end faults on a simulated transport")
reg("C15", "fault_enumeration", "DESIGN 5.1 C15",
    "The real client handshake (both flavours; raw bind()+request() and the real _get_key with its EPM hop) runs against a scripted Byzantine server; the structured script family (every ack sequence over result vector x header-sign x token, every terminal at every depth, for context shapes of 1..4 legs with/without empty last token) is enumerated completely and PRNG scripts over the full alphabet are sampled; history clauses (a)-(f) are judged on the client's PDUs as decoded by an independent receiver and on the calls the scripted security context recorded.",
    "trusted: ref.rpce decoder/encoders; StubCtx is a stub security context; ambiguous protocol corners (mixed header-sign flags, cross-type acks, results in alter_context_resp) are recorded, not judged",
    T + ": scripted Byzantine peer, enumerated server scripts, history oracle")
reg("C13", "exploration", "DESIGN 5.1 C13",
    "Two-party wire observation in the simulator: every request of the exhaustive grid (stub length 0..320 x verification trailer variants x signature sizes 16/28/60/76 x header signing on/off, both flavours, plus unauthenticated) is decoded by an independent receiver (ref.rpce + independent acceptor that must unseal and verify it) and compared with what the recording security context was handed; GetKey replies from the reference DC sweep every pad_length 0..15 (non-zero fill) and envelope-length residue, and the envelope the client ends up with must equal the one the DC encoded.",
    "trusted: ref.rpce / StubAcceptor as receiver; StubCtx is a stub; the quantifier is a parameter grid - the simulation contributes the second party, not schedules; alloc_hint not judged; misaligned (K%4!=0) reply padding may be rejected but must never yield a wrong envelope",
    T + ": second-party wire observation over an exhaustive parameter grid")
reg("C09", "fault_enumeration", "DESIGN 5.2 C09",
    "The simulated clock is set to every tick within +-64 of every L0 boundary 1970..2200, to L1/L2 boundaries across 40 epochs, to PRNG instants and through backward/forward jumps on a shared cache (root-key cache and a cache holding a DC-obtained seed envelope); the key identifier parsed from the emitted blob by ref.cms must equal the exact-integer interval formula.",
    "trusted: ref.gkdi integer interval formula, ref.cms parser; clock enters the library only through dpapi_ng._client.time",
    T + ": clock-value enumeration through the time seam")
reg("C19", "exploration", "DESIGN 5.2 C19",
    "Histories of 2..64 protect calls (identical arguments at a frozen simulated instant; offline, online seed-key and public-key replies for DH/P256/P384; interleaved unprotects; concurrent async groups under a PRNG scheduler) run with a ledger entropy source behind os.urandom and AESGCM.generate_key; the reference opens every emitted blob and CEK, GCM nonce, key_info and ciphertext must be pairwise distinct within each history.",
    "trusted: ref.cms/ref.gkdi to recover the CEK; the simulated entropy source is collision-free by construction, so the check decides 'each value is drawn fresh per call', not the quality of the OS RNG",
    T + ": entropy seam with draw ledger, frozen clock, history oracle")
reg("C04", "fault_enumeration", "DESIGN 5.3 C04",
    "Storage faults are injected into the blob at rest between protect and unprotect (every single-bit flip and every truncation of the enumerated base blobs - 4 hashes x nonce/DH/P256/P384, both layouts, reference- and library-made - plus PRNG substitution/insertion/deletion, multi-site and field-targeted corruption); the real unprotect runs with correct offline key material and no reachable DC; the only violation is 'returned bytes differ from the original plaintext'.",
    "trusted: AES-KW/AES-GCM primitives of the cryptography package; ref.cms offset map for field targeting; a connection attempt is classified at the seam as needs-network",
    T + ": enumerated storage faults (bit rot, torn records) on the blob at rest")
reg("C05", "fault_enumeration", "DESIGN 5.3 C05",
    "The same storage-fault injector as C04 plus structure-aware DER corruption of every TLV node, boundary values in every key-identifier field, whole-record garbage and PRNG strings feed the real unprotect (offline root key, and empty cache with no reachable DC); outcome must be returns / needs-network / one of the deliberate error types, within a KDF budget of 300 calls and a traced-line budget affine in the input length (deterministic counters turn hangs into replayable verdicts).",
    "trusted: budgets are generous multiples of maxima on valid input; sys.settrace line counting restricted to dpapi_ng frames; PRNG byte strings are a weak generator",
    T + ": enumerated storage faults with deterministic step budgets as bounded-liveness oracle")
reg("C01", "exploration", "DESIGN 5.2 C01",
    "Plans [set simulated clock (boundary-biased) - protect via offline root key / online seed-key reply / online public-key reply - advance clock across L2/L1/L0 boundaries - optional LAPS re-layout at rest - unprotect via offline root key / online with fresh cache / warm shared cache] run on the real public API in both flavours against the reference DC (envelope-shape knob, PRNG segmentation); the returned bytes must equal the plaintext and the reference must decrypt every emitted blob to the same bytes.",
    "trusted: RefDC/ref.cms/ref.gkdi (calibrated on the 16 Windows vectors); StubCtx is a stub; plaintext length / SID shape / hash are workload parameters, the simulated ingredients are clock, path, DC shape, layout and segmentation",
    T + ": seeded plans over clock, online/offline path, DC envelope shape and stored-blob layout")
