#!/venv/bin/python
"""mk_agent_task.py <root dir> <property id>...  : writes <root>/<id>.task.txt, the instruction file for an independent sub-agent
that sees only the property text (plus the titles of changes already written, so that it looks for different mechanisms)."""
import glob, json, os, sys

root = sys.argv[1]
props = {}
for l in open('/verif/properties.jsonl'):
    p = json.loads(l)
    props[p['id']] = p
prev = {}
for d in sorted(glob.glob('/verif/seeded/*')):
    try:
        m = json.load(open(d + '/meta.json'))
    except Exception:
        m = {}
    for pid in os.path.basename(d).split('-')[0].split('+'):
        prev.setdefault(pid, []).append(os.path.basename(d) + ": " + str(m.get('summary', ''))[:300])
for f in sorted(glob.glob('/verif/mutants/*.patch')):
    n = os.path.basename(f)[:-6]
    for pid in n.split('-')[0].split('+'):
        prev.setdefault(pid, []).append(n)
TMPL = '''You are helping evaluate a verification effort by writing *realistic faulty changes* to a Python library (jborean93/dpapi-ng: a pure-Python DPAPI-NG encrypt/decrypt library with an ASN.1/CMS codec, a DCE/RPC client and MS-GKDI key derivation).

Your private scratch copy of the repository is the git worktree at {WT} (source under {WT}/src/dpapi_ng, tests under {WT}/tests). Work ONLY inside {WT} and write your results under {OUT}. Do NOT read or touch /repo, /verif or any other directory under /tmp. Do not use the network. Do NOT use `git stash` (it is shared between worktrees); to reset use `git -C {WT} checkout -- .`.

The property under study (read it carefully):

{PROP}

Changes that have ALREADY been written by others for this property (do not repeat these ideas; find different mechanisms and different code sites):
{PREV}

Your task: produce TWO NEW, different changes (one after the other, each starting from a clean checkout) to the library source that each
  1. break the property above,
  2. still import/compile, and still pass the existing test suite unchanged: `cd {WT} && PYTHONPATH={WT}/src /venv/bin/python -m pytest -q -p no:cacheprovider` must report 276 passed,
  3. look like a plausible maintainer mistake or a well-meant refactoring / optimisation / robustness feature / compatibility shim (not sabotage with an obvious marker), small (a few lines),
  4. need something SPECIFIC to manifest - preferably something about *timing, ordering or faults*: a particular interleaving of concurrent async calls, or of caller threads using the sync API, that share state (a cache, the process), a particular order of operations in a history, a fault (EOF, reset, truncated or altered bytes, a peer misbehaving) at a particular point, a clock value or clock movement, a retry/timeout path, process-global state carried from one call to the next - or else an unusual input / boundary value / configuration, or two cooperating sites that each look fine alone. Ordinary use (the happy path with typical inputs) must NOT expose it at once.

For each change write into {OUT}/{ID}-<short-name>/ :
  - patch.diff : output of `git -C {WT} diff` (paths relative to the repository root, i.e. starting with src/dpapi_ng/...)
  - demo.py    : a small self-contained demonstration program. Run as `PYTHONPATH=<root>/src /venv/bin/python demo.py` it must exit 0 on the UNCHANGED tree and exit non-zero (assertion failure / timeout you enforce yourself, e.g. with signal.alarm) with your change applied. It may use monkeypatching, fake sockets (socket.socketpair, fake objects), fake time, asyncio, the test data under tests/data (locate it relative to the source tree via dpapi_ng.__file__), and any installed package (cryptography, pyspnego `spnego`, dnspython `dns`). It must not need the network.
  - meta.json  : {{"property": "{ID}", "summary": "...what was changed...", "needs": "...what is needed for it to manifest...", "ran": "...the commands you ran and their outcome..."}}

Verify both things yourself for each change: (a) the 276 tests pass with the change, (b) demo.py passes on a clean checkout and fails with the change. Finish by running `git -C {WT} checkout -- .` so the worktree is clean. Report a two-line summary per change as your final answer. Useful facts: Python is /venv/bin/python (3.12); set PYTHONPATH={WT}/src so that your worktree's copy is imported instead of the installed one (check with `python -c "import dpapi_ng; print(dpapi_ng.__file__)"`).
'''
for pid in sys.argv[2:]:
    p = props[pid]
    prop = f"{pid}: {p['title']}\n\nStatement: {p['statement']}\n\nQuantifier: {p['quantifier']['text']}\n\nWhy the existing tests cannot settle it: {p['why_tests_cant']}\n"
    open(f'{root}/{pid}.task.txt', 'w').write(TMPL.format(WT=f'{root}/{pid}', OUT=f'{root}/{pid}-out', PROP=prop, ID=pid,
                                                          PREV="\n".join("  - " + x for x in prev.get(pid, [])) or "  (none)"))
    print("wrote", f'{root}/{pid}.task.txt')
