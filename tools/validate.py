#!/usr/bin/env python3-vt
"""Validates MANIFEST.json and every evidence file against the schemas (uses the tooling venv's jsonschema)."""
import glob, json, sys
import jsonschema
ok = True
jsonschema.validate(json.load(open('/verif/MANIFEST.json')), json.load(open('/root/.vp/MANIFEST.schema.json')))
es = json.load(open('/root/.vp/EVIDENCE.schema.json'))
for f in sorted(glob.glob('/verif/evidence/*.json')):
    try:
        jsonschema.validate(json.load(open(f)), es)
    except Exception as e:
        ok = False
        print("INVALID", f, str(e)[:300])
m = json.load(open('/verif/MANIFEST.json'))
ids = {c['property_id'] for c in m['checks']} | {n['property_id'] for n in m.get('not_applicable', [])}
props = {json.loads(l)['id'] for l in open('/verif/properties.jsonl')}
if ids != props:
    ok = False
    print("MANIFEST does not cover", props ^ ids)
print("valid" if ok else "PROBLEMS")
sys.exit(0 if ok else 1)
