#!/venv/bin/python
"""mkmutant.py NAME FILE <<< 'OLD\n====\nNEW'  -> writes /verif/mutants/NAME.patch (diff against /repo working tree)."""
import os, subprocess, sys, tempfile, shutil
name, rel = sys.argv[1], sys.argv[2]
old, new = sys.stdin.read().split("\n====\n")
new = new.rstrip("\n") if not old.endswith("\n") else new
src = open(os.path.join("/repo", rel)).read()
old = old.rstrip("\n"); new = new.rstrip("\n")
assert src.count(old) >= 1, "old text not found"
d = tempfile.mkdtemp()
try:
    a = os.path.join(d, "a", rel); b = os.path.join(d, "b", rel)
    os.makedirs(os.path.dirname(a)); os.makedirs(os.path.dirname(b))
    open(a, "w").write(src); open(b, "w").write(src.replace(old, new, 1 if "--all" not in sys.argv else -1))
    p = subprocess.run(["diff", "-u", "a/" + rel, "b/" + rel], cwd=d, capture_output=True, text=True)
    assert p.stdout, "no diff"
    open(f"/verif/mutants/{name}.patch", "w").write(p.stdout)
    print("wrote", name)
finally:
    shutil.rmtree(d)
