#!/bin/sh
# Soak: the exploration-level checks with fresh PRNG seeds, quick tier, many rounds. Usage: tools/soak.sh <rounds> [ids...]
# Prints one line per run; any VIOLATION / HARNESS-ERROR line is echoed with the seed so that it can be replayed.
cd "$(dirname "$0")/.." || exit 2
rounds=${1:-10}; shift
ids=${*:-"C10 C17 C01 C19 C11 C15 C12 C18 C02 C03 C16 C13 C04 C05 C09 C14 C20"}
r=0
while [ "$r" -lt "$rounds" ]; do
  r=$((r+1))
  seed=$((777000 + r * 7919))
  for c in $ids; do
    out=$(VERIF_SEED=$seed ./check "$c" --tier quick --no-evidence 2>&1)
    rc=$?
    echo "round=$r seed=$seed $c exit=$rc $(echo "$out" | grep -E '^check=.*evaluations' | cut -c1-110)"
    [ "$rc" -ne 0 ] && echo "$out" | grep -E "VIOLATION|signature|HARNESS|NOTE" | cut -c1-400
  done
done
