#!/venv/bin/python
"""Generates /verif/tables/leading_zero_ephemerals.json: ephemeral private keys (scripted entropy draws) that make the
ephemeral public value, a coordinate, or the shared secret start with zero bytes, for the group public keys of the
synthetic C03 root keys.  Uses only the reference arithmetic (ref.gkdi / ref.ec)."""
import hashlib, json, os, sys
sys.path.insert(0, os.path.dirname(os.path.dirname(os.path.abspath(__file__))))
from checks import offline
from ref import cms, dtyp, ec, gkdi

POS = (361, 17, 13)
SID = offline.SID_B
out = {"position": list(POS), "sid": SID, "entries": []}


def group_pub(rk):
    chain = cms.chain_for(rk, dtyp.target_sd(SID), POS[0])
    return gkdi.group_public_key(rk.hash_name, chain.l2_seed(POS[1], POS[2]), rk.secret_alg, rk.eff_secret_params, rk.private_key_length)


def lz(b: bytes) -> int:
    return len(b) - len(b.lstrip(b"\x00"))


for hash_name in offline.HASHES:
    # ECDH
    for alg in ("ECDH_P256", "ECDH_P384"):
        spec = [50, hash_name, alg]
        rk = offline.synth_root_key(*spec)
        pub = group_pub(rk)
        c = gkdi.curve_of(alg)
        _curve, kl, gx, gy = gkdi.unpack_ecdh_key(pub)
        want = {"pub_x": None, "pub_y": None, "secret": None}
        i = 0
        while any(v is None for v in want.values()) and i < 5000:
            x = int.from_bytes(hashlib.sha512(b"%s/%s/%d" % (hash_name.encode(), alg.encode(), i)).digest() * 2, "big") % (c.n - 1) + 1
            i += 1
            px, py = ec.mul(c, x)
            if want["pub_x"] is None and px >> (8 * (c.size - 1)) == 0:
                want["pub_x"] = x
            if want["pub_y"] is None and py >> (8 * (c.size - 1)) == 0:
                want["pub_y"] = x
            if want["secret"] is None:
                sx, _sy = ec.mul(c, x, (gx, gy))
                if sx >> (8 * (c.size - 1)) == 0:
                    want["secret"] = x
        for why, x in want.items():
            if x is not None:
                out["entries"].append({"root_key": spec, "why": why, "n": (rk.private_key_length + 7) // 8, "hex": x.to_bytes((rk.private_key_length + 7) // 8, "big").hex()})
    # RFC 5114 DH
    spec = [50, hash_name, "DH"]
    rk = offline.synth_root_key(*spec)
    pub = group_pub(rk)
    kl, p, g, y = gkdi.unpack_dh_key(pub)
    want = {"pub": None, "secret": None}
    i = 0
    while any(v is None for v in want.values()) and i < 3000:
        xb = hashlib.sha512(b"dh/%s/%d" % (hash_name.encode(), i)).digest()
        x = int.from_bytes(xb, "big")
        i += 1
        if want["pub"] is None and pow(g, x, p) >> (8 * (kl - 1)) == 0:
            want["pub"] = xb
        if want["secret"] is None and pow(y, x, p) >> (8 * (kl - 1)) == 0:
            want["secret"] = xb
    for why, xb in want.items():
        if xb is not None:
            out["entries"].append({"root_key": spec, "why": why, "n": 64, "hex": xb.hex()})
json.dump(out, open(os.path.join(os.path.dirname(os.path.dirname(os.path.abspath(__file__))), "tables", "leading_zero_ephemerals.json"), "w"), indent=1)
print(len(out["entries"]), "entries")
