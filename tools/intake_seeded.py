#!/venv/bin/python
"""intake_seeded.py <dir with patch.diff demo.py meta.json> ...

Confirms an independently written faulty change before it is kept under /verif/seeded/<id>/:
  (1) demo passes on a clean scratch copy of /repo HEAD, (2) the patch applies, (3) the 276 tests still pass with it,
  (4) the demo fails with it.  Scratch copies live under $TMPDIR and are removed immediately."""
import json, os, shutil, subprocess, sys, tempfile

PY = "/venv/bin/python"


def sh(cmd, cwd=None, env=None, timeout=900):
    p = subprocess.run(cmd, cwd=cwd, env=env, capture_output=True, text=True, timeout=timeout)
    return p.returncode, (p.stdout + p.stderr)[-1500:]


def main():
    ok_all = True
    for src in sys.argv[1:]:
        src = src.rstrip("/")
        name = os.path.basename(src)
        scratch = tempfile.mkdtemp(prefix="verif-intake-")
        try:
            wt = os.path.join(scratch, "repo")
            rc, out = sh(["git", "-C", "/repo", "worktree", "add", "--detach", wt, "HEAD", "-q"])
            assert rc == 0, out
            env = dict(os.environ, PYTHONPATH=os.path.join(wt, "src"), PYTHONDONTWRITEBYTECODE="1")
            demo = os.path.join(src, "demo.py")
            report = {}
            try:
                rc, out = sh([PY, demo], cwd=wt, env=env, timeout=300)
            except subprocess.TimeoutExpired:
                rc, out = 124, "timeout"
            report["demo_clean_exit"] = rc
            rc2, out2 = sh(["git", "-C", wt, "apply", "--whitespace=nowarn", os.path.join(src, "patch.diff")])
            report["patch_applies"] = rc2 == 0
            if rc2 != 0:
                print(name, "PATCH DOES NOT APPLY", out2[-300:])
                ok_all = False
                continue
            rc3, out3 = sh([PY, "-m", "pytest", "-q", "-p", "no:cacheprovider", "-x"], cwd=wt, env=env)
            report["tests_with_patch"] = out3.strip().splitlines()[-1] if out3.strip() else str(rc3)
            try:
                rc4, out4 = sh([PY, demo], cwd=wt, env=env, timeout=300)
            except subprocess.TimeoutExpired:
                rc4, out4 = 124, "timeout"
            report["demo_patched_exit"] = rc4
            good = report["demo_clean_exit"] == 0 and rc3 == 0 and "276 passed" in report["tests_with_patch"] and rc4 != 0
            print(name, "CONFIRMED" if good else "REJECTED", report)
            if not good:
                ok_all = False
                print("  clean demo:", out[-300:].replace("\n", " | "))
                print("  patched demo:", out4[-300:].replace("\n", " | "))
                continue
            dst = os.path.join("/verif/seeded", name)
            shutil.rmtree(dst, ignore_errors=True)
            os.makedirs(dst)
            for f in ("patch.diff", "demo.py"):
                shutil.copy(os.path.join(src, f), dst)
            meta = {}
            try:
                meta = json.load(open(os.path.join(src, "meta.json")))
            except Exception as e:
                meta = {"note": f"meta.json unreadable: {e}"}
            meta["confirmed_by_intake"] = report
            meta["confirmed_how"] = "tools/intake_seeded.py: scratch git worktree of /repo HEAD; demo exit 0 clean; patch applied; pytest 276 passed; demo exit non-zero"
            json.dump(meta, open(os.path.join(dst, "meta.json"), "w"), indent=1)
        finally:
            subprocess.run(["git", "-C", "/repo", "worktree", "remove", "--force", os.path.join(scratch, "repo")], capture_output=True)
            shutil.rmtree(scratch, ignore_errors=True)
    return 0 if ok_all else 1


sys.exit(main())
