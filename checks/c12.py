"""C12 - DCE/RPC and endpoint-mapper wire codecs are inverse; decoders terminate.

Three parties exchange the messages for real: the client (library encoders of
bind / alter_context / request / ept_map, decoders of the replies), a reference
server (independent codecs) and LibDC (the same server role on the library's
own server-direction codecs).  A monitor at the receiving side checks every
message that crosses the simulated wire: library decode == independent decode,
library re-encode == received bytes.  Garbled fragments (in flight towards
LibDC or towards the client) must be processed within a traced-line budget.
"""
from __future__ import annotations

import hashlib
import random
import struct
import typing as t
import uuid

from checks import common, drive, wiremon
from ref import rpce
from simworld import libcodec, peers, prng, world as W

ECHO_IF = (uuid.UUID("11111111-2222-3333-4444-555555555555"), 1, 0)
OTHER_IF = (uuid.UUID("99999999-8888-7777-6666-555555555555"), 2, 1)
DC = "dc01.domain.test"
LINE_A, LINE_B = 60_000, 300


def _contexts(n_ctx: int, n_tr: int):
    import dpapi_ng._rpc as rpc

    out = []
    for i in range(n_ctx):
        iface = ECHO_IF if i % 3 != 2 else OTHER_IF
        trs = []
        for j in range(n_tr):
            trs.append([rpc.NDR64, rpc.NDR, rpc.bind_time_feature_negotiation(rpc.BindTimeFeatureNegotiation(j % 4)), rpc.SyntaxId(uuid.UUID(int=j + 7), 3, 4)][(i + j) % 4])
        out.append(rpc.ContextElement(i * 3, rpc.SyntaxId(*iface), trs))
    return out


def _vt(kind: int):
    import dpapi_ng._rpc as rpc

    END = rpc.CommandFlags.SEC_VT_COMMAND_END
    iface = rpc.SyntaxId(*ECHO_IF)
    pc = lambda f: rpc.CommandPContext(flags=f, interface_id=iface, transfer_syntax=rpc.NDR64)  # noqa: E731
    bm = lambda f: rpc.CommandBitmask(flags=f, bits=1)  # noqa: E731
    h2 = lambda f: rpc.CommandHeader2(flags=f, packet_type=rpc.PacketType.REQUEST, data_rep=rpc.DataRep(), call_id=1, context_id=0, opnum=4)  # noqa: E731
    unk = lambda f: rpc.Command(rpc.CommandType(0x0777), f, b"\x01\x02\x03")  # noqa: E731
    NONE = rpc.CommandFlags.NONE
    MUST = rpc.CommandFlags.SEC_VT_MUST_PROCESS_COMMAND
    table = {0: None, 1: [pc(END)], 2: [bm(NONE), pc(END)], 3: [bm(MUST), h2(NONE), pc(END)], 4: [unk(NONE), pc(END | MUST)], 5: [h2(END)], 6: [bm(END)],
             7: [unk(END)], 8: [pc(NONE), bm(NONE), h2(NONE), unk(NONE), bm(END)]}
    cmds = table[kind]
    return None if cmds is None else rpc.VerificationTrailer(cmds)


def _tower_variants(k: int):
    """Tower lists whose encoded lengths sweep the residues mod 8 (floor payload sizes vary with k)."""
    std = rpce.std_tower(rpce.ISD_KEY_IF, rpce.NDR20, 49000 + k, 0)
    towers = []
    n = k % 7
    for i in range(n):
        extra = [(0x1F + (i % 3), bytes(range((k + i) % 9)), bytes(range((k * 3 + i) % 11)))]
        pos = (k + i) % 3
        if pos == 0:
            tw = extra + std
        elif pos == 1:
            tw = std[:3] + extra + std[3:]
        else:
            tw = [(0x0D, std[0][1], std[0][2]), (0x0C, b"", bytes(range((k + i) % 6)))] + extra  # no TCP floor
        towers.append(tw)
    if towers and k % 5 == 3:
        # an endpoint listed more than once (a multi-homed or doubly registered server): identical towers [A, .., A] / [A, A, ..]
        towers = towers + [towers[0]] if k % 2 else [towers[0]] + towers
    return towers


class _Echo:
    """Handler that also monitors what the library-side VerificationTrailer decoder makes of the request trailer."""

    def __init__(self, reply_len: int, lib: bool, notes: list):
        self.reply_len, self.lib, self.notes = reply_len, lib, notes

    def __call__(self, server, conn, req):
        import dpapi_ng._rpc as rpc

        stub = req["stub"]
        off = rpce.find_vt(stub)
        if off is not None:
            raw_vt = stub[off:]
            try:
                ref = rpce.parse_vt(raw_vt)
            except Exception as e:  # noqa: BLE001
                self.notes.append(("lib-encoded-vt-rejected", f"verification trailer written by the client is rejected by the independent decoder: {e!r}"))
                try:  # the receiving node still runs its decoder on what arrived (garbled in flight in the tear cases)
                    rpc.VerificationTrailer.unpack(raw_vt)
                except Exception:  # noqa: BLE001
                    pass
                return ("fault", 5)
            used = 8 + sum(4 + len(v) for _c, _f, v in ref)
            try:
                vt = rpc.VerificationTrailer.unpack(raw_vt)
                got = [(int(c.command), int(c.flags), bytes(c.value)) for c in vt.commands]
                if got != ref:
                    self.notes.append(("vt-fields", f"library decoded commands {got} but the independent decoder says {ref}"))
                elif vt.pack() != raw_vt[:used]:
                    self.notes.append(("vt-re-encode", "decode+encode of the verification trailer changes the bytes"))
            except Exception as e:  # noqa: BLE001
                self.notes.append(("well-formed-vt-not-decoded", f"{e!r}"))
        return ("response", bytes((i * 5 + 1) & 0xFF for i in range(self.reply_len)))


def run_conv(case) -> dict:
    """["conv", codec, flavour, n_ctx, n_tr, sa_len, tok_size, stub_len, vt_kind, reply_len]"""
    import dpapi_ng._rpc as rpc

    _, codec, fl, n_ctx, n_tr, sa_len, tok_size, stub_len, vt_kind, reply_len = case
    world = W.World(n_ctx * 100 + stub_len)
    record: list = []
    notes: list = []
    auth = tok_size > 0
    cfg = {"legs": 2 + (tok_size % 2), "sig": (16, 28, 60, 76)[tok_size % 4], "tok_size": tok_size}
    lib = codec == "lib"
    srv = peers.RpcServer({ECHO_IF: _Echo(reply_len, lib, notes), OTHER_IF: _Echo(0, lib, notes)}, drive.stub_acceptor_factory(cfg) if auth else None,
                          {"sec_addr": "4" * (sa_len - 1) if sa_len else "", "assoc": 0x01020304}, codec=libcodec if lib else None)
    world.add_route(DC, 135, srv)
    ctxs = _contexts(n_ctx, n_tr)
    vt = _vt(vt_kind)
    stub = bytes((i * 3 + 2) & 0xFF for i in range(stub_len))
    usable = [c.context_id for c in ctxs if c.abstract_syntax.uuid == ECHO_IF[0] and rpc.NDR64 in c.transfer_syntaxes]
    ap = "negotiate" if auth else None

    vt2 = _vt((vt_kind * 5 + 3) % 9) if (stub_len + n_ctx) % 2 else None  # a second call on the same connection, other trailer

    def sync_work():
        with rpc.create_rpc_connection(DC, 135, auth_protocol=ap) as c:
            c.bind(ctxs)
            if usable:
                r = c.request(usable[0], 4, stub, verification_trailer=vt)
                if vt2 is not None:
                    c.request(usable[0], 4, stub[:7], verification_trailer=vt2)
                return r

    async def async_work():
        c = await rpc.async_create_rpc_connection(DC, 135, auth_protocol=ap)
        async with c:
            await c.bind(ctxs)
            if usable:
                r = await c.request(usable[0], 4, stub, verification_trailer=vt)
                if vt2 is not None:
                    await c.request(usable[0], 4, stub[:7], verification_trailer=vt2)
                return r

    with world.installed(ctx_factory=drive.stub_ctx_factory(cfg, record) if auth else None):
        out = drive.classify(sync_work) if fl == "sync" else drive.classify(lambda: drive.run_async(world, async_work, random.Random(stub_len)))
    viol = None
    origin_srv = "libdc" if lib else "ref"
    conn = world.conns[0] if world.conns else None
    msgs = 0
    if conn is not None:
        for raw in rpce.split_stream(bytearray(b"".join(conn.tx_log))):
            msgs += 1
            r = wiremon.check_pdu(raw, "client")
            if r and not viol:
                viol = common.violation("C12", "codec", fl, r[0], "client-to-" + origin_srv, "", r[1] + f" case={case}")
        for raw in conn.rx_msgs:
            msgs += 1
            r = wiremon.check_pdu(raw, origin_srv)
            if r and not viol:
                viol = common.violation("C12", "codec", fl, r[0], origin_srv + "-to-client", "", r[1] + f" case={case}")
    if notes and not viol:
        viol = common.violation("C12", "codec", fl, notes[0][0], "verification-trailer", "", notes[0][1] + f" case={case}")
    if not viol and out.kind != "ok":
        et, frame = drive.exc_sig(out)
        viol = common.violation("C12", "conversation", fl, et, frame, codec, f"well-formed conversation failed: {out.exc!r} srv_violations={srv.violations[:2]} case={case}")
    if not viol and usable and out.value is not None:
        v = out.value
        pad = v.sec_trailer.pad_length if v.sec_trailer else 0
        if v.stub_data[: len(v.stub_data) - pad] != bytes((i * 5 + 1) & 0xFF for i in range(reply_len)):
            viol = common.violation("C12", "codec", fl, "response-stub", codec, "", f"client decoded another stub than the server sent; case={case}")
    probes = {"codec_" + codec: 1, "vt_kind_%d" % vt_kind: 1, "sa_mod4_%d" % (sa_len % 4): 1, "msgs_monitored": msgs}
    return {"viol": viol, "digest": world.digest() + out.brief(), "key": common.key_hash(case), "fired": {}, "probes": probes, "vtime_ns": world.stats.get("vtime_ns", 0)}


def run_epm(case) -> dict:
    """["epm", codec, flavour, k, status]"""
    import dpapi_ng._client as dclient
    import dpapi_ng._rpc as rpc

    _, codec, fl, k, status = case
    from ref import refdc

    world = W.World(k)
    towers = _tower_variants(k)
    dc = refdc.RefDC(world, [], host=DC, epm={"towers": towers, "status": status, "ignore_max": True}, lib_codecs=codec == "lib")
    ept = dclient._EPT_MAP_ISD_KEY

    def sync_work():
        with rpc.create_rpc_connection(DC) as c:
            c.bind(dclient._EPM_CONTEXTS)
            return c.request(0, ept.opnum, ept.pack())

    async def async_work():
        c = await rpc.async_create_rpc_connection(DC)
        async with c:
            await c.bind(dclient._EPM_CONTEXTS)
            return await c.request(0, ept.opnum, ept.pack())

    with world.installed():
        out = drive.classify(sync_work) if fl == "sync" else drive.classify(lambda: drive.run_async(world, async_work, random.Random(k)))
    viol = None
    origin = "libdc" if codec == "lib" else "ref"
    lens = [len(rpce.tower_bytes(tw)) for tw in towers]
    probes = {"towers_%d" % len(towers): 1}
    for ln in lens:
        probes["tower_len_mod8_%d" % (ln % 8)] = 1
    conn = world.conns[0] if world.conns else None
    if conn is not None:
        for e in dc.epm_server.log:
            if e.get("event") == "request":
                r = wiremon.check_ept_map_request(e["stub_clear"], "client")
                if r and not viol:
                    viol = common.violation("C12", "epm-codec", fl, r[0], "client-to-" + origin, "", r[1])
        for raw in conn.rx_msgs:
            r = wiremon.check_pdu(raw, origin)
            if r and not viol:
                viol = common.violation("C12", "codec", fl, r[0], origin + "-to-client", "", r[1])
            p = rpce.parse_pdu(raw) if raw[2] == rpce.RESPONSE else None
            if p is not None and not viol:
                r = wiremon.check_ept_map_response(p["stub"], origin)
                if r:
                    viol = common.violation("C12", "epm-codec", fl, r[0], origin + "-to-client", "", r[1] + f"; tower lengths {lens} case={case}")
    if not viol and out.kind != "ok":
        et, frame = drive.exc_sig(out)
        viol = common.violation("C12", "conversation", fl, et, frame, codec, f"well-formed ept_map conversation failed: {out.exc!r}; dc={dc.all_violations[:2]} case={case}")
    return {"viol": viol, "digest": world.digest() + out.brief(), "key": common.key_hash(case), "fired": {}, "probes": probes, "vtime_ns": world.stats.get("vtime_ns", 0)}


def _pdu_catalogue(k: int) -> t.Tuple[str, bytes]:
    """Every PDU type the codecs know, in well-formed variants (reference-encoded)."""
    kinds = ["bind", "alter_context", "bind_ack", "alter_context_resp", "bind_nak", "request", "request_obj", "response", "fault", "response_auth", "bind_auth"]
    kind = kinds[k % len(kinds)]
    v = k // len(kinds)
    auth = {"type": (9, 10, 16)[v % 3], "level": (6, 5, 2)[v % 3], "pad": v % 16, "ctx": v * 7, "value": bytes(range(1 + v % 64))}
    ctxs = [(i, ECHO_IF if i % 2 else OTHER_IF, [rpce.NDR64, rpce.NDR20][: (i + v) % 3]) for i in range(v % 9)]
    res = [((i + v) % 4, (i * 3) % 5, rpce.NDR64 if (i + v) % 4 == 0 else None) for i in range(v % 7)]
    stub = bytes((i + v) & 0xFF for i in range((v * 13) % 200))
    if kind == "bind":
        return kind, rpce.build_bind(ctxs, assoc=v)
    if kind == "bind_auth":
        return kind, rpce.build_bind(ctxs, auth=auth, flags=7)
    if kind == "alter_context":
        return kind, rpce.build_bind(ctxs, ptype=rpce.ALTER_CONTEXT, auth=auth if v % 2 else None)
    if kind == "bind_ack":
        return kind, rpce.build_bind_ack(res, sec_addr="7" * (v % 8), auth=auth if v % 2 else None, flags=3 | (4 if v % 3 else 0))
    if kind == "alter_context_resp":
        return kind, rpce.build_bind_ack(res, ptype=rpce.ALTER_CONTEXT_RESP, sec_addr="", auth=auth if v % 2 else None)
    if kind == "bind_nak":
        return kind, rpce.build_bind_nak(reason=v % 10, versions=[(5, i) for i in range(v % 4)])
    if kind == "request":
        return kind, rpce.build_request(stub, ctx_id=v, opnum=v * 3)
    if kind == "request_obj":
        # (the nil UUID is a value like any other when PFC_OBJECT_UUID says an object UUID is present)
        return kind, rpce.build_request(stub, ctx_id=v, opnum=v, obj=uuid.UUID(int=(v * 1234567 + 1) if v % 4 else 0))
    if kind == "response":
        return kind, rpce.build_response(stub, ctx_id=v, cancel_count=v % 3)
    if kind == "response_auth":
        body = stub + b"\x00" * (-len(stub) % 4)
        return kind, rpce.build_response(body, ctx_id=v, auth=dict(auth, pad=(-len(stub) % 4)))
    return kind, rpce.build_fault(0x1C010000 + v, ctx_id=v, stub=stub[: (v % 3) * 8])


def run_libenc(case) -> dict:
    """["libenc", flavour, k]: a (misbehaving but library-built) peer sends a PDU produced by the library's *own* encoder with
    non-default header values - data representation flags, version_minor, call ids, reserved flag bits; the client decodes
    it; decode + encode must give the same bytes and the same field values the encoder was given."""
    import dpapi_ng._rpc as rpc
    from dpapi_ng._rpc._pdu import PDU

    _, fl, k = case
    obj, hdr, drep, ptype, trailer = _libenc_obj(k)
    raw = bytearray(obj.pack())
    raw[8:10] = len(raw).to_bytes(2, "little")
    raw = bytes(raw)
    world = W.World(k)
    world.add_route(DC, 135, peers.ScriptedPeer([[("send", raw)]]))
    ctxs = _contexts(1, 1)
    return _run_libenc_rest(case, fl, k, obj, hdr, drep, ptype, raw, world, ctxs)


def _libenc_obj(k: int):
    import dpapi_ng._rpc as rpc

    rng = random.Random(k)
    drep = rpc.DataRep(byte_order=rpc.IntegerRep(k % 2), character=rpc.CharacterRep((k // 2) % 2), floating_point=rpc.FloatingPointRep((k // 4) % 4))
    ptype = [rpc.PacketType.BIND_ACK, rpc.PacketType.ALTER_CONTEXT_RESP, rpc.PacketType.RESPONSE, rpc.PacketType.FAULT, rpc.PacketType.BIND_NAK][k % 5]
    trailer = None
    if k % 3 == 0 and ptype != rpc.PacketType.BIND_NAK:
        trailer = rpc.SecTrailer(type=rpc.SecurityProvider.RPC_C_AUTHN_WINNT, level=rpc.AuthenticationLevel.RPC_C_AUTHN_LEVEL_PKT_PRIVACY, pad_length=k % 16,
                                 context_id=k, auth_value=bytes(range(1 + k % 40)))
    hdr = rpc.PDUHeader(version=5, version_minor=k % 2, packet_type=ptype, packet_flags=rpc.PacketFlags(3 | (4 if k % 7 == 0 else 0)), data_rep=drep, frag_len=0,
                        auth_len=len(trailer.auth_value) if trailer else 0, call_id=(1, 2, 0xFFFFFFFF, 0x01020304)[k % 4])
    if ptype in (rpc.PacketType.BIND_ACK, rpc.PacketType.ALTER_CONTEXT_RESP):
        cls = rpc.BindAck if ptype == rpc.PacketType.BIND_ACK else rpc.AlterContextResponse
        # (transfer syntax versions are 32-bit values: also minor-version halves, all ones)
        res = [rpc.ContextResult(rpc.ContextResultCode(j % 4), j, uuid.UUID(int=j * 977), (j, 0x10000, 0x00020001, 0xFFFFFFFF, 0xFFFF, 0x80000000)[(j + k // 5) % 6]) for j in range(k % 5)]
        # (fragment sizes a peer may announce: large, the minimum, tiny; secondary addresses: a port, a pipe name, non-ASCII, and long
        # runs of word characters ending in one that is not)
        sec = ("9" * (k % 6)) if k % 7 != 3 else ("\\PIPE\\ls\u00e4ss", "\u20ac1", "n\u00e4\u00e4", "\U0001F600")[(k // 7) % 4]
        if k % 11 == 5:
            sec = ("4" * (24 + k % 20) + "!", "\\pipe\\" + "a" * 30 + " ", "x" * 40 + "\x01")[(k // 11) % 3]
        obj = cls(header=hdr, sec_trailer=trailer, max_xmit_frag=(4280 + k, 1024, 64, 0, 0xFFFF)[(k // 5) % 5], max_recv_frag=(4280, 16, 0xFFFF)[(k // 25) % 3], assoc_group=k * 31, sec_addr=sec, results=res)
    elif ptype == rpc.PacketType.RESPONSE:
        stub = bytes(rng.randrange(256) for _ in range((k * 4) % 64))
        # (alloc_hint is advisory: 0 = "not specified", smaller or larger than the stub are all legal field values)
        obj = rpc.Response(header=hdr, sec_trailer=trailer, alloc_hint=(len(stub), 0, 1, 0xFFFFFFFF, len(stub) + 7)[(k // 5) % 5], context_id=k % 9, cancel_count=k % 3, stub_data=stub)
    elif ptype == rpc.PacketType.FAULT:
        # (status codes with the top bit set: HRESULTs / NTSTATUS values as Windows servers return them)
        obj = rpc.Fault(header=hdr, sec_trailer=trailer, alloc_hint=(0, 24, 0xFFFFFFFF)[(k // 5) % 3], context_id=k % 9, cancel_count=0,
                        status=(0x1C010000 + k, 0x80070005, 0xC0000022, 0xFFFFFFFF, 0, 0x80000000)[(k // 5) % 6], flags=rpc.FaultFlags(k % 2), stub_data=b"")
    else:
        obj = rpc.BindNak(header=hdr, sec_trailer=None, reject_reason=k % 11, versions=[(5, j) for j in range(k % 3)])
    return obj, hdr, drep, ptype, trailer


def _body_fields(o) -> tuple:
    """The field values of a PDU body (everything but the header, whose frag_len is the sender's job)."""
    names = {"Response": ("alloc_hint", "context_id", "cancel_count", "stub_data"), "Fault": ("alloc_hint", "context_id", "cancel_count", "status", "flags", "stub_data"),
             "BindNak": ("reject_reason", "versions"), "BindAck": ("max_xmit_frag", "max_recv_frag", "assoc_group", "sec_addr", "results"),
             "AlterContextResponse": ("max_xmit_frag", "max_recv_frag", "assoc_group", "sec_addr", "results")}.get(type(o).__name__, ())
    out = []
    for n_ in names:
        v = getattr(o, n_)
        out.append(bytes(v) if isinstance(v, (bytes, bytearray, memoryview)) else (int(v) if isinstance(v, int) else repr(v)))
    return tuple(out)


def _run_libenc_rest(case, fl, k, obj, hdr, drep, ptype, raw, world, ctxs) -> dict:
    import dpapi_ng._rpc as rpc
    from dpapi_ng._rpc._pdu import PDU

    def sync_work():
        with rpc.create_rpc_connection(DC) as c:
            return c.bind(ctxs)

    async def async_work():
        c = await rpc.async_create_rpc_connection(DC)
        async with c:
            return await c.bind(ctxs)

    with world.installed():
        with common.CpuBudget(5.0), common.LineBudget(LINE_A + LINE_B * len(raw)):  # (CPU: work outside the interpreter - regular expressions - has no line events)
            out = drive.classify(sync_work) if fl == "sync" else drive.classify(lambda: drive.run_async(world, async_work))
    viol = None
    label = f"{ptype.name} drep=({int(drep.byte_order)},{int(drep.character)},{int(drep.floating_point)}) minor={hdr.version_minor}"
    try:
        try:
            with common.CpuBudget(5.0):
                back = PDU.unpack(raw)
        except common.BudgetExceeded as e_:
            return {"viol": common.violation("C12", "termination", fl, "budget", common.innermost_repo_frame(e_), "library-encoded",
                                             f"decoding a library-encoded {label} of {len(raw)} bytes used more than 5 s of CPU time"),
                    "digest": "cpu-budget", "key": common.key_hash(case), "fired": {"libenc": 1}, "probes": {"libenc": 1}, "vtime_ns": 0}
        again = bytearray(back.pack())
        again[8:10] = len(again).to_bytes(2, "little")
        if bytes(again) != raw:
            viol = common.violation("C12", "codec", fl, "re-encode-differs", "library-encoded", "", f"decode+encode of a library-encoded {label} changes the bytes; case={case}")
        elif _body_fields(back) != _body_fields(obj):
            viol = common.violation("C12", "codec", fl, "body-fields", "library-encoded", "", f"{label}: encoder was given {str(_body_fields(obj))[:200]}, decoder returned {str(_body_fields(back))[:200]}")
        else:
            h2 = back.header
            exp = (hdr.version_minor, int(hdr.packet_type), int(hdr.packet_flags), len(raw), hdr.auth_len, hdr.call_id, drep)
            got = (h2.version_minor, int(h2.packet_type), int(h2.packet_flags), h2.frag_len, h2.auth_len, h2.call_id, h2.data_rep)
            if exp != got:
                viol = common.violation("C12", "codec", fl, "header-fields", "library-encoded", "", f"{label}: encoder was given {exp}, decoder returned {got}")
    except Exception as e:  # noqa: BLE001
        viol = common.violation("C12", "codec", fl, "well-formed-pdu-not-decoded", "library-encoded", "", f"library cannot decode its own {label}: {e!r}")
    if not viol and out.kind in ("budget", "spin"):
        viol = common.violation("C12", "termination", fl, out.kind, drive.exc_sig(out)[1], "library-encoded", label)
    if not viol and ptype == rpc.PacketType.BIND_ACK and out.kind != "ok":
        viol = common.violation("C12", "conversation", fl, drive.exc_sig(out)[0], drive.exc_sig(out)[1], "library-encoded",
                                f"client did not accept a library-encoded {label}: {out.exc!r}")
    return {"viol": viol, "digest": world.digest() + out.brief(), "key": common.key_hash(case), "fired": {}, "probes": {"libenc": 1, "libenc_drep_be": int(drep.byte_order == 0)},
            "vtime_ns": world.stats.get("vtime_ns", 0)}


def _codec_job(job):
    """One pure codec computation -> a comparable value (decoded field values as repr, encoded bytes)."""
    import dpapi_ng._epm as epm
    import dpapi_ng._rpc as rpc
    from dpapi_ng._rpc._pdu import PDU

    what, k = job
    if what == "cat":  # reference-encoded PDU -> library decode -> library encode
        _kind, raw = _pdu_catalogue(k)
        obj = PDU.unpack(raw)
        return repr(obj), bytes(obj.pack())
    if what == "lib":  # library object -> encode -> decode -> encode
        obj = _libenc_obj(k + 1 if k % 11 == 5 else k)[0]  # (the long secondary addresses are for the sequential cases, which run under a CPU budget)
        rawb = bytearray(obj.pack())
        rawb[8:10] = len(rawb).to_bytes(2, "little")  # (frag_len is the sender's job, as in the libenc cases)
        raw = bytes(rawb)
        back = PDU.unpack(raw)
        return raw, repr(back), bytes(back.pack())
    if what == "vt":
        vt = _vt(1 + k % 8)
        raw = bytes(vt.pack())
        back = rpc.VerificationTrailer.unpack(raw)
        return raw, repr(back), bytes(back.pack())
    if what == "epm":
        stub = rpce.ndr64_ept_map_response(_tower_variants(k), status=0)
        res = epm.EptMapResult.unpack(stub)
        return repr(res), bytes(res.pack())
    if what == "ctx":
        els = _contexts(k % 9, (k // 9) % 5)
        return tuple(bytes(e.pack()) for e in els)
    raise ValueError(what)


def run_threads(case) -> dict:
    """["threads", seed, n_threads, policy]: caller threads of one process encode and decode at the same time (each of them would be
    inside its own RPC conversation); simworld.threads decides every pre-emption at line events inside dpapi_ng.  Every result
    must equal what the same computation gives when nothing else runs."""
    from checks import threadpure

    _, seed, n_threads, policy = case
    r = random.Random(seed)
    jobs = [[(r.choice(("cat", "cat", "lib", "lib", "vt", "epm", "ctx")), r.randrange(600)) for _ in range(r.randint(3, 10))] for _ in range(n_threads)]
    return threadpure.run("C12", "codec", case, jobs, _codec_job, seed, policy)


def run_cat(case) -> dict:
    """["cat", k]: catalogue PDU k (reference-encoded, well-formed) is decoded and re-encoded by the library, nothing else running."""
    from dpapi_ng._rpc._pdu import PDU

    _, k = case
    kind, raw = _pdu_catalogue(k)
    viol = None
    try:
        obj = PDU.unpack(raw)
        again = bytes(obj.pack())
        if again != raw:
            viol = common.violation("C12", "codec", "sequential", "re-encode-differs", kind, "", f"catalogue PDU {k} ({kind}): decode + encode gives {len(again)} bytes instead of the {len(raw)} received; first difference at {next((i for i, (a, b_) in enumerate(zip(again, raw)) if a != b_), min(len(again), len(raw)))}")
        else:
            back = PDU.unpack(again)
            if repr(back) != repr(obj):
                viol = common.violation("C12", "codec", "sequential", "fields-change", kind, "", f"catalogue PDU {k} ({kind}): decoding the re-encoded bytes gives other field values")
    except Exception as e:  # noqa: BLE001
        viol = common.violation("C12", "codec", "sequential", "well-formed-pdu-not-decoded", kind, "", f"catalogue PDU {k} ({kind}): {e!r}")
    return {"viol": viol, "digest": kind, "key": common.key_hash(case), "fired": {}, "probes": {"catalogue_round_trips": 1}, "vtime_ns": 0}


def run_eptreq(case) -> dict:
    """["eptreq", k]: a well-formed ept_map REQUEST (0..5 floors of the standard tcpip tower, object UUID present or not, lookup
    handle present or not, max_towers 0..500) is encoded by the library, decoded by the library and encoded again."""
    import dpapi_ng._epm as epm
    import dpapi_ng._rpc as rpc
    from dpapi_ng._gkdi import ISD_KEY

    _, k = case
    r = random.Random(k)
    full = epm.build_tcpip_tower(ISD_KEY, (rpc.NDR, rpc.NDR64)[k % 2], r.choice((135, 49667, 0, 65535)), r.choice((0, 0x7F000001, 0xFFFFFFFF)))
    n = (k // 2) % 6
    obj = None if k % 3 == 0 else uuid.UUID(int=r.getrandbits(128) | 1)
    eh = None if (k // 3) % 2 == 0 else (r.choice((0, 1, 0xFFFFFFFF)), uuid.UUID(int=r.getrandbits(128) | 1))
    m = epm.EptMap(obj=obj, tower=list(full[:n]), entry_handle=eh, max_towers=r.choice((0, 1, 4, 500)))
    viol = None
    label = f"ept_map request with {n} floors, obj={'set' if obj else 'null'}, entry_handle={'set' if eh else 'null'}, max_towers={m.max_towers}"
    try:
        raw = bytes(m.pack())
        back = epm.EptMap.unpack(raw)
        again = bytes(back.pack())
        if again != raw:
            viol = common.violation("C12", "epm-codec", "sequential", "re-encode-differs", "ept-map-request", "", f"{label}: decode + encode gives other bytes ({len(again)} vs {len(raw)})")
        elif repr(back) != repr(m):
            viol = common.violation("C12", "epm-codec", "sequential", "fields-change", "ept-map-request", "", f"{label}: decoded {repr(back)[:300]}")
    except Exception as e:  # noqa: BLE001
        viol = common.violation("C12", "epm-codec", "sequential", "well-formed-message-not-decoded", "ept-map-request", type(e).__name__, f"{label}: {e!r}")
    return {"viol": viol, "digest": label, "key": common.key_hash(case), "fired": {}, "probes": {"ept_map_request_round_trips": 1, "ept_map_request_%d_floors" % n: 1}, "vtime_ns": 0}


def run_vtsweep(case) -> dict:
    """["vtsweep", k]: a long-lived process meets many different (unknown) verification-trailer command types - 400 well-formed
    trailers in a row, each with a command type not seen before in this case, each decoded and re-encoded."""
    import dpapi_ng._rpc as rpc

    _, k = case
    viol = None
    n_ok = 0
    for j in range(400):
        cmd = 0x0100 + ((k * 409 + j * 7) % 0x3E00)  # 14-bit command space, away from the three known commands
        raw = rpce.build_vt([(cmd, bytes(range(j % 9))), rpce.vt_pcontext(rpce.ISD_KEY_IF, rpce.NDR64, end=True)])
        try:
            vt = rpc.VerificationTrailer.unpack(raw)
            again = bytes(vt.pack())
        except Exception as e:  # noqa: BLE001
            viol = common.violation("C12", "codec", "sequential", "well-formed-trailer-not-decoded", "vt", type(e).__name__,
                                    f"verification trailer #{j + 1} of a sweep over unknown command types (command 0x{cmd:04x}): {e!r}")
            break
        if again != raw:
            viol = common.violation("C12", "codec", "sequential", "re-encode-differs", "vt", "", f"verification trailer with unknown command 0x{cmd:04x}: decode + encode changes the bytes")
            break
        n_ok += 1
    return {"viol": viol, "digest": f"vtsweep{k}:{n_ok}", "key": common.key_hash(case), "fired": {}, "probes": {"vt_command_sweeps": 1}, "vtime_ns": 0}


def run_scale(case) -> dict:
    """["scale", shape, k]: a structured hostile ept_map result (checks.epmstub) of a size proportional to k is decoded; the traced
    lines must stay within 20000 + 30*len (the unchanged decoder needs < 3 lines per byte on these shapes)."""
    import dpapi_ng._epm as epm

    from checks import epmstub

    _, shape, k = case
    data = epmstub.SHAPES[shape](k)
    limit = 20_000 + 30 * len(data)
    with common.LineBudget(limit) as lb:
        out = drive.classify(lambda: epm.EptMapResult.unpack(data))
    viol = None
    if out.kind == "budget":
        viol = common.violation("C12", "termination", "decoder", "budget", drive.exc_sig(out)[1], "structured-" + shape,
                                f"EptMapResult.unpack of a {len(data)}-byte stub ({shape}, k={k}) used more than {limit} traced lines: work is not proportional to the length")
    return {"viol": viol, "digest": out.brief() + str(lb.count if out.kind != "budget" else -1), "key": common.key_hash(case), "fired": {"structured_stub": 1},
            "probes": {"scale_cases": 1, "scale_lines_per_byte_x10": 0}, "vtime_ns": 0}


def run_types(case) -> dict:
    """["types", flavour, k]: a scripted peer answers the bind with PDU variant k; the client runs the matching decoder."""
    import dpapi_ng._rpc as rpc

    _, fl, k = case
    kind, raw = _pdu_catalogue(k)
    world = W.World(k)
    world.add_route(DC, 135, peers.ScriptedPeer([[("send", raw)]]))
    ctxs = _contexts(1, 1)

    def sync_work():
        with rpc.create_rpc_connection(DC) as c:
            return c.bind(ctxs)

    async def async_work():
        c = await rpc.async_create_rpc_connection(DC)
        async with c:
            return await c.bind(ctxs)

    with world.installed():
        with common.LineBudget(LINE_A + LINE_B * len(raw)) as lb:
            out = drive.classify(sync_work) if fl == "sync" else drive.classify(lambda: drive.run_async(world, async_work))
    viol = None
    r = wiremon.check_pdu(raw, "ref")
    if r:
        viol = common.violation("C12", "codec", fl, r[0], "scripted-to-client", kind, r[1] + f" case={case}")
    elif out.kind in ("budget", "spin"):
        viol = common.violation("C12", "termination", fl, out.kind, drive.exc_sig(out)[1], kind, f"decoding a {kind} PDU did not terminate within budget")
    elif kind == "bind_ack" and out.kind != "ok":
        viol = common.violation("C12", "conversation", fl, drive.exc_sig(out)[0], drive.exc_sig(out)[1], kind, f"well-formed bind_ack not accepted: {out.exc!r} case={case}")
    return {"viol": viol, "digest": world.digest() + out.brief(), "key": common.key_hash(case), "fired": {}, "probes": {"type_" + kind: 1},
            "vtime_ns": world.stats.get("vtime_ns", 0)}


def run_tear(case) -> dict:
    """["tear", direction, flavour, conv-kind, seed]: a message is garbled in flight; decoders must terminate within budget."""
    import dpapi_ng._client as dclient
    import dpapi_ng._rpc as rpc

    _, direction, fl, conv, seed = case
    rng = random.Random(seed)
    world = W.World(seed)
    from ref import refdc

    total = [0]
    budget: list = []

    def garble(data: bytes) -> bytes:
        b = bytearray(data)
        mode = rng.choice(("trunc", "flip", "flips", "count", "grow", "fraglen"))
        if mode == "trunc" and len(b) > 17:
            b = b[: rng.randrange(16, len(b))]
            b[8:10] = struct.pack("<H", len(b))  # consistent frag_len: a complete, shorter fragment
        elif mode == "flip":
            i = rng.randrange(len(b))
            b[i] ^= 1 << rng.randrange(8)
        elif mode == "flips":
            for _ in range(rng.randint(2, 12)):
                i = rng.randrange(16, len(b)) if len(b) > 16 else 0
                b[i] = rng.randrange(256)
        elif mode == "count" and len(b) > 32:
            i = rng.randrange(16, len(b) - 8)
            b[i : i + 8] = struct.pack("<Q", rng.choice((0xFFFF, 2**16, 2**32, 2**40, 2**63, 2**64 - 1)))
        elif mode == "grow":
            b += bytes(rng.randrange(256) for _ in range(rng.choice((1, 8, 500, 5000))))
            if len(b) < 65536:
                b[8:10] = struct.pack("<H", len(b))
        else:
            b[8:10] = struct.pack("<H", rng.choice((16, 17, 24, len(b) - 1, max(16, len(b) // 2))))
        total[0] += len(b)
        if budget:
            budget[0].limit += LINE_B * len(b)
        return bytes(b)

    target = rng.choice((0, 1, 1, 2)) if conv == "gkdi" else (1 if conv == "vt" else rng.choice((0, 1)))
    state = {"n": 0}

    def tamper(conn, idx, data):
        if direction == "to-client" and conn.port != 135 and conv == "epm":
            return None
        if idx == target and not state.get("done"):
            state["done"] = True
            return garble(data)
        return None

    class T(dict):
        def get(self, k, d=None):
            return tamper

    cfg = {"legs": 2, "sig": 16}
    record: list = []
    from checks import offline

    rk = offline.synth_root_key(1, "SHA256", "ECDH_P256")
    dc = refdc.RefDC(world, [rk], host=DC, caller_sids={offline.SID_A}, acceptor_factory=drive.stub_acceptor_factory(cfg), lib_codecs=True,
                     epm={"towers": _tower_variants(seed % 20) + [rpce.std_tower(rpce.ISD_KEY_IF, rpce.NDR20, 49667)], "ignore_max": True})
    if direction == "to-libdc":
        world.tx_tampers = T()
    else:
        world.tampers = T()
    from ref import dtyp

    sd = dtyp.target_sd(offline.SID_A)
    if conv == "vt":
        # unauthenticated request carrying a verification trailer to a LibDC whose handler runs the library's trailer decoder
        notes: list = []
        srv = peers.RpcServer({ECHO_IF: _Echo(8, True, notes)}, None, {}, codec=libcodec)
        world.routes.clear()
        world.add_route(DC, 135, srv)
        ctxs = _contexts(1, 1)
        vt = _vt(1 + seed % 8)
        stub = bytes(range(seed % 40))

        def vt_sync():
            with rpc.create_rpc_connection(DC) as c:
                c.bind(ctxs)
                return c.request(0, 4, stub, verification_trailer=vt)

        async def vt_async():
            c = await rpc.async_create_rpc_connection(DC)
            async with c:
                await c.bind(ctxs)
                return await c.request(0, 4, stub, verification_trailer=vt)

        with world.installed():
            with common.LineBudget(LINE_A + LINE_B * 6000) as lb:
                budget.append(lb)
                out = drive.classify(vt_sync) if fl == "sync" else drive.classify(lambda: drive.run_async(world, vt_async, random.Random(seed)))
        viol = None
        if out.kind in ("budget", "spin"):
            et, frame = drive.exc_sig(out)
            viol = common.violation("C12", "termination", fl, out.kind, frame, direction + "-vt", f"garbled request with a verification trailer was not processed within the line budget: {out.exc}")
        return {"viol": viol, "digest": world.digest() + out.brief(), "key": common.key_hash(case) if state.get("done") else None,
                "fired": {"reqtear" if direction == "to-libdc" else "replytear": int(bool(state.get("done")))},
                "probes": {"tear_outcome_" + out.kind: 1, "tear_vt": 1}, "vtime_ns": world.stats.get("vtime_ns", 0)}
    vmw = common.VmWatch()
    vmw.__enter__()
    with world.installed(ctx_factory=drive.stub_ctx_factory(cfg, record)):
        with common.LineBudget(LINE_A + LINE_B * 6000) as lb:
            budget.append(lb)
            if fl == "sync":
                out = drive.classify(lambda: dclient._sync_get_key(DC, sd, rk.root_key_id, 361, 5, 6))
            else:
                out = drive.classify(lambda: drive.run_async(world, lambda: dclient._async_get_key(DC, sd, rk.root_key_id, 361, 5, 6), random.Random(seed)))
    vmw.__exit__(None, None, None)
    peak = vmw.growth
    viol = None
    if peak > (64 << 20) + 256 * total[0]:
        viol = common.violation("C12", "termination", fl, "memory", drive.exc_sig(out)[1], direction,
                                f"garbled fragment ({direction}) made the decoders allocate {peak >> 20} MiB (peak) for {total[0]} garbled bytes")
    if not viol and out.kind in ("budget", "spin"):
        et, frame = drive.exc_sig(out)
        viol = common.violation("C12", "termination", fl, out.kind, frame, direction, f"garbled fragment ({direction}) was not processed within the line budget: {out.exc} lines={lb.count}")
    return {"viol": viol, "digest": world.digest() + out.brief(), "key": common.key_hash(case) if state.get("done") else None,
            "fired": {"reqtear" if direction == "to-libdc" else "replytear": int(bool(state.get("done")))},
            "probes": {"tear_outcome_" + out.kind: 1}, "vtime_ns": world.stats.get("vtime_ns", 0)}


class C12(common.Check):
    id = "C12"
    level = "exploration"
    rule = ("cases: (conv) real client <-> reference server and <-> LibDC (library's server-direction codecs) with bind over 0..8 contexts x 0..4 "
            "transfer syntaxes, secondary address length 0..7, auth tokens 0..64 bytes, request stub lengths, verification trailers built from "
            "BITMASK / PCONTEXT / HEADER2 / unknown commands, reply lengths; (epm) ept_map conversations with 0..6 towers whose floor payloads "
            "sweep every tower-length residue mod 8, encoded by the reference and by LibDC; (types) a scripted peer sends every PDU type in "
            "well-formed variants (object UUID, auth values 0..64, 0..6 results, 0..8 contexts, bind_nak versions) to the client; every message "
            "is checked by the receive-side monitor (library decode == independent decode from a receive buffer that is reused afterwards, "
            "re-encode == bytes); (libenc) PDUs built by the library's own encoders with non-default header values (data representation "
            "flags, minor version, call ids) sent to the client. (tear) one message of a full "
            "EPM+GKDI conversation is garbled in flight (towards LibDC or towards the client: truncation with consistent frag_len, bit flips, "
            "NDR count rewrites up to 2^64-1, growth) under a traced-line budget; (threads) 2..4 caller threads of one process run codec "
            "computations at the same time, pre-empted at PRNG-chosen line events inside dpapi_ng, and every result must equal the one computed alone (also as the first thing a new interpreter does, one child process per case); (vtsweep) 400 verification trailers in a row with command types not seen before; (eptreq) ept_map requests with 0..5 floors, null / non-null object UUID and lookup handle encoded, decoded and re-encoded by the library; (scale) structured hostile ept_map results (many towers with tiny declared lengths and "
            "floor counts reaching to the end of the stub) of growing size under a budget of 20000 + 30*len traced lines. Non-trivial = every case; distinct = distinct tuple.")
    components = {"client": "real (all client-direction codecs, RpcClient)", "LibDC": "real codecs in the server role (Bind/AlterContext/Request/"
                  "VerificationTrailer/EptMap/GetKey decode, BindAck/AlterContextResponse/Response/Fault/BindNak/EptMapResult/GroupKeyEnvelope encode)",
                  "reference server / monitor": "model (ref.rpce)", "security context": "stub", "transport": "simulated, with in-flight adversary"}
    assumptions = ["decode(encode(x)) = x is claimed only for messages that cross the wire between the three parties (values no party sends are outside the technique)",
                   "NDR referent ids are free: NDR64 stubs are compared through the independent decoder"]
    required_fired = ("codec_lib", "codec_ref", "reqtear", "replytear", "tear_vt", "libenc", "libenc_drep_be", "thread_cases", "thread_overlap", "scale_cases", "catalogue_round_trips", "ept_map_request_round_trips", "ept_map_request_0_floors", "ept_map_request_5_floors", "thread_cases_in_new_process", "vt_command_sweeps") + tuple("tower_len_mod8_%d" % i for i in range(8)) + tuple("vt_kind_%d" % i for i in range(9))

    def cases(self, tier, seed):
        out = []
        rng = prng.stream(seed, "C12")
        # structured sweep (each dimension fully covered, combined round-robin)
        n = 0
        for codec in ("ref", "lib"):
            for n_ctx in range(0, 9):
                for n_tr in range(0, 5):
                    for sa_len in range(0, 8):
                        n += 1
                        if tier == "quick" and n % 3:
                            continue
                        tok = (0, 1, 7, 16, 33, 64, 0, 48)[(n_ctx + sa_len + n_tr) % 8]
                        out.append(["conv", codec, "sync" if n % 2 else "async", n_ctx, n_tr, sa_len, tok, (n * 7) % 123, n % 9, (n * 5) % 77])
            for vt_kind in range(9):
                for stub_len in list(range(0, 20)) + [63, 64, 65, 255, 1000]:
                    for tok in (0, 16):
                        out.append(["conv", codec, "sync" if stub_len % 2 else "async", 1, 1, 4, tok, stub_len, vt_kind, stub_len % 9])
            for k in range(0, 140 if tier == "quick" else 700):
                for status in (0,) if k % 10 else (0, 0x16C9A0D6):
                    out.append(["epm", codec, "sync" if k % 2 else "async", k, status])
        for k in range(0, 11 * (30 if tier == "quick" else 70)):
            out.append(["types", "sync" if k % 2 else "async", k])
        for k in range(0, 400 if tier == "quick" else 4000):
            out.append(["libenc", "sync" if k % 2 else "async", k])
        for k in range(0, 300 if tier == "quick" else 20000):
            pol = {"mode": "prob", "p": (0.01, 0.1, 0.4)[k % 3]} if k % 2 else {"mode": "points", "n": 1 + k % 5, "horizon": (200, 2000)[(k // 2) % 2]}
            out.append(["threads", rng.getrandbits(30), 2 + k % 3, pol])
        for k in range(0, 11 * (40 if tier == "quick" else 200)):
            out.append(["cat", k])
        # thread cases as the very first thing a new interpreter does with the library (one child process per case)
        for k in range(0, 64 if tier == "quick" else 2000):
            pol = {"mode": "marks", "q": (0.2, 0.35, 0.5, 0.8)[k % 4], "p": (0.0, 0.02, 0.1)[(k // 4) % 3]} if k % 4 else {"mode": "prob", "p": (0.05, 0.3)[(k // 4) % 2]}
            out.append(["fresh", ["threads", rng.getrandbits(30), 2 + k % 3, pol]])
        for k in range(0, 144 if tier == "quick" else 3000):
            out.append(["eptreq", k])
        for k in range(0, 32 if tier == "quick" else 400):
            out.append(["vtsweep", k])
        from checks import epmstub

        for shape in epmstub.SHAPES:
            for k in (1, 2, 4, 8, 16) + ((32, 48) if tier == "thorough" else ()):
                out.append(["scale", shape, k])
        n_tear = 1500 if tier == "quick" else 80000
        for i in range(n_tear):
            out.append(["tear", "to-libdc" if i % 2 else "to-client", rng.choice(("sync", "async")), rng.choice(("epm", "gkdi", "vt") if i % 2 else ("epm", "gkdi")), rng.getrandbits(30)])
        return out

    def _run_fresh(self, case):
        v = common.run_case_fresh("C12", case[1])
        if v:
            v = {"sig": v["sig"] + "/new-process", "detail": "first use in a new process: " + v["detail"]}
        return {"viol": v, "digest": "fresh:" + (v["sig"] if v else "ok"), "key": common.key_hash(case), "fired": {}, "probes": {"thread_cases_in_new_process": 1}, "vtime_ns": 0}

    def run_case(self, case):
        if case[0] == "fresh":
            return self._run_fresh(case)
        try:
            return {"conv": run_conv, "epm": run_epm, "types": run_types, "tear": run_tear, "libenc": run_libenc, "threads": run_threads, "scale": run_scale, "cat": run_cat, "eptreq": run_eptreq, "vtsweep": run_vtsweep}[case[0]](case)
        except wiremon.MonitorHarnessError as e:
            raise common.HarnessError(str(e))

    def warmup(self, cases):
        seen = set()
        for c in cases:
            k = (c[0], c[1], c[2]) if c[0] in ("tear", "conv", "epm") else (c[0],)
            if c[0] == "tear":
                k = k + (c[3],)
            if k not in seen and c[0] not in ("threads", "scale", "cat", "eptreq", "fresh", "vtsweep"):
                seen.add(k)
                try:
                    self.run_case(c)
                except Exception:  # noqa: BLE001 - reported by the workers
                    pass

    def shrink(self, case):
        if case[0] == "conv":
            c = list(case)
            for i, simple in ((3, 1), (4, 1), (5, 0), (6, 0), (7, 0), (8, 0), (9, 0)):
                if c[i] != simple:
                    yield c[:i] + [simple] + c[i + 1 :]
            if c[2] == "async":
                yield c[:2] + ["sync"] + c[3:]
        elif case[0] == "epm":
            for k in range(case[3]):
                yield case[:3] + [k] + case[4:]
        elif case[0] == "threads":
            from checks import threadpure

            yield from threadpure.shrinks(case, 3, 2, run_threads)

    def sample_repr(self, case, res):
        names = {"conv": ("kind", "codec", "flavour", "n_contexts", "n_transfer_syntaxes", "sec_addr_len", "token_size", "stub_len", "vt_variant", "reply_len"),
                 "epm": ("kind", "codec", "flavour", "tower_variant", "status"), "types": ("kind", "flavour", "pdu_variant"),
                 "tear": ("kind", "direction", "flavour", "conversation", "seed"), "libenc": ("kind", "flavour", "variant"),
                 "threads": ("kind", "seed", "n_threads", "policy"), "scale": ("kind", "shape", "k"), "cat": ("kind", "catalogue_index"), "eptreq": ("kind", "k"), "fresh": ("kind", "case"), "vtsweep": ("kind", "k")}[case[0]]
        return dict(zip(names, case))


CHECK = C12()
