"""C09 - encryption names the group key of the interval containing "now".

The simulated clock is the only thing that varies.  World: an offline cache with
a root key ("rk"), or a cache that first obtained a seed envelope from the
reference DC at a later instant of the same L0 epoch ("seed") and then protects
after the clock jumped back, so the "previously retrieved seed keys" branch is used.
"""
from __future__ import annotations

import random
import typing as t

from checks import common, drive, offline
from ref import cms, gkdi, refdc
from simworld import prng, world as W

B = gkdi.B
RK = offline.synth_root_key(9, "SHA256", "DH")
SID = offline.SID_A
CFG = {"legs": 2, "sig": 16}


def run_tz(case) -> dict:
    """["tz", flavour, ft, TZ]: the same clock-value case in a fresh interpreter whose process timezone is not UTC (the timezone is
    part of the environment the library starts in; module-level constants are computed at import time)."""
    import json
    import os
    import re
    import subprocess
    import sys
    import tempfile

    _, fl, ft, tz = case
    inner = ["rk", fl, ft, 0, []]
    fd, path = tempfile.mkstemp(prefix="verif-c09-tz-", suffix=".json")
    try:
        with os.fdopen(fd, "w") as f:
            json.dump({"check": "C09", "signature": "?", "case": inner}, f)
        env = dict(os.environ, TZ=tz, PYTHONHASHSEED="0", PYTHONPATH=common.VERIF)
        p = subprocess.run([sys.executable, os.path.join(common.VERIF, "checks", "main.py"), "C09", "--replay", path], capture_output=True, text=True, env=env, timeout=120)
    finally:
        os.unlink(path)
    viol = None
    m = re.search(r"replay gave a different violation: (\S+)", p.stdout)
    if p.returncode == 1 and m:
        viol = {"sig": m.group(1) + "/TZ", "detail": f"process timezone TZ={tz}: " + (p.stdout.strip().splitlines()[-1] if p.stdout.strip() else "")[:300]}
        d = re.search(r"detail: (.*)", p.stdout)
    elif p.returncode not in (0, 1):
        raise common.HarnessError(f"timezone sub-run failed (exit {p.returncode}): {p.stdout[-300:]} {p.stderr[-300:]}")
    return {"viol": viol, "digest": f"tz{p.returncode}", "key": common.key_hash(case), "fired": {"timezone_env": 1}, "probes": {"non_utc_timezone": 1}, "vtime_ns": 0}


def run_overlap(case) -> dict:
    """["overlap", n, ft, tick_ticks]: n async protects on one cache are started together while the wall clock advances with every
    reading and passes an interval boundary in between.  Each blob must name an interval that contains an instant of its OWN call
    (from its start to its completion); which calls overlap, and how, is the simulated loop's business."""
    import asyncio

    import dpapi_ng

    _, n, ft, tick_ticks = case[:4]
    stagger_us = case[4] if len(case) > 4 else 0  # the calls are started that many (virtual) microseconds apart
    world = W.World(ft & 0xFFFFFFFF)
    record: list = []
    cache = offline.new_cache(RK)
    spans: t.List[t.Optional[tuple]] = [None] * n
    world.clock.set_filetime(ft)
    world.clock.tick_per_read_ns = tick_ticks * 100

    async def one(k):
        if stagger_us and k:
            await asyncio.sleep(k * stagger_us / 1e6)
        start = world.clock.filetime()
        blob = await dpapi_ng.async_ncrypt_protect_secret(b"x", SID, root_key_identifier=RK.root_key_id, cache=cache)
        spans[k] = (start, world.clock.filetime(), blob)

    async def main():
        await asyncio.gather(*(one(k) for k in range(n)))

    with world.installed(ctx_factory=drive.stub_ctx_factory(CFG, record)):
        out = drive.classify(lambda: drive.run_async(world, main))
    viol = None
    probes = {"overlapping_async_protects": 1}
    if out.kind != "ok":
        viol = common.violation("C09", "protect-failed", "async-overlap", *drive.exc_sig(out), "", f"overlapping protects at filetime {ft} failed: {out.exc!r}")
    else:
        for k, sp in enumerate(spans):
            start, end, blob = sp
            p = cms.parse_blob(blob)["key_identifier"]
            got = (p["l0"], p["l1"], p["l2"])
            lo, hi = gkdi.interval_of_filetime(start), gkdi.interval_of_filetime(end)
            if lo != hi:
                probes["boundary_crossed_during_call"] = 1
            if not (lo <= got <= hi):
                viol = common.violation("C09", "interval", "async-overlap", "past" if got < lo else "future", "", "",
                                        f"call {k + 1} of {n} overlapping protects ran from filetime {start} ({lo}) to {end} ({hi}) but its blob names {got}")
                break
    return {"viol": viol, "digest": world.digest(), "key": common.key_hash(case), "fired": {"clk_set": 1}, "probes": probes, "vtime_ns": world.stats.get("vtime_ns", 0)}


def run_thread_overlap(case) -> dict:
    """["toverlap", n, ft, tick_ticks, seed, policy]: n caller threads of one process protect on ONE cache while the wall clock advances
    with every reading and passes an interval boundary; simworld.threads decides every pre-emption.  Each blob must name an
    interval that contains an instant of its OWN call."""
    import dpapi_ng
    from checks import plan as P
    from simworld import threads as simthreads

    _, n, ft, tick_ticks, seed, policy = case
    world = W.World(seed)
    record: list = []
    cache = offline.new_cache(RK)
    world.clock.set_filetime(ft)
    world.clock.tick_per_read_ns = tick_ticks * 100

    def one():
        start = world.clock.filetime()
        blob = dpapi_ng.ncrypt_protect_secret(b"x", SID, root_key_identifier=RK.root_key_id, cache=cache)
        return (start, world.clock.filetime(), blob)

    with world.installed(ctx_factory=drive.stub_ctx_factory(CFG, record)):
        tsim = simthreads.ThreadSim(random.Random(seed ^ 0x9C09), P.SRC_PREFIX(), policy)
        try:
            res = tsim.run([one for _ in range(n)])
        except simthreads.Wedged as e:
            raise common.HarnessError(str(e))
    viol = None
    probes = {"thread_protects_one_cache": 1, "thread_overlap": tsim.overlap}
    for k, (val, exc) in enumerate(res):
        if exc is not None:
            viol = common.violation("C09", "protect-failed", "threads", type(exc).__name__, common.innermost_repo_frame(exc) if isinstance(exc, Exception) else "", "",
                                    f"thread {k} of {n} protecting on one cache at filetime {ft} failed: {exc!r}")
            break
        start, end, blob = val
        p = cms.parse_blob(blob)["key_identifier"]
        got = (p["l0"], p["l1"], p["l2"])
        lo, hi = gkdi.interval_of_filetime(start), gkdi.interval_of_filetime(end)
        if lo != hi:
            probes["boundary_crossed_during_call"] = 1
        else:
            probes["thread_call_entirely_on_one_side"] = 1
        if not (lo <= got <= hi):
            viol = common.violation("C09", "interval", "threads", "past" if got < lo else "future", "", "",
                                    f"thread {k} of {n} (one cache) ran from filetime {start} ({lo}) to {end} ({hi}) but its blob names {got}; "
                                    f"{len(tsim.switches)} pre-emptions")
            break
    return {"viol": viol, "digest": world.digest() + str(len(tsim.switches)), "key": common.key_hash(case), "sched_key": common.key_hash(tsim.switches) if tsim.switches else None,
            "fired": {"clk_set": 1, "thread_preemptions": len(tsim.switches)}, "probes": probes, "vtime_ns": 0, "_script": tsim.script()}


def run_byz_seed(case) -> dict:
    """["byzseed", flavour, ft, dl0, l1', l2']: a cache that holds no root key; an unprotect of a blob at the current position is answered
    by a misbehaving DC with an envelope for ANOTHER L0 interval (the call fails, as it must); the DC then behaves again and a
    protect naming the root key follows on the same cache at the same instant: its blob must name the current interval."""
    from checks import plan as P

    _, fl, ft, dl0, bl1, bl2 = case
    world = W.World(ft & 0xFFFFFFFF)
    record: list = []
    cache = offline.new_cache()
    cur = gkdi.interval_of_filetime(ft)
    viol = None
    probes = {"byzantine_reply_then_protect": 1}
    with world.installed(ctx_factory=drive.stub_ctx_factory(CFG, record)):
        dc = refdc.RefDC(world, [RK], host=offline.DC, caller_sids={SID}, acceptor_factory=drive.stub_acceptor_factory(CFG),
                         byz={"reply_position": [cur[0] + dl0, bl1, bl2], "reply_position_first_n": 1})
        world.clock.set_filetime(ft)
        blob, _pt = P.make_blob({"rk": 0, "sid": SID, "pos": list(cur), "mode": "nonce", "data": 5}, [RK], 1)
        first = drive.classify(lambda: offline.call_api(world, fl, "unprotect", blob, cache=cache, server=offline.DC))
        probes["first_call_" + first.kind] = 1
        out = drive.classify(lambda: offline.call_api(world, fl, "protect", b"x", SID, root_key_identifier=RK.root_key_id, cache=cache, server=offline.DC))
    if out.kind != "ok":
        viol = common.violation("C09", "protect-failed", fl + "-after-byzantine-reply", *drive.exc_sig(out), "", f"protect at filetime {ft} after a misplaced reply failed: {out.exc!r}")
    else:
        p = cms.parse_blob(out.value)["key_identifier"]
        got = (p["l0"], p["l1"], p["l2"])
        if got != cur:
            viol = common.violation("C09", "interval", fl + "-after-byzantine-reply", "past" if got < cur else "future", "", "",
                                    f"clock filetime {ft} = interval {cur}; an earlier unprotect on this cache was answered with an envelope for "
                                    f"{(cur[0] + dl0, bl1, bl2)}; the protect that followed names {got}")
    return {"viol": viol, "digest": world.digest(), "key": common.key_hash(case), "fired": {"clk_set": 1}, "probes": probes, "vtime_ns": world.stats.get("vtime_ns", 0)}


def run(case) -> dict:
    """case: [config, flavour, ft, sub_ns, [earlier fts...]]"""
    config, fl, ft, sub_ns, history = case[:5]
    tick_ns = case[5] if len(case) > 5 else 0  # clock advance per reading: the clock moves while the call runs
    world = W.World(ft & 0xFFFFFFFF)
    record: list = []
    cache = offline.new_cache(RK) if config == "rk" else offline.new_cache()
    probes: t.Dict[str, int] = {}
    observed = []
    with world.installed(ctx_factory=drive.stub_ctx_factory(CFG, record)):
        if config == "seed-dcahead":
            # an authorised caller and a DC whose clock is a little ahead: the first call's answer is for the DC's (next) interval
            dc = refdc.RefDC(world, [RK], host=offline.DC, caller_sids={SID}, acceptor_factory=drive.stub_acceptor_factory(CFG), skew_ns=(case[6] if len(case) > 6 else 2) * 1_000_000_000)
            probes["member_account_dc_ahead"] = 1
        elif config == "seed-pubonly":
            # an account that may only encrypt (the DC hands it the group PUBLIC key) and a DC whose clock is a little ahead
            dc = refdc.RefDC(world, [RK], host=offline.DC, caller_sids=set(), acceptor_factory=drive.stub_acceptor_factory(CFG), skew_ns=(case[6] if len(case) > 6 else 2) * 1_000_000_000)
            probes["public_key_only_account_dc_ahead"] = 1
        elif config.startswith("seed"):
            dc = refdc.RefDC(world, [RK], host=offline.DC, caller_sids={SID}, acceptor_factory=drive.stub_acceptor_factory(CFG))
        instants = [(h, 0) for h in history] + [(ft, sub_ns)]
        out = None
        for i, (t_ft, t_sub) in enumerate(instants):
            world.clock.set_filetime(t_ft, t_sub)
            world.clock.tick_per_read_ns = tick_ns if i == len(instants) - 1 else 0
            world.clock.reads.clear()
            before = len(dc.getkey_log) if config.startswith("seed") else 0
            kw = {"server": offline.DC} if config.startswith("seed") else {}
            if config == "seed-offline" and i == len(instants) - 1:
                world.partitioned = True  # the DC cannot be reached for the last call
            out = drive.classify(lambda: offline.call_api(world, fl, "protect", b"x", SID, root_key_identifier=RK.root_key_id, cache=cache, **kw))
            if out.kind != "ok":
                break
            try:
                p = cms.parse_blob(out.value)["key_identifier"]
            except cms.CmsError as e:
                out = drive.Outcome("raise", exc=e)
                break
            from_cache = config == "rk" or len(dc.getkey_log) == before
            reads = list(world.clock.reads)
            t_last = (max(reads) // 100 + gkdi.FILETIME_EPOCH) if reads else t_ft
            observed.append((t_ft, (p["l0"], p["l1"], p["l2"]), from_cache, t_last))
    viol = None
    if config == "seed-offline" and out.kind == "raise" and len(observed) == len(history):
        # no key material covers "now" and the DC is unreachable: failing is the correct outcome; naming some other interval is not
        probes["uncovered_offline_raises"] = 1
        out = drive.Outcome("ok", None)
    if out.kind != "ok":
        viol = common.violation("C09", "protect-failed", fl + "-" + config, *drive.exc_sig(out), "", f"protect at filetime {ft} failed: {out.exc!r}")
    else:
        for t_ft, got, from_cache, t_last in observed:
            want = gkdi.interval_of_filetime(t_ft)
            if t_last != t_ft and from_cache:
                # the clock moved while the call ran: any interval containing an instant between the first and the last reading is right
                probes["clock_moved_during_call"] = 1
                lo, hi = gkdi.interval_of_filetime(t_ft), gkdi.interval_of_filetime(t_last)
                if lo != hi:
                    probes["boundary_crossed_during_call"] = 1
                if lo <= got <= hi and (got == lo or got == hi or gkdi.interval_start_filetime(*got) >= t_ft):
                    continue
                viol = common.violation("C09", "interval", fl + "-" + config, "torn-reading", "", "",
                                        f"clock moved from filetime {t_ft} ({lo}) to {t_last} ({hi}) during the call; the blob names {got}, which contains no instant of that span")
                break
            if from_cache:
                probes["from_cache"] = 1
                if config.startswith("seed"):
                    probes["from_cached_seed"] = 1
            if got != want and from_cache:
                d = t_ft % B
                d0 = t_ft % (1024 * B)
                where = "l0-boundary" if min(d0, 1024 * B - d0) <= 64 else ("l2-boundary" if min(d, B - d) <= 64 else "interior")
                which = "future" if got > want else "past"
                viol = common.violation("C09", "interval", fl + "-" + config, which, "", where,
                                        f"clock filetime {t_ft} (+{sub_ns} ns) lies in interval {want} but the blob names {got}; "
                                        f"{(1024 * B - d0) if got > want else d0} ticks from the L0 boundary")
                break
    if tick_ns:
        probes["clock_ticks_per_read"] = 1  # (the unchanged library reads the clock once per call, so no boundary is ever crossed inside a call)
    return {"viol": viol, "digest": world.digest() + str(observed), "key": common.key_hash([config, ft, sub_ns, history, tick_ns]),
            "fired": {"clk_set": len(history) + 1, "clk_jump_back": sum(1 for a, b_ in zip(history + [ft], (history + [ft])[1:]) if b_ < a)},
            "probes": probes, "vtime_ns": world.stats.get("vtime_ns", 0)}


class C09(common.Check):
    id = "C09"
    level = "fault_enumeration"
    rule = ("case = (cache configuration rk|seed, flavour, clock instant in 100 ns ticks + sub-tick ns, earlier instants on the same cache). "
            "Enumerated: every L0 boundary 1970..2200 (L0 315..513) x every tick offset -64..+64; L1 and L2 boundaries in 40 L0 epochs x "
            "offsets; sub-tick offsets 0/1/50/99 ns; PRNG instants across 1970..2200; clock jumps backwards/forwards between calls sharing "
            "a cache; the same instants in fresh interpreters whose process timezone is not UTC; several async protects started together on one cache while the ticking clock passes a boundary (each blob must name an interval of its own call's span); a protect that follows, on a cache without root key, an unprotect answered by a misbehaving DC with an envelope for another L0 interval; 2..3 caller threads protecting on one cache at the same time under the same oracle, pre-empted at PRNG-chosen line events; a clock that advances 1..1000 ticks per reading so that one call straddles an L2/L1/L0 boundary (any interval containing an "
            "instant between its first and last reading is accepted); an account (authorised, or one that only receives the public key) served by a DC whose clock is 1..3 s ahead, calling within the last 1.5 s before a boundary; 'seed' cases obtain an envelope from the reference DC late in the epoch and protect after the clock jumped back. "
            "Non-trivial = instant within 64 ticks of an interval boundary or a history with a clock jump; distinct = distinct tuple.")
    components = {"client": "real (ncrypt_protect_secret / async, KeyCache, _get_protection_gke_from_cache)", "clock": "simulated (dpapi_ng._client.time seam)",
                  "DC": "model (RefDC) in the 'seed' configuration", "parser of the emitted blob": "model (ref.cms)"}
    assumptions = ["interval formula in exact integer arithmetic on FILETIME ticks (ref.gkdi.interval_of_filetime)"]
    required_fired = ("from_cache", "from_cached_seed", "clk_jump_back", "clock_ticks_per_read", "uncovered_offline_raises", "non_utc_timezone", "overlapping_async_protects", "thread_protects_one_cache", "thread_overlap", "thread_call_entirely_on_one_side", "byzantine_reply_then_protect", "public_key_only_account_dc_ahead", "member_account_dc_ahead")

    def exhaustive(self, tier):
        return True

    exhaustive_note = "all L0 boundaries 1970..2200 x offsets -64..+64 are enumerated; the rest is sampled"

    def cases(self, tier, seed):
        out = []
        rng = prng.stream(seed, "C09")
        step = 1 if tier == "thorough" else 3
        offs = list(range(-64, 65)) if tier == "thorough" else list(range(-12, 13)) + [-64, -33, -32, -17, -16, 16, 17, 32, 33, 64]
        for l0 in range(316, 514):
            base = l0 * 1024 * B
            if base < gkdi.FILETIME_EPOCH:
                continue
            dense = tier == "thorough" or l0 % step == 0
            for o in (offs if dense else (-9, -8, -7, -1, 0, 1)):
                fl = "sync" if (l0 + o) % 2 == 0 else "async"
                out.append(["rk", fl, base + o, 0, []])
            out.append(["rk", "sync", base - 1, 99, []])
            out.append(["rk", "async", base, 1, []])
        # L1 / L2 boundaries
        for l0 in range(361, 401):
            for k in range(1, 1024, 1 if tier == "thorough" else 37):
                base = (l0 * 1024 + k) * B
                for o in (-2, -1, 0, 1) if tier == "quick" else range(-8, 9):
                    out.append(["rk", "sync" if k % 2 else "async", base + o, 0 if o else 50, []])
        # PRNG instants
        lo, hi = gkdi.FILETIME_EPOCH, 316 * 1024 * B + 200 * 1024 * B
        for _ in range(4000 if tier == "quick" else 200000):
            out.append(["rk", rng.choice(("sync", "async")), rng.randrange(lo, hi), rng.randrange(100), []])
        # clock jumps on one cache
        for _ in range(600 if tier == "quick" else 20000):
            l0 = rng.randrange(316, 513)
            base = l0 * 1024 * B
            pts = [base + rng.choice((-9, -8, -1, 0, 1, rng.randrange(-5 * B, 5 * B), rng.randrange(0, 1024 * B))) for _ in range(rng.randint(2, 4))]
            out.append(["rk", rng.choice(("sync", "async")), pts[-1], 0, pts[:-1]])
        # cache holding a DC-obtained seed envelope, clock jumps back within the epoch
        for _ in range(400 if tier == "quick" else 10000):
            l0 = rng.randrange(330, 500)
            late = l0 * 1024 * B + rng.randrange(512 * B, 1024 * B)
            back = l0 * 1024 * B + rng.choice((0, 1, 7, B - 1, B, 32 * B - 1, 32 * B, rng.randrange(0, late - l0 * 1024 * B)))
            out.append(["seed", rng.choice(("sync", "async")), back, 0, [late]])
        # ... and steps back to an earlier L2 interval of the SAME L1 interval as the cached seed (NTP correction, DC clock ahead of ours)
        for _ in range(400 if tier == "quick" else 10000):
            l0 = rng.randrange(330, 500)
            l1 = rng.randrange(32)
            l2 = rng.randrange(1, 32)
            late = ((l0 * 32 + l1) * 32 + l2) * B + rng.randrange(B)
            back = ((l0 * 32 + l1) * 32 + rng.randrange(0, l2)) * B + rng.choice((0, 1, B - 1, rng.randrange(B)))
            out.append(["seed", rng.choice(("sync", "async")), back, 0, [late]])
        # the clock advances between two readings inside one call and crosses an L2 / L1 / L0 boundary meanwhile
        for l0 in range(330, 500, 7 if tier == "quick" else 1):
            for k, tick_ticks in ((1, 1), (2, 1), (1, 2), (3, 2), (1, 1000)):
                for base in (l0 * 1024 * B, (l0 * 1024 + 32 * (l0 % 31 + 1)) * B, (l0 * 1024 + l0 % 1000 + 1) * B):
                    out.append(["rk", "sync" if (l0 + k) % 2 else "async", base - k, 0, [], tick_ticks * 100])
        # several async protects started together on one cache while the (ticking) clock passes a boundary
        for l0 in range(330, 500, 5 if tier == "quick" else 1):
            for n_ in (2, 3):
                for k, tick_ticks in ((1, 1), (2, 3), (1, B), (5, 40)):
                    for base in (l0 * 1024 * B, (l0 * 1024 + l0 % 1000 + 1) * B):
                        for stagger in (0, 20, 300, 2000):
                            out.append(["overlap", n_, base - k, tick_ticks, stagger])
        # ... and caller threads protecting on one cache (every pre-emption decided by the thread scheduler)
        from checks import threadpure

        for i in range(1800 if tier == "quick" else 60000):
            l0 = rng.randrange(330, 500)
            base = rng.choice((l0 * 1024 * B, (l0 * 1024 + rng.randrange(1, 1024)) * B))
            tick_ticks = rng.choice((1, 1, 2, 3, 40))
            pol = {"mode": "marks", "q": rng.choice((0.2, 0.4, 0.6, 0.9, 1.0)), "p": rng.choice((0.0, 0.0, 0.01, 0.03))} if i % 4 else threadpure.policy_for(i // 4)
            out.append(["toverlap", 2 + i % 2, base - rng.randrange(1, 6) * tick_ticks, tick_ticks, rng.getrandbits(30), pol])
        # an account that may only encrypt, a DC whose clock is 1..3 s ahead, calls made within the last second(s) before a boundary:
        # whatever a later call takes from the cache must name the interval of the caller's own clock
        for i in range(200 if tier == "quick" else 6000):
            l0 = rng.randrange(330, 500)
            bnd = (l0 * 1024 + rng.randrange(1, 1024)) * B
            back = rng.choice((1, 5_000_000, 9_999_999, 15_000_000))  # ticks before the boundary: 100 ns .. 1.5 s
            out.append(["seed-pubonly", rng.choice(("sync", "async")), bnd - back + rng.choice((0, 1, 1000)), 0, [bnd - back], 0, rng.choice((1, 2, 3))])
            # (the same with an authorised caller: the first answer is a seed for the DC's interval, later calls are served from it)
            out.append(["seed-dcahead", rng.choice(("sync", "async")), bnd - back + rng.choice((0, 1, 1000)), 0, [bnd - back] * rng.randint(1, 2), 0, rng.choice((1, 2, 3))])
        # a misplaced reply to an earlier unprotect on a cache without root key, then a protect at the same instant
        for i in range(240 if tier == "quick" else 8000):
            l0 = rng.randrange(330, 500)
            ft = (l0 * 1024 + rng.randrange(1024)) * B + rng.randrange(B)
            out.append(["byzseed", rng.choice(("sync", "async")), ft, rng.choice((-1, -1, -2, 1, -40)), rng.choice((31, 31, rng.randrange(32))), rng.choice((31, rng.randrange(32)))])
        # the process runs in a timezone other than UTC (fresh interpreter per case)
        for k, tz in enumerate(("IST-5:30", "EST5EDT", "NZST-12", "UTC+11")):
            for j in range(4 if tier == "quick" else 40):
                l0 = 340 + 13 * j + k
                out.append(["tz", "sync" if j % 2 else "async", l0 * 1024 * B + (0, B - 1, 5 * B + 17, 1023 * B)[j % 4], tz])
        # a cache that only holds a DC-obtained seed; the clock then moves past that seed's interval while the DC is unreachable
        for _ in range(300 if tier == "quick" else 8000):
            l0 = rng.randrange(330, 500)
            got = l0 * 1024 * B + rng.randrange(0, 1000 * B)
            later = got + rng.choice((B, 2 * B, 32 * B, 40 * B, 1024 * B, rng.randrange(B, 30 * B)))
            out.append(["seed-offline", rng.choice(("sync", "async")), later, 0, [got]])
        for l0 in range(330, 500, 5 if tier == "quick" else 1):
            # obtain at the very end of the epoch, then protect within the last ticks of the epoch (still covered by the cached seed)
            end = (l0 + 1) * 1024 * B
            for o in (-9, -8, -4, -1):
                out.append(["seed", "sync", end + o, 0, [end - 1]])
        return out

    def run_case(self, case):
        if case[0] == "tz":
            return run_tz(case)
        if case[0] == "overlap":
            return run_overlap(case)
        if case[0] == "toverlap":
            return run_thread_overlap(case)
        if case[0] == "byzseed":
            return run_byz_seed(case)
        return run(case)

    def shrink(self, case):
        if case[0] == "toverlap":
            from checks import threadpure

            yield from threadpure.shrinks(case, 5, 1, run_thread_overlap)
            return
        if case[0] in ("tz", "overlap", "byzseed"):
            return
        config, fl, ft, sub, hist = case[:5]
        if len(case) > 5:
            return
        if hist and config == "rk":
            yield [config, fl, ft, sub, []]
            for i in range(len(hist)):
                yield [config, fl, ft, sub, hist[:i] + hist[i + 1 :]]
        if sub:
            yield [config, fl, ft, 0, hist]
        if fl == "async":
            yield [config, "sync", ft, sub, hist]
        if config.startswith("seed"):
            yield ["rk", fl, ft, sub, []]

    def sample_repr(self, case, res):
        if case[0] == "tz":
            return {"config": "rk", "flavour": case[1], "filetime": case[2], "process_timezone": case[3]}
        if case[0] == "byzseed":
            return dict(zip(("kind", "flavour", "filetime", "reply_l0_offset", "reply_l1", "reply_l2"), case))
        if case[0] == "toverlap":
            return dict(zip(("kind", "caller_threads", "filetime", "clock_ticks_per_reading", "seed", "thread_policy"), case))
        if case[0] == "overlap":
            return dict(zip(("kind", "concurrent_protects", "filetime", "clock_ticks_per_reading", "start_stagger_us"), case))
        return {"config": case[0], "flavour": case[1], "filetime": case[2], "sub_ns": case[3], "earlier_instants": case[4],
                "interval": gkdi.interval_of_filetime(case[2])}


CHECK = C09()
