"""C17 - online behaviour against a conforming DC: faithful requests, correct
results, sync == async.

Full world: client <-> endpoint mapper (135) <-> GKDI (dynamic port) on the
reference DC, PRNG segmentation and latencies, DC clock skew, DNS node when no
server is passed, stub and real (pyspnego NTLM / Negotiate) security contexts.
Every plan is executed twice, once per flavour, and the decoded transcripts and
results must agree.
"""
from __future__ import annotations

import random
import typing as t

from checks import common, drive, offline, plan as P
from ref import cms, dtyp, gkdi, rpce
from simworld import prng

B = gkdi.B


def gen_plan(rng, i: int, tier: str) -> dict:
    hash_name = offline.HASHES[i % 4]
    secret = offline.SECRETS[(i // 4) % 3]
    nsub = 1 + (i // 12) % 15
    sid_m = offline.sid_shape(nsub, i)  # caller is a member of this one
    sid_o = offline.sid_shape(1 + (i // 7) % 15, i + 3) + "-77"[: 0 if nsub == 15 else 3]
    if sid_o == sid_m or sid_o.count("-") > 17:
        sid_o = "S-1-5-32-544"
    l0 = rng.randrange(340, 470)
    now = l0 * 1024 * B + rng.randrange(1024 * B)
    if rng.random() < 0.3:
        now = (l0 * 1024 + rng.choice((31, 32 * 5 + 31, 1023, 0, 32))) * B + rng.randrange(B)
    ctxk = rng.random()
    if ctxk < 0.7:
        ctx = {"kind": "stub", "legs": rng.choice((1, 2, 2, 3)), "sig": rng.choice((16, 28, 60, 76))}
    else:
        ctx = {"kind": rng.choice(("ntlm", "negotiate"))}
    dn = rng.choice(("", "a", "domain.test", "d" * rng.randrange(1, 40), "bücher.example", "\U0001F600.test"))
    fn = rng.choice(("", "forest.test", "f" * rng.randrange(1, 40)))
    skew = rng.choice((0, 0, 0, -3 * B, 3 * B, -1, 1, 40 * B))
    plan = {"seed": rng.getrandbits(31), "clock_ft": now, "root_keys": [[i % 5, hash_name, secret], [(i + 1) % 5 + 10, offline.HASHES[(i + 1) % 4], "DH"]],
            "caller_sids": [sid_m], "ctx": ctx,
            "dc": {"omit_l2_at_31": rng.random() < 0.5, "domain": dn, "forest": fn, "skew_ticks": skew, "gkdi_port": rng.randrange(1024, 65536),
                   "pad_mode": rng.choice(("min16", "min4", "1")), "header_sign": rng.random() < 0.7},
            "delivery": rng.choice((None, {"mode": "rand", "seed": rng.getrandbits(16), "bias": rng.choice(("small", "header", "geo"))})),
            "latency_us": [rng.choice((1, 50)), rng.choice((100, 4000, 900000))], "use_dns": rng.random() < 0.3, "ops": [],
            "concurrent": rng.random() < 0.3}  # the async execution runs all operations at once (fresh cache each), the sync one in sequence
    r2 = random.Random(plan["seed"])
    if r2.random() < 0.15:
        # a conforming but slow DC: one of its PDUs on every connection arrives after a pause (longer than the 5 s connect timeout in a
        # third of these plans); both flavours must behave alike
        plan["delivery"] = dict(plan["delivery"] or {"mode": "whole"}, gaps=[[r2.randrange(0, 3), 0, r2.choice((0.5, 3.0, 6.0))]])
        plan["slow_dc"] = True
    if 0.15 <= r2.random() < 0.27:
        # fault: the key service port announced by the endpoint mapper refuses the first connection attempt of every operation
        # (service restart); a call may fail with that error or try again, but whatever it asks for must be what the blob names
        plan["conn_flap"] = 1
        plan["concurrent"] = False
    if r2.random() < 0.12:
        # the DC's services answer completely and then abort (or close) the connection at once: the caller already holds its answer
        plan["dc"]["after_response"] = r2.choice(("rst", "rst", "eof"))
    k_ = r2.random()
    if k_ < 0.08:
        # fault: every connection is reset by the peer inside (or right before) its m-th message; both flavours must fail alike
        plan["delivery"] = {"rst_at": [r2.choice((0, 1, 1, 2)), r2.choice((0, 5, 16, 30))]}
        plan["conn_reset"] = True
        plan["concurrent"] = False
    elif k_ < 0.16:
        # the socket takes only a few bytes per send() call (full send buffer, slow reader)
        plan["short_writes"] = {"max": r2.choice((1, 7, 16, 100))}
    n_ops = rng.randint(1, 6 if tier == "thorough" else 4)
    cur = gkdi.interval_of_filetime(now)
    for _ in range(n_ops):
        r = rng.random()
        if r < 0.45:
            member = rng.random() < 0.6
            plan["ops"].append({"op": "protect", "fl": "sync", "sid": sid_m if member else sid_o, "rk": rng.choice((None, None, 0, 1)),
                                "net": "online", "data": rng.choice((0, 1, 16, 100)), "cache": "fresh", "domain_name": "corp.example"})
        else:
            # blob at a chosen position: current, corners, previous L0, occasionally the DC's future
            pr = rng.random()
            if pr < 0.2:
                pos = list(cur)
            elif pr < 0.5:
                pos = [cur[0], rng.choice((0, 31, cur[1])), rng.choice((0, 31, cur[2]))]
            elif pr < 0.75:
                pos = [cur[0] - rng.randint(1, 3), rng.choice((0, 31, rng.randrange(32))), rng.choice((0, 31, rng.randrange(32)))]
            elif pr < 0.9:
                pos = [cur[0], rng.randrange(32), rng.randrange(32)]
            else:
                pos = [cur[0] + 1, rng.randrange(32), rng.randrange(32)]
            member = rng.random() < 0.75
            rki = rng.choice((0, 0, 1))
            rk_secret = plan["root_keys"][rki][2]
            plan["ops"].append({"op": "unprotect", "fl": "sync", "net": "online", "cache": "fresh",
                                "blob": {"rk": rki, "sid": sid_m if member else sid_o, "pos": pos, "mode": rng.choice(("nonce", "nonce", "pub")),
                                         "trailing": rng.random() < 0.3, "data": rng.choice((0, 1, 17, 64)), "domain": dn or "x.test", "forest": fn}})
    if r2.random() < 0.08:
        # one cache shared by two principals of a process: a caller who only ever receives the group public key protects, then an
        # authorised caller unprotects that very blob on the same cache - nothing the first call left behind can stand in for the
        # seed key, the key the blob names must be requested
        plan["ops"] = [{"op": "identity", "sids": []},
                       {"op": "protect", "fl": "sync", "sid": sid_m, "rk": rng.choice((None, 0)), "net": "online", "data": 16, "cache": "shared", "domain_name": "corp.example"},
                       {"op": "identity", "sids": [sid_m]},
                       {"op": "unprotect", "fl": "sync", "net": "online", "cache": "shared", "blob": {"from_op": 1}}]
        plan["concurrent"] = False
        plan["shared_cache_two_principals"] = True
        plan.pop("conn_flap", None)  # (one fault family per plan: the second call needs the first one's blob)
        return plan
    if r2.random() < 0.08:
        # one cache with a history: blobs made under the OTHER (e.g. superseded) root key were opened on it, then a protect that names
        # no root key: the request must still carry a NULL root key id (the DC picks the current key)
        plan["ops"] = [{"op": "unprotect", "fl": "sync", "net": "online", "cache": "shared",
                        "blob": {"rk": 1, "sid": sid_m, "pos": [cur[0] - rng.randint(0, 2), rng.randrange(32), rng.randrange(32)] if rng.random() < 0.7 else list(cur), "mode": "nonce",
                                 "trailing": False, "data": 9, "domain": dn or "x.test", "forest": fn}},
                       {"op": "protect", "fl": "sync", "sid": sid_m, "rk": None, "net": "online", "data": 16, "cache": "shared", "domain_name": "corp.example"},
                       {"op": "protect", "fl": "sync", "sid": sid_o, "rk": None, "net": "online", "data": 16, "cache": "shared", "domain_name": "corp.example"}]
        if tuple(plan["ops"][0]["blob"]["pos"]) > cur:
            plan["ops"][0]["blob"]["pos"] = list(cur)
        plan["concurrent"] = False
        plan["cache_with_history"] = True
        plan.pop("conn_flap", None)
        return plan
    if r2.random() < 0.08:
        # one cache shared by calls that are in flight at the same time (async tasks of one loop / caller threads): blobs of different
        # L0 epochs, so that every call has to fetch its own key
        plan["ops"] = [{"op": "unprotect", "fl": "sync", "net": "online", "cache": "shared",
                        "blob": {"rk": 0, "sid": sid_m, "pos": [cur[0] - k_, rng.choice((0, 31, rng.randrange(32))), rng.choice((0, 31, rng.randrange(32)))], "mode": rng.choice(("nonce", "pub")),
                                 "trailing": False, "data": 9, "domain": dn or "x.test", "forest": fn}} for k_ in range(1, rng.randint(3, 4))]
        plan["concurrent"] = True
        plan["concurrent_shared_cache"] = True
        plan.pop("conn_flap", None)
        return plan
    if r2.random() < 0.2 and len(plan["ops"]) >= 2:
        # the caller passes no cache at all (the documented default): every call still starts from nothing
        for o in plan["ops"]:
            o["cache"] = "none"
        plan["no_cache_argument"] = True
    return plan


def _thread_policy(r) -> dict:
    k = r.random()
    if k < 0.35:
        return {"mode": "prob", "p": r.choice((0.003, 0.03, 0.3))}
    if k < 0.7:
        return {"mode": "points", "n": r.choice((1, 2, 4)), "horizon": r.choice((500, 5000, 30000))}
    return {"mode": "marks", "q": r.choice((0.2, 0.5, 0.9)), "p": r.choice((0.0, 0.001))}


def _transcript(tr: P.Trace, with_tokens: bool, per_conn: bool = False):
    out = []
    conns: t.Dict[t.Any, list] = {}
    for srv in (tr.dc.epm_server, tr.dc.gkdi_server):
        for e in srv.log:
            p = e.get("pdu")
            if p is None:
                rec = (srv.name, e.get("event"), e.get("status"))
                out.append(rec)
                conns.setdefault((srv.name, e.get("conn")), []).append(rec)
                continue
            item = [srv.name, p["name"], p["flags"], p["call_id"], p["auth_len"] if with_tokens else bool(p["auth_len"])]
            if p["auth"]:
                item += [p["auth"]["type"], p["auth"]["level"], p["auth"]["pad"], p["auth"]["ctx"]]
                if with_tokens and p["ptype"] != rpce.REQUEST:
                    item.append(p["auth"]["value"])
            if "contexts" in p:
                item.append(tuple((c[0], c[1], tuple(c[2])) for c in p["contexts"]))
                item += [p["max_xmit"], p["max_recv"], p["assoc"]]
            if p["ptype"] == rpce.REQUEST:
                item += [p["ctx_id"], p["opnum"], p["alloc_hint"], e.get("stub_padded", e.get("stub_clear"))]
            out.append(tuple(item))
            conns.setdefault((srv.name, e.get("conn")), []).append(tuple(item))
    if per_conn:  # concurrent execution: the conversations interleave; compare them as a multiset of per-connection transcripts
        return sorted((repr(v) for v in conns.values()))
    return out


def judge_one(plan, tr: P.Trace, fl: str):
    """Request fidelity and results of one execution."""
    probes: t.Dict[str, int] = {}
    dc = tr.dc

    slow = bool(plan.get("slow_dc"))
    if slow:
        probes["slow_dc"] = 1
    if plan.get("no_cache_argument"):
        probes["no_cache_argument"] = 1
    if plan["dc"].get("after_response"):
        probes["connection_aborted_after_reply"] = 1
    if plan.get("shared_cache_two_principals"):
        probes["shared_cache_two_principals"] = 1
    if plan.get("concurrent_shared_cache"):
        probes["concurrent_calls_one_cache"] = 1
    if plan.get("short_writes"):
        probes["short_writes"] = 1
    if plan.get("cache_with_history"):
        probes["protect_on_cache_with_history"] = 1

    def V(clause, cond, detail, ot=None):
        et = ""
        if ot is not None and ot.outcome.kind != "ok":
            et = drive.exc_sig(ot.outcome)[0]
        return common.violation("C17", clause, fl, cond, et, "", detail + (f" [op {ot.idx} {ot.op['op']} outcome={ot.outcome.brief()} {ot.outcome.exc!r}]" if ot else ""))

    if dc.all_violations:
        return V("request-fidelity", "dc-rejected", f"the conforming DC saw a non-conforming request: {dc.all_violations[:3]}"), probes
    gk_i = 0
    rk_by_id = {rk.root_key_id: rk for rk in tr.root_keys}
    for ot in tr.ops:
        if ot.op["op"] not in ("protect", "unprotect"):
            continue
        gks = ot.getkeys
        if ot.op["op"] == "unprotect" and "from_op" in ot.op["blob"] and ot.blob_in is None:
            continue  # (the earlier call that should have made this blob failed and was judged there)
        if slow and ot.outcome.kind == "raise" and isinstance(ot.outcome.exc, TimeoutError):
            probes["timed_out_on_slow_dc"] = 1  # (a read timeout is policy, not fidelity; the flavours must still agree, see below)
            continue
        if plan.get("conn_reset"):
            probes["connection_reset_mid_conversation"] = 1
            if ot.outcome.kind == "raise" and isinstance(ot.outcome.exc, (ConnectionError, EOFError)):
                continue  # (failing with the connection error is the expected outcome; the flavours must agree, see below)
        flap = bool(plan.get("conn_flap"))
        if flap:
            probes["key_port_refused_once"] = 1
            if ot.outcome.kind == "raise" and isinstance(ot.outcome.exc, ConnectionRefusedError) and not gks:
                probes["failed_with_connection_refused"] = 1  # (giving up is fine; the flavours must agree, see below)
                continue
        if plan.get("_concurrent_now"):
            # the operations ran at once: attribute the DC's log entries by their arguments
            if ot.op["op"] == "unprotect":
                sp = ot.blob_spec
                wantk = (dtyp.target_sd(sp["sid"]), tr.root_keys[sp["rk"]].root_key_id, *sp["pos"])
            else:
                wantk = (dtyp.target_sd(ot.op["sid"]), tr.root_keys[ot.op["rk"]].root_key_id if ot.op.get("rk") is not None else None, -1, -1, -1)
            pool = plan.setdefault("_pool", list(gks))
            match = [x for x in pool if (x.get("sd"), x.get("root_key_id"), x.get("l0"), x.get("l1"), x.get("l2")) == wantk]
            if not match:
                return V("request-fidelity", "getkey-count", f"no GetKey request with the arguments of this operation among the {len(gks)} the DC saw (concurrent execution)", ot), probes
            pool.remove(match[0])
            gks = [match[0]]
            probes["concurrent_ops"] = probes.get("concurrent_ops", 0) + 1
        if len(gks) != 1 and not (flap and len(gks) > 1):
            return V("request-fidelity", "getkey-count", f"{len(gks)} GetKey requests for one operation with a fresh cache", ot), probes
        g = gks[-1]
        if flap:
            # (the library tried again after the refused connection: every request it made must be the faithful one)
            if ot.op["op"] == "unprotect":
                want_f = (dtyp.target_sd(ot.blob_spec["sid"]), tr.root_keys[ot.blob_spec["rk"]].root_key_id, *ot.blob_spec["pos"])
            else:
                want_f = (dtyp.target_sd(ot.op["sid"]), tr.root_keys[ot.op["rk"]].root_key_id if ot.op.get("rk") is not None else None, -1, -1, -1)
            for g_ in gks:
                if (g_.get("sd"), g_.get("root_key_id"), g_.get("l0"), g_.get("l1"), g_.get("l2")) != want_f:
                    g = g_
                    break
        # EPM hop: the ept_map request of this op asked for ISD_KEY over TCP (RefDC only answers those), second connect went to the mapped port
        if ot.op["op"] == "unprotect":
            spec = ot.blob_spec
            if spec is None:  # a blob made earlier in this history by the library: what it names is read with the independent parser
                pb = cms.parse_blob(ot.blob_in)
                kid_ = pb["key_identifier"]
                spec = {"sid": pb["sid"], "rk": [r_.root_key_id for r_ in tr.root_keys].index(kid_["root_key_id"]), "pos": [kid_["l0"], kid_["l1"], kid_["l2"]],
                        "mode": "pub" if kid_["flags"] & 1 else "nonce"}
            rk = tr.root_keys[spec["rk"]]
            want = (dtyp.target_sd(spec["sid"]), rk.root_key_id, *spec["pos"])
            got = (g.get("sd"), g.get("root_key_id"), g.get("l0"), g.get("l1"), g.get("l2"))
            if got != want:
                diff = [n for n, a, b_ in zip(("sd", "root_key_id", "l0", "l1", "l2"), got, want) if a != b_]
                return V("request-fidelity", "unprotect-asks-wrong-key", f"GetKey arguments differ from what the blob names in {diff}: got {got[1:]} want {want[1:]}", ot), probes
            member = spec["sid"] in plan["caller_sids"]
            future = tuple(spec["pos"]) > g["dc_now"]
            if future:
                probes["future_key"] = 1
                if ot.outcome.kind != "raise":
                    return V("results", "future-key-not-an-error", "DC answered with an HRESULT (key in its future) but the call did not raise", ot), probes
            elif not member:
                probes["non_member_unprotect"] = 1
                if ot.outcome.kind != "raise" or not isinstance(ot.outcome.exc, ValueError):
                    return V("results", "unauthorised-not-an-error", "DC returned only the public key but unprotect did not raise its not-authorised error", ot), probes
            else:
                if ot.outcome.kind != "ok":
                    return V("results", "unprotect-failed", "unprotect against a conforming DC failed", ot), probes
                if ot.outcome.value != ot.plaintext:
                    return V("results", "wrong-plaintext", "unprotect returned different bytes", ot), probes
                probes["unprotect_ok"] = probes.get("unprotect_ok", 0) + 1
                probes["pos_corner"] = probes.get("pos_corner", 0) + int(spec["pos"][1] in (0, 31) and spec["pos"][2] in (0, 31))
                probes["prev_l0"] = probes.get("prev_l0", 0) + int(spec["pos"][0] < g["dc_now"][0])
                probes["blob_pub"] = probes.get("blob_pub", 0) + int(spec["mode"] == "pub")
        else:
            want_rk = tr.root_keys[ot.op["rk"]].root_key_id if ot.op.get("rk") is not None else None
            got = (g.get("sd"), g.get("root_key_id"), g.get("l0"), g.get("l1"), g.get("l2"))
            want = (dtyp.target_sd(ot.op["sid"]), want_rk, -1, -1, -1)
            if got != want:
                diff = [n for n, a, b_ in zip(("sd", "root_key_id", "l0", "l1", "l2"), got, want) if a != b_]
                return V("request-fidelity", "protect-asks-wrong-key", f"GetKey arguments of protect differ in {diff}: got {got[1:]} want {want[1:]}", ot), probes
            if ot.outcome.kind != "ok":
                return V("results", "protect-failed", "protect against a conforming DC failed", ot), probes
            try:
                p = cms.parse_blob(ot.outcome.value)
                kid = p["key_identifier"]
                rk = rk_by_id[kid["root_key_id"]]
                pt = cms.unprotect_parsed(p, rk)[0]
            except Exception as e:  # noqa: BLE001
                return V("results", "blob-undecryptable", f"reference cannot decrypt the blob with the DC's keys: {e!r}", ot), probes
            if pt != ot.plaintext:
                return V("results", "blob-wrong-plaintext", "reference decrypts the blob to different bytes", ot), probes
            if (kid["l0"], kid["l1"], kid["l2"]) != g["position"] or kid["root_key_id"] != g["envelope_fields"]["root_key_id"]:
                return V("results", "blob-names-other-key", f"blob names {(kid['l0'], kid['l1'], kid['l2'])} but the DC returned {g['position']}", ot), probes
            if p["sid"] != ot.op["sid"]:
                return V("results", "blob-metadata", "the SID in the blob differs from the protection descriptor of the request", ot), probes
            # (domain / forest copied from the envelope are recorded, not judged: the statement is silent on them)
            probes["kid_names_copied"] = probes.get("kid_names_copied", 0) + int((kid["domain"], kid["forest"]) == (plan["dc"]["domain"], plan["dc"]["forest"]))
            probes["protect_" + g["kind"]] = probes.get("protect_" + g["kind"], 0) + 1
            probes["l2_omitted"] = probes.get("l2_omitted", 0) + int(bool(g.get("l2_omitted")))
        # sealing + verification trailer (RefDC enforces presence; here: exact content)
        if not g["sealed"] or g["auth_level"] != 6:
            return V("request-fidelity", "not-sealed", "GetKey not at PKT_PRIVACY", ot), probes
        vt = g.get("vt") or []
        if [(c, f) for c, f, _v in vt] != [(rpce.VT_PCONTEXT, rpce.VT_END)] or vt[0][2] != rpce.syntax_bytes(rpce.ISD_KEY_IF) + rpce.syntax_bytes(rpce.NDR64):
            return V("request-fidelity", "verification-trailer", f"verification trailer is not PCONTEXT(ISD_KEY, NDR64)|END: {vt}", ot), probes
    # connections: for every op, 135 then the mapped port
    att = tr.world.connect_attempts
    if plan.get("_concurrent_now"):
        if plan.get("_pool"):
            return V("request-fidelity", "getkey-count", f"{len(plan['_pool'])} GetKey requests nobody asked for (concurrent execution)"), probes
        n135 = sum(1 for a in att if a[1] == 135)
        nport = sum(1 for a in att if a[1] == plan["dc"]["gkdi_port"])
        if not plan.get("conn_reset") and (n135 != nport or n135 + nport != len(att) or any(a[0] != offline.DC for a in att)):
            return V("request-fidelity", "wrong-endpoint", f"connections {att} do not pair mapper and mapped port {plan['dc']['gkdi_port']}"), probes
        att = []
    if plan.get("conn_reset"):
        att = []  # (a conversation cut short on the mapper connection never gets to the second connect: nothing to pair)
    for k in range(0, len(att) - 1, 2):
        if att[k][1] != 135 or att[k + 1][1] != plan["dc"]["gkdi_port"] or att[k][0] != offline.DC or att[k + 1][0] != offline.DC:
            return V("request-fidelity", "wrong-endpoint", f"connections went to {att[k]} then {att[k + 1]}, mapper announced port {plan['dc']['gkdi_port']}"), probes
    for e in dc.epm_log:
        d = e.get("decoded")
        if d is None or e.get("iface") != rpce.ISD_KEY_IF or not any(f[0] == 0x07 for f in d["floors"]) or not any(f[0] == 0x0B for f in d["floors"]):
            return V("request-fidelity", "ept-map-request", f"ept_map did not ask for ISD_KEY over ncacn_ip_tcp: {e.get('error')} {e.get('iface')}"), probes
    if plan.get("use_dns"):
        probes["dns"] = 1
        for q in tr.world.dns_queries:
            if not q[0].startswith("_ldap._tcp.dc._msdcs") or q[1] != "SRV":
                return V("request-fidelity", "dns-query", f"unexpected DNS query {q}"), probes
    return None, probes


class C17(common.Check):
    id = "C17"
    level = "exploration"
    rule = ("case = plan of 1..6 operations (protect as member / non-member with and without root key id; unprotect of reference-made blobs at "
            "current, corner, previous-L0 and DC-future positions, nonce and public-key mode, both layouts) against the reference DC with "
            "per-plan knobs: 4 hashes x {DH,P256,P384}, SIDs of 1..15 sub-authorities, domain/forest names 0..40 chars incl. non-ASCII, "
            "GKDI port, padding policy, header signing, envelope shape (L2 omitted at 31), DC clock skew, PRNG segmentation and latencies, "
            "DNS discovery, a DC whose PDUs arrive after pauses of 0.5..6 s, protects without a root key id on a cache that has opened blobs of another root key, one cache shared by calls in flight at the same time (different L0 epochs), one cache shared by a principal who only receives the public key (protect) and an authorised one (unprotect of that blob), connections reset by the peer inside a handshake message or reply, sockets that take only a few bytes per send(), services that abort or close the connection right after every complete Response, a key service port that refuses the first connection attempt of every operation (failing with that error is accepted, asking for another key is not), security context (StubCtx 1..3 legs / real NTLM / real Negotiate). Each plan runs once per flavour; request log, "
            "results and sync-vs-async transcripts are judged; in 30% of the plans the async execution runs all operations at once (the "
            "conversations then interleave under the PRNG scheduler and are compared per connection) and a third execution runs them as "
            "caller threads using the sync API, pre-empted at PRNG-chosen line events inside dpapi_ng. Non-trivial = every plan; distinct = distinct plan.")
    components = {"client": "real (public API both flavours, RPC client, AuthenticationProvider, all codecs)",
                  "DC": "model (RefDC: EPM + GKDI, independent codecs and key derivation)",
                  "security context": "stub (StubCtx) in ~70% of plans, real pyspnego NTLM / Negotiate->NTLM initiator+acceptor in ~30%",
                  "DNS": "stub resolver", "transport / clock / entropy / scheduler": "simulated"}
    assumptions = ["Kerberos is not simulated", "loopback TCP of the statement is replaced by the simulated transport",
                   "ept_map max_towers / handle / referent ids and alloc_hint are recorded, not judged"]
    required_fired = ("unprotect_ok", "protect_seed", "protect_public", "future_key", "non_member_unprotect", "dns", "real_ctx", "l2_omitted",
                      "pos_corner", "prev_l0", "blob_pub", "concurrent_ops", "thread_ops", "thread_overlap", "slow_dc", "no_cache_argument", "key_port_refused_once", "failed_with_connection_refused", "connection_aborted_after_reply", "shared_cache_two_principals", "concurrent_calls_one_cache", "short_writes", "connection_reset_mid_conversation", "protect_on_cache_with_history")

    def cases(self, tier, seed):
        rng = prng.stream(seed, "C17")
        n = 1800 if tier == "quick" else 100000
        return [gen_plan(rng, i, tier) for i in range(n)]

    def run_case(self, case):
        res = {}
        viol = None
        probes: t.Dict[str, int] = {}
        traces = {}
        conc = bool(case.get("concurrent")) and sum(1 for o in case["ops"] if "fl" in o) > 1
        for fl in ("sync", "async"):
            plan = dict(case, ops=[dict(o, fl=fl, group=(1 if (conc and fl == "async") else None)) if "fl" in o else o for o in case["ops"]])
            if conc and fl == "async":
                plan["_concurrent_now"] = True
            tr = P.execute_plan(plan)
            traces[fl] = tr
            v, pr = judge_one(plan, tr, fl)
            for k, val in pr.items():
                probes[k] = probes.get(k, 0) + val
            if v and not viol:
                viol = v
        if conc and not viol:
            # the same operations once more as caller threads of one process using the sync API (fresh cache each): simworld.threads
            # decides every pre-emption at line events inside dpapi_ng; per-connection conversations must equal the sequential ones
            r = random.Random(case["seed"] ^ 0x7EAD)
            pol = _thread_policy(r)
            plan = dict(case, ops=[dict(o, fl="thread", group=1) if "fl" in o else o for o in case["ops"]], threads=case.get("threads") or pol, _concurrent_now=True)
            tr = P.execute_plan(plan)
            traces["thread"] = tr
            v, pr = judge_one(plan, tr, "thread")
            probes["thread_ops"] = pr.get("concurrent_ops", 0)
            probes["thread_overlap"] = tr.world.stats.get("toverlap", 0)
            if v:
                viol = v
            else:
                with_tokens = case["ctx"]["kind"] == "stub"
                ta, tb = _transcript(traces["sync"], with_tokens, True), _transcript(tr, with_tokens, True)
                if ta != tb:
                    k = next((i for i, (x, y) in enumerate(zip(ta, tb)) if x != y), min(len(ta), len(tb)))
                    viol = common.violation("C17", "flavour-equivalence", "sync-vs-threads", "transcript", "", "",
                                            f"conversation #{k} differs: sequential={str(ta[k] if k < len(ta) else None)[:300]} threads={str(tb[k] if k < len(tb) else None)[:300]}")
                else:
                    for oa, ob in zip(traces["sync"].ops, tr.ops):
                        if oa.outcome.kind != ob.outcome.kind or (oa.outcome.kind == "raise" and type(oa.outcome.exc) is not type(ob.outcome.exc)) or \
                                (oa.op["op"] == "unprotect" and oa.outcome.kind == "ok" and oa.outcome.value != ob.outcome.value):
                            viol = common.violation("C17", "flavour-equivalence", "sync-vs-threads", "outcome", "", "",
                                                    f"op {oa.idx}: sequential {oa.outcome.brief()} vs in a thread {ob.outcome.brief()} {ob.outcome.exc!r}")
                            break
        if not viol:
            a, b_ = traces["sync"], traces["async"]
            with_tokens = case["ctx"]["kind"] == "stub"
            ta, tb = _transcript(a, with_tokens, conc), _transcript(b_, with_tokens, conc)
            if ta != tb:
                k = next((i for i, (x, y) in enumerate(zip(ta, tb)) if x != y), min(len(ta), len(tb)))
                viol = common.violation("C17", "flavour-equivalence", "sync-vs-async" + ("-concurrent" if conc else ""), "transcript", "", "",
                                        f"{'conversation' if conc else 'client PDU'} #{k} differs: sync={str(ta[k] if k < len(ta) else None)[:300]} async={str(tb[k] if k < len(tb) else None)[:300]}")
            else:
                for oa, ob in zip(a.ops, b_.ops):
                    if oa.outcome.kind != ob.outcome.kind or (oa.outcome.kind == "raise" and type(oa.outcome.exc) is not type(ob.outcome.exc)):
                        viol = common.violation("C17", "flavour-equivalence", "sync-vs-async", "outcome", "", "",
                                                f"op {oa.idx}: sync {oa.outcome.brief()} vs async {ob.outcome.brief()}")
                        break
                    if oa.op["op"] == "unprotect" and oa.outcome.kind == "ok" and oa.outcome.value != ob.outcome.value:
                        viol = common.violation("C17", "flavour-equivalence", "sync-vs-async", "result", "", "", f"op {oa.idx} results differ")
                        break
        if case["ctx"]["kind"] != "stub":
            probes["real_ctx"] = 1
        w = traces["async"].world
        return {"viol": viol, "digest": traces["sync"].world.digest() + w.digest() + (traces["thread"].world.digest() if "thread" in traces else ""), "key": common.key_hash(case),
                "sched_key": common.key_hash(traces["async"].schedule) if traces["async"].schedule else None,
                "fired": {"seg": w.stats.get("seg", 0) + traces["sync"].world.stats.get("seg", 0), "choice_points": w.stats.get("choice_points", 0),
                          "thread_preemptions": traces["thread"].world.stats.get("tswitch", 0) if "thread" in traces else 0,
                          "clk_skew": int(bool(case["dc"]["skew_ticks"]))},
                "probes": probes, "vtime_ns": w.stats.get("vtime_ns", 0)}

    def shrink(self, case):
        ops = case["ops"]
        for i in range(len(ops)):
            if len(ops) > 1:
                yield dict(case, ops=ops[:i] + ops[i + 1 :])
        if case.get("delivery"):
            yield dict(case, delivery=None)
        if case.get("use_dns"):
            yield dict(case, use_dns=False)
        if case["ctx"]["kind"] != "stub" or case["ctx"].get("legs") != 2:
            yield dict(case, ctx={"kind": "stub", "legs": 2, "sig": 16})
        if case.get("concurrent"):
            tplan = dict(case, ops=[dict(o, fl="thread", group=1) if "fl" in o else o for o in case["ops"]])
            if not case.get("thread_scripts") and not case.get("threads"):
                r = random.Random(case["seed"] ^ 0x7EAD)
                tplan["threads"] = _thread_policy(r)
            for cand in P.thread_shrinks(tplan):
                yield dict(case, thread_scripts=cand["thread_scripts"])
        dc = case["dc"]
        for k, simple in (("skew_ticks", 0), ("pad_mode", "min16"), ("header_sign", True), ("omit_l2_at_31", False), ("domain", "domain.test"), ("forest", "domain.test")):
            if dc.get(k) != simple:
                yield dict(case, dc=dict(dc, **{k: simple}))

    def sample_repr(self, case, res):
        return {"clock_ft": case["clock_ft"], "ctx": case["ctx"], "dc": case["dc"], "use_dns": case["use_dns"], "root_keys": case["root_keys"],
                "ops": [(o["op"], o.get("sid"), o.get("rk"), (o.get("blob") or {}).get("pos"), (o.get("blob") or {}).get("mode")) for o in case["ops"]]}


CHECK = C17()
