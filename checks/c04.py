"""C04 - a modified blob never decrypts to different plaintext.

Storage faults (bit rot, torn / truncated records, byte substitution, insertion,
deletion, multi-site and field-targeted corruption) are injected into the blob
at rest between protect and unprotect; the world holds the correct key
material offline and has no reachable DC.
"""
from __future__ import annotations

import typing as t

from checks import blobs, common, drive
from simworld import blobstore, prng


FORGE_VARIANTS = ("y=1", "y=0", "y=p-1/z=1", "y=p-1/z=p-1", "p=1", "p=2,y=1", "p=5,y=4/z=1", "p=5,y=4/z=4", "p=7,y=2/z=1", "p=7,y=2/z=2", "p=7,y=2/z=4", "g-differs,y=1",
                  "p=2^2047,y=2/z=0", "p=2^2040,y=4/z=0")


def run_forge(case) -> dict:
    """["forge", base blob index, variant]: an adversary who can only rewrite the stored record (no key, no DC access) turns it into a
    public-key-mode record whose DH public value makes the shared secret predictable (0, 1, p-1, or a group of its own choosing),
    wraps a CEK of its choice under the KEK that follows from it and appends its own content.  The record must be rejected."""
    from cryptography.hazmat.primitives import keywrap
    from cryptography.hazmat.primitives.ciphers.aead import AESGCM

    from ref import cms, gkdi

    _, bi, variant = case
    cat = blobs.catalogue(next(iter(blobs._CAT)))
    b = cat[bi]
    p = cms.parse_blob(b.blob)
    P, G, kl = gkdi.RFC5114_P, gkdi.RFC5114_G, 256
    v = FORGE_VARIANTS[variant]
    zs = {"y=1": (P, G, 1, 1), "y=0": (P, G, 0, 0), "y=p-1/z=1": (P, G, P - 1, 1), "y=p-1/z=p-1": (P, G, P - 1, P - 1), "p=1": (1, 0, 0, 0),
          "p=2,y=1": (2, 1, 1, 1), "p=5,y=4/z=1": (5, 2, 4, 1), "p=5,y=4/z=4": (5, 2, 4, 4), "p=7,y=2/z=1": (7, 3, 2, 1), "p=7,y=2/z=2": (7, 3, 2, 2),
          "p=7,y=2/z=4": (7, 3, 2, 4), "g-differs,y=1": (P, G + 1, 1, 1),
          # a modulus that is a power of two: any large exponent of an even base gives 0
          "p=2^2047,y=2/z=0": (1 << 2047, 3, 2, 0), "p=2^2040,y=4/z=0": (1 << 2040, 3, 4, 0)}[v]
    fp, fg, fy, fz = zs
    key_info = gkdi.pack_dh_key(kl, fp, fg, fy)
    kek = gkdi._kek_from_shared(b.rk.hash_name, fz.to_bytes(kl, "big"), "SHA256")
    cek, nonce, chosen = b"\x42" * 32, b"\x07" * 12, b"chosen by whoever can write the record"
    kid = dict(p["key_identifier"], flags=p["key_identifier"]["flags"] | 1, key_info=key_info)
    forged = cms.build_blob(gkdi.pack_key_identifier(kid), p["sid"], keywrap.aes_key_wrap(kek, cek), nonce, AESGCM(cek).encrypt(nonce, chosen, None),
                            in_envelope="/env" in b.name)
    out, world, cnt = blobs.unprotect_stored(b, forged)
    viol = None
    probes = {"forged_records": 1}
    if out.kind == "ok" and out.value != b.plaintext:
        viol = common.violation("C04", "different-plaintext", "sync", "forged-dh-public-value", "", v.split("/")[0],
                                f"record {b.name} rewritten at rest into a public-key record with DH public value {v} (shared secret known to anyone) "
                                f"decrypted to {out.value[:40]!r}: a party holding no key and without DC access chose the plaintext")
    elif out.kind == "ok":
        probes["outcome_same"] = 1
    else:
        probes["outcome_" + out.kind] = 1
    return {"viol": viol, "digest": out.brief(), "key": common.key_hash(case), "fired": {"field": 4}, "probes": probes, "vtime_ns": 0}


GUESS_LEVELS = ("l2", "l2@31", "l1", "l1+1", "l1+2", "l1@31", "l0", "root")
GUESS_CONSTS = (b"", b"\x00" * 64, b"\x00" * 32)
GUESS_POSITIONS = ("same", "l2=31", "l1-1,l2=31", "l1-1", "l1-2,l2=5", "0,0", "l2-1", "31,31", "l1+1,l2=0")
GUESS_HISTORIES = ("none", "valid-first", "valid-first-twice")


def _guessed_l2(hash_name, rkid, sd, l0, l1, l2, level, const):
    """The L2 seed key for (l0, l1, l2) that follows when the key at ``level`` of the MS-GKDI chain is the public constant ``const``
    instead of something derived from the root key (what a library computes if it ever derives from an absent / zeroed field)."""
    from ref import gkdi

    K, ctx = gkdi.KDS_SERVICE, gkdi.kdf_context

    def down_l2(key31):
        k = key31
        for j in range(30, l2 - 1, -1):
            k = gkdi.kdf(hash_name, k, K, ctx(rkid, l0, l1, j), 64)
        return k

    def from_l1(key, idx):
        for j in range(idx - 1, l1 - 1, -1):
            key = gkdi.kdf(hash_name, key, K, ctx(rkid, l0, j, -1), 64)
        return down_l2(gkdi.kdf(hash_name, key, K, ctx(rkid, l0, l1, 31), 64))

    if level == "l2":
        return const
    if level == "l2@31":
        return down_l2(const)
    if level == "l1":
        return from_l1(const, l1)
    if level in ("l1+1", "l1+2"):
        idx = l1 + int(level[-1])
        return from_l1(const, idx) if idx <= 31 else None
    if level == "l1@31":
        return from_l1(const, 31)
    l0_seed = const if level == "l0" else gkdi.kdf(hash_name, const, K, ctx(rkid, l0, -1, -1), 64)
    return from_l1(gkdi.kdf(hash_name, l0_seed, K, ctx(rkid, l0, 31, -1) + sd, 64), 31)


def run_forge2(case) -> dict:
    """["forge2", base blob index, level, const, position, history]: a party holding no key rewrites the stored record: key identifier
    position changed, CEK of its choice wrapped under the KEK that follows if one key of the chain were a public constant (empty /
    zeros), own content appended.  Presented to a cache that holds the root key, possibly after honest use.  Must be rejected."""
    from cryptography.hazmat.primitives import keywrap
    from cryptography.hazmat.primitives.ciphers.aead import AESGCM

    from ref import cms, dtyp, gkdi

    _, bi, li, ci, pi, hi = case
    cat = blobs.catalogue(next(iter(blobs._CAT)))
    b = cat[bi]
    p = cms.parse_blob(b.blob)
    kid = dict(p["key_identifier"])
    a, c = kid["l1"], kid["l2"]
    pos = {"same": (a, c), "l2=31": (a, 31), "l1-1,l2=31": (a - 1, 31), "l1-1": (a - 1, c), "l1-2,l2=5": (a - 2, 5), "0,0": (0, 0), "l2-1": (a, c - 1),
           "31,31": (31, 31), "l1+1,l2=0": (a + 1, 0)}[GUESS_POSITIONS[pi]]
    kid.update(l1=pos[0], l2=pos[1], flags=kid["flags"] & ~1, key_info=b"\x5a" * 32)
    l2_key = _guessed_l2(b.rk.hash_name, b.rk.root_key_id, dtyp.target_sd(p["sid"]), kid["l0"], pos[0], pos[1], GUESS_LEVELS[li], GUESS_CONSTS[ci])
    if l2_key is None:
        return {"viol": None, "digest": "n/a", "key": None, "fired": {}, "probes": {}, "vtime_ns": 0}
    kek = gkdi.kek_nonce(b.rk.hash_name, l2_key, kid["key_info"])
    cek, nonce, chosen = b"\x42" * 32, b"\x07" * 12, b"chosen by whoever can write the record"
    forged = cms.build_blob(gkdi.pack_key_identifier(kid), p["sid"], keywrap.aes_key_wrap(kek, cek), nonce, AESGCM(cek).encrypt(nonce, chosen, None),
                            in_envelope="/env" in b.name)
    hist = GUESS_HISTORIES[hi]
    # (honest earlier use: a nonce-mode record of the same root key, SID and position, then possibly a second time)
    out, world, cnt = blobs.unprotect_stored(b, forged, valid_first=[b.blob] * {"none": 0, "valid-first": 1, "valid-first-twice": 2}[hist], then_valid=True)
    viol = None
    probes = {"keyless_rewrites": 1, "keyless_rewrites_after_honest_use": int(hist != "none")}
    if out.kind == "ok" and out.value != b.plaintext:
        viol = common.violation("C04", "different-plaintext", "sync", "forged-public-constant-key", GUESS_LEVELS[li], hist,
                                f"record {b.name} rewritten at rest (position {pos}, CEK wrapped under the KEK that follows from {GUESS_LEVELS[li]} key = "
                                f"{len(GUESS_CONSTS[ci])} constant bytes) decrypted to {out.value[:40]!r}: a party holding no key chose the plaintext")
    elif out.kind == "ok":
        probes["outcome_same"] = 1
    else:
        probes["outcome_" + out.kind] = 1
    after = cnt.get("after")
    if after is not None and (after.kind != "ok" or after.value != b.plaintext):
        # (not this property's business - the claim is about what a changed record decrypts to - but worth seeing in the evidence)
        probes["undamaged_record_fails_after_rewritten_one"] = 1
    return {"viol": viol, "digest": out.brief(), "key": common.key_hash(case), "fired": {"field": 4}, "probes": probes, "vtime_ns": 0}


def run_shorttag(case) -> dict:
    """["shorttag", base blob index, n]: the GCM parameters of the stored record are rewritten to announce an n-octet tag (aes-ICVlen,
    RFC 5084) and the content is replaced by a ciphertext of the writer's choice carrying the first n octets of its tag.  (Finding
    such a record without the CEK takes 2^(8n) trials; the check builds it with the CEK the reference recovers - the claim is over
    every changed record.)  It must fail or give the original plaintext."""
    from cryptography.hazmat.primitives.ciphers.aead import AESGCM

    from ref import cms, der

    _, bi, n = case
    cat = blobs.catalogue(next(iter(blobs._CAT)))
    b = cat[bi]
    p = cms.parse_blob(b.blob)
    _pt, cek, _kek = cms.unprotect_parsed(p, b.rk)
    chosen = b"another secret, same length?"[: max(1, len(b.plaintext))] if n % 2 else b"chosen by whoever can write the record"
    full = AESGCM(cek).encrypt(p["gcm_nonce"], chosen, None)
    content = full[: len(chosen)] + full[len(chosen) : len(chosen) + n]
    cea = der.seq(der.enc_oid(cms.OID_AES256_GCM), der.seq(der.octets(p["gcm_nonce"]), der.enc_int(n)))
    forged = cms.build_blob(p["key_identifier_raw"], p["sid"], p["enc_cek"], p["gcm_nonce"], content, in_envelope="/env" in b.name, cea_raw=cea)
    out, world, cnt = blobs.unprotect_stored(b, forged)
    viol = None
    probes = {"short_tag_records": 1}
    if out.kind == "ok" and out.value != b.plaintext:
        viol = common.violation("C04", "different-plaintext", "sync", "gcm-tag-length-rewritten", "", str(n),
                                f"record {b.name}: GCM parameters rewritten to a {n}-octet tag, content replaced (ciphertext + first {n} tag octets): "
                                f"decrypted to {out.value[:40]!r} instead of failing")
    elif out.kind == "ok":
        probes["outcome_same"] = 1
    else:
        probes["outcome_" + out.kind] = 1
    return {"viol": viol, "digest": out.brief(), "key": common.key_hash(case), "fired": {"field": 2}, "probes": probes, "vtime_ns": 0}


def run_libpair(case) -> dict:
    """["libpair", seed, fields, fl]: two blobs A and B are PROTECTED BY THE LIBRARY in one process (same root key, same SID); the stored A
    is then altered at rest by overwriting some of its fields with B's (content, GCM nonce, wrapped CEK, key identifier ...).  The
    altered record must fail or give A's plaintext - never B's or anything else."""
    from checks import offline, plan as P
    from ref import gkdi

    _, seed, fields, fl = case[:4]
    grp = 1 if fl == "thread" else None  # "thread": the two protects are made by caller threads of one process at the same time
    two_sids = seed % 4 == 2  # B belongs to ANOTHER principal (other security descriptor, hence another key chain) than A
    if {"enc_content", "gcm_nonce", "enc_cek", "key_identifier"} <= set(fields) and not two_sids:
        # with every key-relevant field taken from B and the same protection descriptor, the "altered A" simply IS record B (its
        # original plaintext is B's): not an alteration in the sense of the property; only meaningful when the descriptors differ
        return {"viol": None, "digest": "same-record", "key": None, "fired": {}, "probes": {"noop_fault": 1}, "vtime_ns": 0}
    sid_b = offline.SID_B if two_sids else offline.SID_A
    ops = [{"op": "load_key", "rk": 0},
           {"op": "protect", "fl": fl, "group": grp, "sid": offline.SID_A, "rk": 0, "net": "offline", "data": 24},
           {"op": "protect", "fl": fl, "group": grp, "sid": sid_b, "rk": 0, "net": "offline", "data": 24},
           {"op": "unprotect", "fl": "sync" if fl == "thread" else fl, "net": "offline", "blob": {"from_op": 1, "graft": {"from_op": 2, "fields": list(fields)}}},
           {"op": "unprotect", "fl": "sync" if fl == "thread" else fl, "net": "offline", "blob": {"from_op": 1}}]
    if two_sids and fl == "thread":
        # the altered record and B itself are opened by two caller threads at the same time (the two protects one after the other)
        ops[1], ops[2] = dict(ops[1], fl="sync", group=None), dict(ops[2], fl="sync", group=None)
        ops[3] = dict(ops[3], fl="thread", group=2)
        ops.insert(4, {"op": "unprotect", "fl": "thread", "group": 2, "net": "offline", "blob": {"from_op": 2}})
    b_first = seed % 3 == 1 or (two_sids and fl != "thread")
    if b_first:
        # honest earlier use of the same cache: B itself (and, every other time, A too) was opened before the altered record arrives
        ops.insert(3, {"op": "unprotect", "fl": "sync" if fl == "thread" else fl, "net": "offline", "blob": {"from_op": 2}})
        if seed % 2:
            ops.insert(3, {"op": "unprotect", "fl": "sync" if fl == "thread" else fl, "net": "offline", "blob": {"from_op": 1}})
    plan = {"seed": seed, "clock_ft": gkdi.interval_start_filetime(365, 3, 4) + seed, "root_keys": [[5, "SHA256", ("DH", "ECDH_P256")[seed % 2]]],
            "caller_sids": [offline.SID_A], "ctx": {"kind": "stub", "legs": 2, "sig": 16}, "ops": ops}
    if fl == "thread":
        plan["threads"] = case[4]
    tr = P.execute_plan(plan)
    a, b_, plain = tr.ops[1], tr.ops[2], tr.ops[-1]
    crossed = next(ot for ot in tr.ops if ot.op["op"] == "unprotect" and ot.op["blob"].get("graft"))
    viol = None
    probes = {"library_made_pairs": 1, "library_made_pairs_two_principals": int(two_sids), "library_made_pairs_threads": int(fl == "thread"), "library_made_pairs_after_honest_use": int(b_first)}
    if a.outcome.kind != "ok" or b_.outcome.kind != "ok" or plain.outcome.kind != "ok" or plain.outcome.value != a.plaintext:
        # the library cannot open its own untouched record here: round trips are C01's subject, there is nothing for C04 to judge
        return {"viol": None, "digest": tr.world.digest(), "key": None, "fired": {}, "probes": {"library_made_pair_does_not_round_trip": 1}, "vtime_ns": 0}
    out = crossed.outcome
    if out.kind == "ok" and out.value != a.plaintext:
        whose = "the plaintext of blob B" if out.value == b_.plaintext else "other bytes"
        viol = common.violation("C04", "different-plaintext", "library-made-pair", "+".join(fields), "", "",
                                f"blob A with {fields} taken from blob B (both protected by the library in this process) decrypted to {whose}")
    elif out.kind == "ok":
        probes["outcome_same"] = 1
    else:
        probes["outcome_" + out.kind] = 1
    return {"viol": viol, "digest": tr.world.digest(), "key": common.key_hash(case), "fired": {"field": len(fields)}, "probes": probes, "vtime_ns": 0}


def run_concurrent(case) -> dict:
    """["conc", seed, net, cross]: blob A (valid) and blob B' (blob B modified at rest) are unprotected by two overlapping async
    calls on one loop.  B' must fail or give B's plaintext - never anything else, in particular not A's."""
    from checks import offline, plan as P
    from ref import cms, gkdi
    import random as _r

    family, seed, net, cross = case[:4]
    rng = _r.Random(seed)
    pos = [361 + seed % 3, rng.randrange(32), rng.randrange(32)]
    specA = {"rk": 0, "sid": offline.SID_A, "pos": pos, "mode": "nonce", "data": 20, "salt": 1000 + seed}
    specB = {"rk": 0, "sid": offline.SID_A, "pos": pos, "mode": "nonce", "data": 20, "salt": 2000 + seed}
    rks = [offline.synth_root_key(5, "SHA256", "DH")]
    blobA, ptA = P.make_blob(specA, rks, 0)
    blobB, ptB = P.make_blob(specB, rks, 0)
    pa = cms.parse_blob(blobA)
    if cross == "key_info":      # B with A's key identifier nonce
        faults = [["field", "kid.key_info", pa["key_identifier"]["key_info"].hex()]]
    elif cross == "key_identifier":  # B with A's whole key identifier
        faults = [["field", "key_identifier", pa["key_identifier_raw"].hex()]]
    elif cross == "enc_cek":
        faults = [["field", "enc_cek", pa["enc_cek"].hex()]]
    elif cross == "flip":
        n = len(blobB)
        faults = [["flip", rng.randrange(n * 8)]]
    else:  # A's envelope with B's content
        faults = [["field", "enc_content", pa["enc_content"].hex()]] if cross == "content" else [["flip", 8 * (len(blobB) - 1)]]
    specBm = dict(specB, faults=faults)
    order = rng.random() < 0.5
    if family == "hist":
        # one shared cache, one call after the other: B' (rejected), A, B' again, A again, B' once more - in either flavour
        fls = [rng.choice(("sync", "async")) for _ in range(5)]
        ops = [{"op": "unprotect", "fl": fls[k], "net": net, "blob": (specBm, specA)[k % 2], "group": None} for k in range(5)]
        if order:
            ops = ops[1:]
    elif family == "tconc":
        # caller threads of one process (sync API): the valid blob twice and the modified one, all at once
        ops = [{"op": "unprotect", "fl": "thread", "net": net, "blob": b_, "group": 1} for b_ in ((specA, specBm, specA), (specBm, specA), (specBm, specA, specBm), (specA, specBm, specBm), (specBm, specA, specA))[rng.randrange(5)]]
    else:
        ops = [{"op": "unprotect", "fl": "async", "net": net, "blob": specA, "group": 1}, {"op": "unprotect", "fl": "async", "net": net, "blob": specBm, "group": 1}]
        if order:
            ops.reverse()
    plan = {"seed": seed, "clock_ft": gkdi.interval_start_filetime(365, 0, 0), "root_keys": [[5, "SHA256", "DH"]], "caller_sids": [offline.SID_A],
            "ctx": {"kind": "stub", "legs": 2, "sig": 16}, "latency_us": [1, rng.choice((50, 3000))],
            "ops": ([{"op": "load_key", "rk": 0}] if net == "offline" else []) + ops}
    if family == "tconc":
        plan["threads"] = case[4]
    tr = P.execute_plan(plan)
    viol = None
    probes = {"concurrent_pairs": 1} if family == "conc" else ({"shared_cache_histories": 1} if family == "hist" else {"thread_pairs": 1, "thread_overlap": tr.world.stats.get("toverlap", 0)})
    how = {"conc": "async-concurrent", "hist": "history", "tconc": "thread-concurrent"}[family]
    for ot in tr.ops:
        if ot.op["op"] != "unprotect":
            continue
        out = ot.outcome
        if not ot.op["blob"].get("faults"):
            if family in ("hist", "tconc") and (out.kind != "ok" or out.value != ptA):
                viol = viol or common.violation("C04", "valid-blob-after-rejected-one", how, out.kind if out.kind != "ok" else "other-bytes", "", "",
                                                f"the valid blob A, unprotected {'on the cache that saw the modified blob before' if family == 'hist' else 'while another thread unprotects the modified blob'}, gave {out.brief()} {out.exc!r}")
            continue
        if out.kind == "ok" and out.value != ptB:
            whose = "the plaintext of the OTHER blob" if out.value == ptA else "other bytes"
            viol = common.violation("C04", "different-plaintext", how, cross, "", "",
                                    f"modified blob B' ({faults[0][:2]}) unprotected {'concurrently with' if family == 'conc' else 'on the same cache as'} valid blob A returned {whose} ({out.value[:12]!r}) instead of failing / B's plaintext")
        elif out.kind == "ok":
            probes["outcome_same"] = 1
        else:
            probes["outcome_" + out.kind] = 1
    return {"viol": viol, "digest": tr.world.digest(), "key": common.key_hash(case), "fired": {"concurrent": 1, "field": 1}, "probes": probes,
            "vtime_ns": tr.world.stats.get("vtime_ns", 0)}


class C04(common.Check):
    id = "C04"
    level = "fault_enumeration"
    rule = ("case = (base blob, fault list). Base blobs: 4 hashes x {nonce, DH, P256, P384} in both layouts from the reference encoder plus "
            "library-made nonce-mode blobs, plaintext lengths 0/1/16/100. Faults: every single-bit flip and every truncation length of "
            "the enumerated base blobs (all of them in thorough, a rotating subset in quick), PRNG byte substitution / insertion / deletion, "
            "2-4 site corruption and field-targeted overwrites (lengths, OIDs, nonce, wrapped CEK, key-identifier fields, ciphertext, tag) "
            "located with ref.cms' offset map; algorithm substitution (content-encryption OID rewritten to every AES mode of the NIST arc x "
            "parameter shapes x content cut to blocks, all 256 last IV bytes for the CBC OIDs); flips/truncations of blobs with > 1 MiB content; pairs of overlapping async unprotects (valid blob A, modified blob B' carrying A's key "
            "identifier / nonce / wrapped CEK / content) on one simulated loop, online and offline; the same pairs from caller threads of one process (deterministic thread scheduler) and as histories on one shared "
            "cache (B' rejected, A, B' again, A, B'); records rewritten at rest into public-key records whose DH public value (0, 1, p-1, or a group of the writer's choosing, also under elliptic-curve root keys) makes the shared secret predictable; records rewritten by a keyless party (other key position, own CEK wrapped under the KEK that follows if the L2 / L1 / L0 / root key at some level of the chain were empty or zeros, own content) presented to a cache holding the root key, fresh or after honest use of the same cache; records whose GCM parameters announce a 0..15-octet tag with a content carrying a tag of that length; pairs of blobs protected by the library in one process with fields of one grafted onto the other (in a third of them after B, or A and B, were opened on the same cache; in a quarter B belongs to another principal and is opened first or, by a second caller thread, at the same time); every flip / truncation of blobs whose plaintext is itself a blob (a secret protected twice). Non-trivial = stored bytes differ from the base blob; distinct = distinct (blob, faults).")
    components = {"client": "real (ncrypt_unprotect_secret, DPAPINGBlob.unpack, KeyCache, key derivation, AES-KW/GCM via cryptography)",
                  "blob store": "simulated (fault injection at rest)", "network": "simulated, no DC reachable (attempts observed at the seam)",
                  "base blobs": "reference encoder (ref.cms) and the library's own protect"}
    assumptions = ["AES-KW and AES-GCM from the cryptography package are trusted primitives"]
    required_fired = ("rot", "tear", "algsub", "big_content", "concurrent_pairs", "outcome_raise", "outcome_same", "shared_cache_histories", "nested_plaintext", "thread_pairs", "thread_overlap", "library_made_pairs", "library_made_pairs_threads", "forged_records", "keyless_rewrites", "keyless_rewrites_after_honest_use", "short_tag_records", "library_made_pairs_after_honest_use", "library_made_pairs_two_principals")

    def exhaustive(self, tier):
        return tier == "thorough"

    exhaustive_note = "thorough: every single-bit flip and every truncation of all 40 base blobs; quick: of a rotating subset"

    def cases(self, tier, seed):
        cat = blobs.catalogue(tier)
        out = []
        rng = prng.stream(seed, "C04")
        # quick: a fixed spread (nonce env, P256 trailing, P384 trailing, SHA512 nonce trailing, library-made env and trailing), rotated by the seed
        full = range(len(cat)) if tier == "thorough" else [(i + 8 * (seed % 4)) % 32 if i < 32 else i for i in (0, 5, 7, 25, 32, 39)]
        for bi in full:
            n = len(cat[bi].blob)
            for bit in range(n * 8):
                out.append([bi, [["flip", bit]]])
            for k in range(n):
                out.append([bi, [["trunc", k]]])
        n_rand = 12000 if tier == "quick" else 300000
        for _ in range(n_rand):
            bi = rng.randrange(len(cat))
            b = cat[bi]
            n = len(b.blob)
            r = rng.random()
            if r < 0.2:
                f = [["subst", rng.randrange(n), rng.randrange(256)]]
            elif r < 0.3:
                f = [["ins", rng.randrange(n + 1), rng.randrange(256)]]
            elif r < 0.4:
                f = [["del", rng.randrange(n)]]
            elif r < 0.6:
                f = [rng.choice((["flip", rng.randrange(n * 8)], ["subst", rng.randrange(n), rng.randrange(256)])) for _ in range(rng.randint(2, 4))]
            elif r < 0.7:
                f = [["flip", rng.randrange(n * 8)]]
            else:
                name = rng.choice(sorted(b.offsets))
                s, e = b.offsets[name]
                ln = e - s
                choice = rng.random()
                if choice < 0.4:
                    val = bytes(rng.randrange(256) for _ in range(ln))
                elif choice < 0.6:
                    val = b"\x00" * ln
                elif choice < 0.8:
                    val = b"\xff" * ln
                else:
                    val = bytes(rng.randrange(256) for _ in range(max(0, ln + rng.choice((-1, 1)))))
                f = [["field", name, val.hex()]]
            out.append([bi, f])
        # algorithm substitution (multi-site, field-aware): every AES mode of the NIST arc x parameter shapes x content cut to blocks;
        # for the CBC OIDs every last IV byte (a padding oracle needs 1 of 256)
        AES_ARCS = list(range(1, 9)) + list(range(21, 29)) + list(range(41, 49))
        for bi in (0, 1, len(cat) - 2, len(cat) - 1) if tier == "quick" else range(0, len(cat), 3):
            for arc in AES_ARCS:
                for pk in ("iv16", "iv12", "gcm", "null", "absent"):
                    for cl in (16, 32, -1):
                        if arc == 46 and pk == "gcm" and cl == -1:
                            continue
                        out.append([bi, [["algsub", arc, pk, cl, 0]]])
            for arc in (2, 22, 42):
                for ivb in range(256):
                    out.append([bi, [["algsub", arc, "iv16", 16, ivb]]])
        # content larger than 1 MiB: flips / truncations in the big ciphertext and its tag
        nb = len(cat)
        for k, b in enumerate(blobs.big_blobs()):
            n = len(b.blob)
            s_, e_ = b.offsets["enc_content"]
            pts = [s_, s_ + 1, s_ + 65535, s_ + 65536, s_ + 65537, (s_ + e_) // 2, e_ - 17, e_ - 16, e_ - 1] + [rng.randrange(s_, e_) for _ in range(12 if tier == "quick" else 200)]
            for off in pts:
                out.append([nb + k, [["flip", off * 8 + rng.randrange(8)]]])
            for cut in (e_ - 1, e_ - 16, e_ - 17, s_ + 1024 * 1024, s_ + 65536):
                out.append([nb + k, [["trunc", cut]]])
        # a secret that was protected twice: the plaintext is itself a blob; every single-bit flip and truncation of the outer blob
        nn = nb + len(blobs.big_blobs())
        for k, b in enumerate(blobs.nested_blobs()):
            n = len(b.blob)
            for bit in range(n * 8):
                out.append([nn + k, [["flip", bit]]])
            for cut in range(0, n, 3 if tier == "quick" else 1):
                out.append([nn + k, [["trunc", cut]]])
        # histories on one shared cache: a modified blob is rejected, a valid one is unprotected, the modified one comes back
        for i in range(300 if tier == "quick" else 12000):
            out.append(["hist", i, ("online", "offline")[i % 2], ("key_info", "key_identifier", "enc_cek", "content", "flip", "tagflip")[i % 6]])
        # records rewritten into public-key mode with a DH public value that makes the shared secret predictable (DH root keys)
        # (also for ECDH root keys: the record then claims a finite-field key although the group key is an elliptic-curve one)
        for bi, b in enumerate(cat):
            if (b.rk.secret_alg == "DH" and (tier == "thorough" or bi % 3 == 0)) or (b.rk.secret_alg != "DH" and (tier == "thorough" or bi % 4 == 1)):
                for v in range(len(FORGE_VARIANTS)):
                    out.append(["forge", bi, v])
        # records rewritten by a keyless party under a KEK that follows from a public constant somewhere in the chain
        nonce_blobs = [bi for bi, b in enumerate(cat) if "/nonce/" in b.name]
        combos = [(li, ci, pi, hi) for li in range(len(GUESS_LEVELS)) for ci in range(len(GUESS_CONSTS)) for pi in range(len(GUESS_POSITIONS)) for hi in range(len(GUESS_HISTORIES))]
        for n, (li, ci, pi, hi) in enumerate(combos):
            if tier == "thorough":
                for bi in nonce_blobs:
                    out.append(["forge2", bi, li, ci, pi, hi])
            elif ci == 0 or n % 3 == 0:
                out.append(["forge2", nonce_blobs[n % len(nonce_blobs)], li, ci, pi, hi])
        # GCM tag length rewritten (aes-ICVlen) together with a content that carries a tag of that length
        for bi in range(len(cat)):
            if tier == "thorough" or bi % 4 == 0:
                for n in (0, 1, 4, 8, 12, 13, 15):
                    out.append(["shorttag", bi, n])
        # blobs protected by the library itself in one process, fields of one grafted onto the other
        GRAFTS = (["enc_content"], ["enc_content", "gcm_nonce"], ["enc_content", "gcm_nonce", "enc_cek", "key_identifier"], ["gcm_nonce"], ["enc_cek"], ["enc_cek", "key_identifier"], ["key_identifier"], ["kid.key_info"],
                  ["enc_content", "gcm_nonce", "enc_cek"], ["enc_content", "gcm_nonce", "kid.key_info"])
        for i in range(len(GRAFTS) * (8 if tier == "quick" else 200)):
            out.append(["libpair", i, GRAFTS[i % len(GRAFTS)], ("sync", "async")[(i // len(GRAFTS)) % 2]])
        from checks import threadpure

        for i in range(len(GRAFTS) * (14 if tier == "quick" else 300)):
            out.append(["libpair", 5000 + i, GRAFTS[i % len(GRAFTS)], "thread",
                        {"mode": "marks", "q": (0.7, 0.9, 1.0)[i % 3], "p": (0.0, 0.02)[(i // 3) % 2]} if i % 2 else {"mode": "prob", "p": (0.02, 0.1, 0.4)[(i // 2) % 3]}])
        # ... two principals: the altered record (A's descriptor, everything key-relevant from B) and B itself opened by two threads at once
        for i in range(320 if tier == "quick" else 8000):
            out.append(["libpair", 6002 + 4 * i, ["enc_content", "gcm_nonce", "enc_cek", "key_identifier"], "thread",
                        {"mode": "marks", "q": (0.3, 0.5, 0.7, 0.9, 1.0)[i % 5], "p": (0.0, 0.02, 0.1)[(i // 5) % 3]} if i % 4 else {"mode": "prob", "p": (0.02, 0.1, 0.4)[(i // 4) % 3]}])
        for i in range(480 if tier == "quick" else 12000):
            out.append(["tconc", i, ("online", "offline", "offline")[i % 3], ("tagflip", "content", "key_info", "tagflip", "content", "enc_cek", "flip", "key_identifier")[(i // 3) % 8],
                        {"mode": "marks", "q": (0.3, 0.5, 0.7, 0.9, 1.0)[(i // 2) % 5], "p": (0.0, 0.01)[(i // 10) % 2]} if i % 2 else ({"mode": "prob", "p": (0.05, 0.3, 0.5)[(i // 4) % 3]} if i % 4 else threadpure.policy_for(i // 4))])
        # two overlapping async unprotects on one loop: a valid blob and a modified one that borrows parts of the valid one
        for i in range(400 if tier == "quick" else 20000):
            out.append(["conc", i, ("online", "offline")[i % 2], ("key_info", "key_identifier", "enc_cek", "content", "flip", "tagflip")[i % 6]])
        return out

    def run_case(self, case):
        if case[0] == "forge":
            return run_forge(case)
        if case[0] == "forge2":
            return run_forge2(case)
        if case[0] == "shorttag":
            return run_shorttag(case)
        if case[0] == "libpair":
            return run_libpair(case)
        if case[0] in ("conc", "hist", "tconc"):
            return run_concurrent(case)
        bi, faults = case
        cat = blobs.catalogue(next(iter(blobs._CAT)))
        b = cat[bi] if bi < len(cat) else blobs.extra_blobs()[bi - len(cat)]
        stored = blobstore.apply_faults(b.blob, faults, b.offsets)
        fired = {}
        for f in faults:
            k = {"flip": "rot", "trunc": "tear", "subst": "rot", "ins": "ins", "del": "del", "field": "field", "algsub": "algsub"}[f[0]]
            fired[k] = fired.get(k, 0) + 1
        if len(b.blob) > 1024 * 1024:
            fired["big_content"] = 1
        if "/nested/" in b.name:
            fired["nested_plaintext"] = 1
        if stored == b.blob:
            return {"viol": None, "digest": "same", "key": None, "fired": fired, "probes": {"noop_fault": 1}, "vtime_ns": 0}
        out, world, cnt = blobs.unprotect_stored(b, stored)
        viol = None
        probes = {}
        if out.kind == "ok":
            if out.value == b.plaintext:
                probes["outcome_same"] = 1
            else:
                where = faults[0][1] if faults[0][0] == "field" else faults[0][0]
                viol = common.violation("C04", "different-plaintext", "sync", str(where), "", "",
                                        f"blob {b.name} with faults {faults} decrypted to {out.value[:32]!r} instead of {b.plaintext[:32]!r}")
        elif out.kind == "needs-network":
            probes["outcome_needs_network"] = 1
        else:
            probes["outcome_" + out.kind] = 1
        return {"viol": viol, "digest": out.brief(), "key": common.key_hash(case), "fired": fired, "probes": probes, "vtime_ns": 0}

    def setup(self, tier, seed):
        blobs.catalogue(tier)
        blobs.extra_blobs()

    def shrink(self, case):
        if case[0] == "forge2":
            if case[5]:
                yield case[:5] + [case[5] - 1]  # less history
            return
        if case[0] in ("conc", "hist", "tconc", "libpair", "forge", "shorttag"):
            return
        bi, faults = case
        for i in range(len(faults)):
            if len(faults) > 1:
                yield [bi, faults[:i] + faults[i + 1 :]]

    def sample_repr(self, case, res):
        if case[0] == "forge":
            return {"kind": "forge", "base_blob": case[1], "dh_public_value": FORGE_VARIANTS[case[2]]}
        if case[0] == "shorttag":
            return {"kind": "shorttag", "base_blob": case[1], "announced_tag_octets": case[2]}
        if case[0] == "forge2":
            return {"kind": "forge2", "base_blob": case[1], "level": GUESS_LEVELS[case[2]], "constant_len": len(GUESS_CONSTS[case[3]]), "position": GUESS_POSITIONS[case[4]], "history": GUESS_HISTORIES[case[5]]}
        if case[0] == "libpair":
            return dict(zip(("kind", "seed", "fields_taken_from_the_other_blob", "flavour", "thread_policy"), case))
        if case[0] in ("conc", "hist", "tconc"):
            return dict(zip(("kind", "seed", "net", "what_of_A_is_grafted_into_B"), case))
        cat = blobs.catalogue(next(iter(blobs._CAT)))
        b = cat[case[0]] if case[0] < len(cat) else blobs.extra_blobs()[case[0] - len(cat)]
        return {"blob": b.name, "faults": case[1]}


CHECK = C04()
