"""C04 - a modified blob never decrypts to different plaintext.

Storage faults (bit rot, torn / truncated records, byte substitution, insertion,
deletion, multi-site and field-targeted corruption) are injected into the blob
at rest between protect and unprotect; the world holds the correct key
material offline and has no reachable DC.
"""
from __future__ import annotations

import typing as t

from checks import blobs, common, drive
from simworld import blobstore, prng


class C04(common.Check):
    id = "C04"
    level = "fault_enumeration"
    rule = ("case = (base blob, fault list). Base blobs: 4 hashes x {nonce, DH, P256, P384} in both layouts from the reference encoder plus "
            "library-made nonce-mode blobs, plaintext lengths 0/1/16/100. Faults: every single-bit flip and every truncation length of "
            "the enumerated base blobs (all of them in thorough, a rotating subset in quick), PRNG byte substitution / insertion / deletion, "
            "2-4 site corruption and field-targeted overwrites (lengths, OIDs, nonce, wrapped CEK, key-identifier fields, ciphertext, tag) "
            "located with ref.cms' offset map. Non-trivial = stored bytes differ from the base blob; distinct = distinct (blob, faults).")
    components = {"client": "real (ncrypt_unprotect_secret, DPAPINGBlob.unpack, KeyCache, key derivation, AES-KW/GCM via cryptography)",
                  "blob store": "simulated (fault injection at rest)", "network": "simulated, no DC reachable (attempts observed at the seam)",
                  "base blobs": "reference encoder (ref.cms) and the library's own protect"}
    assumptions = ["AES-KW and AES-GCM from the cryptography package are trusted primitives"]
    required_fired = ("rot", "tear", "outcome_raise", "outcome_same")

    def exhaustive(self, tier):
        return tier == "thorough"

    exhaustive_note = "thorough: every single-bit flip and every truncation of all 40 base blobs; quick: of a rotating subset"

    def cases(self, tier, seed):
        cat = blobs.catalogue(tier)
        out = []
        rng = prng.stream(seed, "C04")
        full = range(len(cat)) if tier == "thorough" else [i for i in range(len(cat)) if i % 5 == (seed % 5)]
        for bi in full:
            n = len(cat[bi].blob)
            for bit in range(n * 8):
                out.append([bi, [["flip", bit]]])
            for k in range(n):
                out.append([bi, [["trunc", k]]])
        n_rand = 12000 if tier == "quick" else 300000
        for _ in range(n_rand):
            bi = rng.randrange(len(cat))
            b = cat[bi]
            n = len(b.blob)
            r = rng.random()
            if r < 0.2:
                f = [["subst", rng.randrange(n), rng.randrange(256)]]
            elif r < 0.3:
                f = [["ins", rng.randrange(n + 1), rng.randrange(256)]]
            elif r < 0.4:
                f = [["del", rng.randrange(n)]]
            elif r < 0.6:
                f = [rng.choice((["flip", rng.randrange(n * 8)], ["subst", rng.randrange(n), rng.randrange(256)])) for _ in range(rng.randint(2, 4))]
            elif r < 0.7:
                f = [["flip", rng.randrange(n * 8)]]
            else:
                name = rng.choice(sorted(b.offsets))
                s, e = b.offsets[name]
                ln = e - s
                choice = rng.random()
                if choice < 0.4:
                    val = bytes(rng.randrange(256) for _ in range(ln))
                elif choice < 0.6:
                    val = b"\x00" * ln
                elif choice < 0.8:
                    val = b"\xff" * ln
                else:
                    val = bytes(rng.randrange(256) for _ in range(max(0, ln + rng.choice((-1, 1)))))
                f = [["field", name, val.hex()]]
            out.append([bi, f])
        return out

    def run_case(self, case):
        bi, faults = case
        b = blobs.catalogue("any" if "any" in blobs._CAT else next(iter(blobs._CAT)))[bi]
        stored = blobstore.apply_faults(b.blob, faults, b.offsets)
        fired = {}
        for f in faults:
            k = {"flip": "rot", "trunc": "tear", "subst": "rot", "ins": "ins", "del": "del", "field": "field"}[f[0]]
            fired[k] = fired.get(k, 0) + 1
        if stored == b.blob:
            return {"viol": None, "digest": "same", "key": None, "fired": fired, "probes": {"noop_fault": 1}, "vtime_ns": 0}
        out, world, cnt = blobs.unprotect_stored(b, stored)
        viol = None
        probes = {}
        if out.kind == "ok":
            if out.value == b.plaintext:
                probes["outcome_same"] = 1
            else:
                where = faults[0][1] if faults[0][0] == "field" else faults[0][0]
                viol = common.violation("C04", "different-plaintext", "sync", str(where), "", "",
                                        f"blob {b.name} with faults {faults} decrypted to {out.value[:32]!r} instead of {b.plaintext[:32]!r}")
        elif out.kind == "needs-network":
            probes["outcome_needs_network"] = 1
        else:
            probes["outcome_" + out.kind] = 1
        return {"viol": viol, "digest": out.brief(), "key": common.key_hash(case), "fired": fired, "probes": probes, "vtime_ns": 0}

    def setup(self, tier, seed):
        blobs.catalogue(tier)

    def shrink(self, case):
        bi, faults = case
        for i in range(len(faults)):
            if len(faults) > 1:
                yield [bi, faults[:i] + faults[i + 1 :]]

    def sample_repr(self, case, res):
        b = blobs.catalogue(next(iter(blobs._CAT)))[case[0]]
        return {"blob": b.name, "faults": case[1]}


CHECK = C04()
