"""Pure computations under caller threads: whatever a function of its arguments returns alone, it must return when other
threads of the process run library code at the same time (simworld.threads decides every pre-emption).  Shared by the
checks whose subject is a codec or a derivation function (C02, C03, C11, C12)."""
from __future__ import annotations

import hashlib
import random
import typing as t

from checks import common
from simworld import threads as simthreads


def policy_for(k: int, seams: bool = True) -> dict:
    if k % 4 == 3 and seams:  # pre-empt right after a seam of the world was crossed (socket, security context, entropy, clock), rarely elsewhere
        return {"mode": "marks", "q": (0.2, 0.5, 0.9)[(k // 4) % 3], "p": (0.0, 0.002)[(k // 12) % 2]}
    return {"mode": "prob", "p": (0.01, 0.1, 0.4)[k % 3]} if k % 2 else {"mode": "points", "n": 1 + k % 5, "horizon": (200, 2000)[(k // 2) % 2]}


def run(check_id: str, clause: str, case, jobs: t.Sequence[t.Sequence[t.Any]], job_fn: t.Callable[[t.Any], t.Any], seed: int, policy: dict,
        baseline_after: bool = False) -> dict:
    """baseline_after: compute the single-threaded reference values AFTER the threaded run, so that whatever the library sets up on
    first use (lazily built tables) is first touched by the threads."""
    from checks import plan as P

    if baseline_after:
        tsim = simthreads.ThreadSim(random.Random(seed ^ 0x7A1), P.SRC_PREFIX(), policy)
        try:
            res = tsim.run([(lambda js=js: [job_fn(j) for j in js]) for js in jobs])
        except simthreads.Wedged as e:
            raise common.HarnessError(str(e))
    try:
        with common.CpuBudget(20.0):  # (work outside the interpreter's line events - a regular expression that backtracks - ends here)
            alone = [[job_fn(j) for j in js] for js in jobs]
    except Exception as e:  # noqa: BLE001 - fails even with nothing else running
        return {"viol": common.violation(check_id, clause, "sequential", type(e).__name__, common.innermost_repo_frame(e), "",
                                         f"a computation on well-formed input failed with nothing else running: {e!r}; jobs={str(jobs)[:300]}"),
                "digest": "alone-failed", "key": None, "fired": {}, "probes": {"thread_cases": 1}, "vtime_ns": 0}
    if not baseline_after:
        tsim = simthreads.ThreadSim(random.Random(seed ^ 0x7A1), P.SRC_PREFIX(), policy)
        try:
            res = tsim.run([(lambda js=js: [job_fn(j) for j in js]) for js in jobs])
        except simthreads.Wedged as e:
            raise common.HarnessError(str(e))
    viol = None
    for ti, ((got, exc), want) in enumerate(zip(res, alone)):
        if exc is not None:
            viol = common.violation(check_id, clause, "threads", type(exc).__name__, common.innermost_repo_frame(exc) if isinstance(exc, Exception) else "", "",
                                    f"thread {ti}: a call that succeeds alone raised {exc!r} while other threads ran library code; jobs={str(jobs[ti])[:200]}")
            break
        bad = [j for j, a, b_ in zip(jobs[ti], got, want) if a != b_]
        if bad:
            viol = common.violation(check_id, clause, "threads", "result-depends-on-other-threads", str(bad[0][0]), "",
                                    f"thread {ti}: {str(bad[0])[:120]} gives another result when other threads run library code at the same time "
                                    f"({len(tsim.switches)} pre-emptions); schedule={tsim.script()['switches'][:6]}")
            break
    dig = hashlib.sha256(repr((res, tsim.switches)).encode()).hexdigest()
    return {"viol": viol, "digest": dig, "key": common.key_hash(case), "sched_key": common.key_hash(tsim.switches) if tsim.switches else None,
            "fired": {"thread_preemptions": len(tsim.switches)}, "probes": {"thread_cases": 1, "thread_overlap": tsim.overlap}, "vtime_ns": 0,
            "_script": tsim.script()}


def shrinks(case: list, pol_index: int, nthreads_index: t.Optional[int], rerun: t.Callable[[list], dict]) -> t.Iterable[list]:
    pol = case[pol_index]
    if pol.get("mode") != "script":
        sc = rerun(case).get("_script")
        if sc:
            yield case[:pol_index] + [sc] + case[pol_index + 1 :]
    else:
        sw = pol["switches"]
        if len(sw) > 2:
            yield case[:pol_index] + [dict(pol, switches=sw[: len(sw) // 2])] + case[pol_index + 1 :]
            yield case[:pol_index] + [dict(pol, switches=sw[len(sw) // 2 :])] + case[pol_index + 1 :]
        for k in range(min(len(sw), 40)):
            yield case[:pol_index] + [dict(pol, switches=sw[:k] + sw[k + 1 :])] + case[pol_index + 1 :]
    if nthreads_index is not None and case[nthreads_index] > 2:
        yield case[:nthreads_index] + [2] + case[nthreads_index + 1 :]
