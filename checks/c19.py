"""C19 - every encryption uses fresh CEK, nonce and key-identifier randomness.

Entropy is a simulated node in ledger mode (every draw unique and attributed
to the operation that made it), the clock is frozen and arguments are
identical, so entropy is the only thing that can make two outputs differ.
Histories mix offline (root key / cached seed) and online (seed reply,
public-key reply for DH / P256 / P384) protects, unprotects, cache reuse, both
flavours and concurrent async groups.
"""
from __future__ import annotations

import random
import typing as t

from checks import common, drive, offline, plan as P
from ref import cms, gkdi
from simworld import prng

SIDS = (offline.SID_A, offline.SID_B)


def judge(plan: dict, tr: P.Trace):
    probes: t.Dict[str, int] = {}
    seen: t.Dict[str, t.Dict[bytes, int]] = {"gcm-nonce": {}, "cek": {}, "key-info": {}, "ciphertext": {}}
    rk_by_id = {rk.root_key_id: rk for rk in tr.root_keys}
    n_ok = 0
    for ot in tr.ops:
        if ot.op["op"] != "protect":
            continue
        if ot.outcome.kind != "ok":
            probes["protect_failed_" + ot.outcome.brief()] = 1
            continue
        n_ok += 1
        try:
            p = cms.parse_blob(ot.outcome.value)
            rk = rk_by_id[p["key_identifier"]["root_key_id"]]
            pt, cek, kek = cms.unprotect_parsed(p, rk)
        except Exception as e:  # noqa: BLE001
            return common.violation("C19", "undecryptable", ot.op["fl"], type(e).__name__, "", "",
                                    f"blob from op {ot.idx} cannot be opened by the reference: {e!r}"), probes
        vals = {"gcm-nonce": p["gcm_nonce"], "cek": cek, "key-info": p["key_identifier"]["key_info"], "ciphertext": p["enc_content"]}
        mode = "pub" if p["key_identifier"]["flags"] & 1 else "nonce"
        probes["mode_" + mode] = 1
        drawn = {bytes.fromhex(d[3]) for d in ot.draws}
        # (a value counts as drawn when it is, or is a slice of, something the entropy source handed out during this operation)
        isin = lambda v: any(v in d_ for d_ in drawn)  # noqa: E731
        prov = isin(vals["gcm-nonce"]) and isin(vals["cek"]) and (mode == "pub" or isin(vals["key-info"]))
        probes["provenance_ok" if prov else "provenance_not_literal"] = probes.get("provenance_ok" if prov else "provenance_not_literal", 0) + 1
        for what, v in vals.items():
            if what == "ciphertext" and not ot.plaintext:
                continue  # empty plaintext: the ciphertext is only the tag, still must differ, but keep the rule simple
            prev = seen[what].get(v)
            if prev is not None:
                same_args = next((o.op.get("sid") for o in tr.ops if o.idx == prev), None) == ot.op.get("sid")
                return common.violation("C19", "reuse", ot.op["fl"], what, "", mode,
                                        f"{what} of protect op {ot.idx} equals that of op {prev} ({v.hex()[:24]}...); same args={same_args}; "
                                        f"concurrent={ot.op.get('group') is not None}; literal-provenance={prov}"), probes
            seen[what][v] = ot.idx
    probes["protects_ok"] = n_ok
    return None, probes


def run_long(case) -> dict:
    """{"kind": "long-run", "n": N, "seed": s}: the library's own generator of content-encryption key and GCM nonce is called N times
    in a row inside the world (entropy seam, no ledger): all keys and all nonces must be pairwise distinct.  A nonce that carries
    fewer than ~40 fresh bits repeats within a few hundred thousand calls with near certainty; 96 fresh bits never do."""
    from simworld import world as W

    world = W.World(case["seed"])
    world.entropy.keep_ledger = False
    viol = None
    probes = {"long_runs": 1}
    with world.installed():
        import dpapi_ng._crypto as dcrypto

        gen = getattr(dcrypto, "cek_generate", None)
        alg = getattr(getattr(dcrypto, "AlgorithmOID", None), "AES256_WRAP", None)
        if gen is None or alg is None:
            probes["long_run_generator_not_found"] = 1
        else:
            ceks, nonces = {}, {}
            for k in range(case["n"]):
                cek, nonce = gen(alg)
                for what, v, seen in (("cek", bytes(cek), ceks), ("gcm-nonce", bytes(nonce), nonces)):
                    if v in seen:
                        viol = common.violation("C19", "reuse", "long-run", what, "", "",
                                                f"{what} of generator call {k} equals that of call {seen[v]} ({v.hex()[:24]}...) in a run of {case['n']} calls")
                        break
                    seen[v] = k
                if viol:
                    break
            probes["long_run_calls"] = k + 1
        if viol is None and case.get("kek"):
            # the key-identifier nonce of nonce mode (one L2 key, i.e. one ~10 h interval, many protects): GroupKeyEnvelope.new_kek()
            import uuid as _uuid

            import dpapi_ng._gkdi as dg
            from ref import gkdi as rg

            env = dg.GroupKeyEnvelope(version=1, flags=2, l0=361, l1=3, l2=5, root_key_identifier=_uuid.UUID(int=case["seed"]), kdf_algorithm="SP800_108_CTR_HMAC",
                                      kdf_parameters=rg.pack_kdf_params("SHA256"), secret_algorithm="DH", secret_parameters=b"", private_key_length=512, public_key_length=2048,
                                      domain_name="domain.test", forest_name="domain.test", l1_key=b"\x11" * 64, l2_key=b"\x22" * 64)
            infos = {}
            for k in range(case["kek"]):
                _kek, kid = env.new_kek()
                v = bytes(kid.key_info)
                if v in infos:
                    viol = common.violation("C19", "reuse", "long-run", "key-info", "", "nonce",
                                            f"key identifier nonce of new_kek() call {k} equals that of call {infos[v]} ({v.hex()[:24]}...{v.hex()[-8:]}) in a run of {case['kek']} calls under one L2 key")
                    break
                infos[v] = k
            probes["long_run_key_identifier_nonces"] = 1
    return {"viol": viol, "digest": f"long:{case['n']}:{bool(viol)}", "key": common.key_hash(case), "fired": {"entropy_draws": world.entropy.counter}, "probes": probes, "vtime_ns": 0}


def gen_plan(rng, i: int, tier: str) -> dict:
    kind = rng.choice(("identical-offline", "identical-offline", "identical-online-seed", "identical-online-pub", "mixed", "mixed", "concurrent", "fork",
                       "alternating"))
    hash_name = rng.choice(offline.HASHES)
    secret = rng.choice(offline.SECRETS)
    rk = [i % 5, hash_name, secret]
    n = rng.choice((2, 2, 3, 4, 8, 16)) if tier == "quick" else rng.choice((2, 3, 4, 8, 16, 32, 64))
    plan = {"seed": rng.getrandbits(31), "clock_ft": 133_000_000_000_000_000 + rng.randrange(0, 10**16), "root_keys": [rk],
            "caller_sids": [offline.SID_A], "ctx": {"kind": "stub", "legs": 2, "sig": 16}, "ops": [], "kind": kind}
    data = rng.choice((0, 1, 16, 33))
    ops = plan["ops"]
    if kind == "identical-offline":
        ops.append({"op": "load_key", "rk": 0})
        fl = rng.choice(("sync", "async"))
        for _ in range(n):
            ops.append({"op": "protect", "fl": fl, "sid": offline.SID_A, "rk": 0, "net": "offline", "data": data, "same_data": True})
    elif kind == "alternating":
        # the key position changes back and forth within one process history: the clock steps between two intervals (and back),
        # and two root keys are used alternately; arguments are otherwise identical
        plan["root_keys"] = [rk, [(i + 1) % 5 + 5, hash_name, "DH"]]
        ops.append({"op": "load_key", "rk": 0})
        ops.append({"op": "load_key", "rk": 1})
        t0 = plan["clock_ft"]
        step = rng.choice((gkdi.B, 32 * gkdi.B, 1024 * gkdi.B))
        fl = rng.choice(("sync", "async"))
        for k in range(min(n, 10) + 2):
            if rng.random() < 0.6:
                ops.append({"op": "clock", "set_ft": t0 + (step if k % 2 else 0)})
            ops.append({"op": "protect", "fl": fl, "sid": offline.SID_A, "rk": k % 2 if rng.random() < 0.5 else 0, "net": "offline", "data": data, "same_data": True})
    elif kind == "fork":
        # one process protects, forks, and parent and child both keep protecting with identical arguments
        ops.append({"op": "load_key", "rk": 0})
        for _ in range(rng.randint(1, 2)):
            ops.append({"op": "protect", "fl": "sync", "sid": offline.SID_A, "rk": 0, "net": "offline", "data": data, "same_data": True})
        ops.append({"op": "fork"})
        for _ in range(rng.randint(1, 3)):
            ops.append({"op": "protect", "fl": "sync", "sid": offline.SID_A, "rk": 0, "net": "offline", "data": data, "same_data": True})
    elif kind == "identical-online-seed":
        fl = rng.choice(("sync", "async"))
        for _ in range(min(n, 8)):
            ops.append({"op": "protect", "fl": fl, "sid": offline.SID_A, "rk": rng.choice((0, None)), "net": "online", "data": data, "same_data": True})
    elif kind == "identical-online-pub" and i % 6 == 0:
        # ECDH_P521 with its 521-bit (not byte-aligned) private key: most protects fail with a range error on the current tree,
        # which is outside the claimed configurations; whatever succeeds must still use fresh ephemeral keys
        plan["root_keys"] = [[i % 5, hash_name, "ECDH_P521"]]
        plan["kind"] = "p521"
        for _ in range(40 if tier == "quick" else 300):
            ops.append({"op": "protect", "fl": "sync", "sid": offline.SID_B, "rk": None, "net": "online", "data": 4, "same_data": True})
    elif kind == "identical-online-pub":
        fl = rng.choice(("sync", "async"))
        variant = plan["seed"] % 4
        if variant == 1:
            # the application re-seeds Python's global PRNG with the same value before every call (test runners do)
            plan["kind"] = "app-reseed"
        elif variant == 2:
            # the DC's public-key reply carries an unusual PublicKeyLength field (0 / 8 / 2^32-1): the ephemeral key must not depend on it
            plan["dc"] = {"byz": {"envelope_override": {"public_key_length": (0, 8, 2**32 - 1)[(plan["seed"] // 4) % 3]}}}
            plan["kind"] = "pub-reply-odd-length-field"
        for _ in range(min(n, 6)):
            if variant == 1:
                ops.append({"op": "app_random_seed", "value": 4242})
            ops.append({"op": "protect", "fl": fl, "sid": offline.SID_B, "rk": None, "net": "online", "data": data, "same_data": True})
    elif kind == "identical-offline" and False:
        pass
    elif kind == "concurrent" and plan["seed"] % 3 == 1:
        # application code that mixes the two APIs inside asyncio tasks: each task ("chain") protects several times in a row, some of
        # the calls through the blocking API from inside the coroutine; one or two such tasks at once
        plan["kind"] = "task-chain"
        ops.append({"op": "load_key", "rk": 0})
        for c in range(1 + plan["seed"] % 2):
            for k in range(rng.randint(2, 5)):
                ops.append({"op": "protect", "fl": "async", "group": 1, "chain": c, "inner": "sync" if (k + c) % 2 else "async", "sid": offline.SID_A, "rk": 0,
                            "net": "offline", "data": data, "same_data": rng.random() < 0.5})
    elif kind == "concurrent":
        if rng.random() < 0.5:
            ops.append({"op": "load_key", "rk": 0})
        g = 1
        for _ in range(min(n, 8)):
            ops.append({"op": "protect", "fl": "async", "sid": rng.choice(SIDS), "rk": rng.choice((0, None)),
                        "net": "online", "data": data, "same_data": True, "group": g})
    else:
        if rng.random() < 0.6:
            ops.append({"op": "load_key", "rk": 0})
        for k in range(min(n, 10)):
            r = rng.random()
            prot = [j for j, o in enumerate(ops) if o["op"] == "protect"]
            if r < 0.25 and prot:
                ops.append({"op": "unprotect", "fl": rng.choice(("sync", "async")), "net": "online", "blob": {"from_op": rng.choice(prot)}})
            else:
                ops.append({"op": "protect", "fl": rng.choice(("sync", "async")), "sid": rng.choice(SIDS), "rk": rng.choice((0, None)),
                            "net": "online", "data": rng.choice((0, 5, 16)), "same_data": rng.random() < 0.7})
    if kind in ("mixed", "identical-offline") and plan["seed"] % 5 == 1:
        # a value that is protected again: the plaintext of the last protect is the blob an earlier protect (same SID) returned
        prot = [j for j, o in enumerate(ops) if o["op"] == "protect"]
        if prot:
            j = rng.choice(prot) if False else prot[plan["seed"] % len(prot)]
            ops.append(dict(ops[j], fl=rng.choice(("sync", "async")), group=None, data_from_op=j))
            ops.append(dict(ops[j], fl="sync", group=None, data_from_op=len(ops) - 1))
            plan["reprotect"] = True
    if plan["seed"] % 7 == 4 and kind in ("identical-offline", "mixed", "alternating"):
        # the entropy source itself fails from some point on (os.urandom raises): protect may fail, it must not make up "randomness"
        at = 1 + plan["seed"] % max(1, len(ops))
        ops.insert(min(at, len(ops)), {"op": "entropy_fault", "sources": ["urandom"] if plan["seed"] % 2 else ["urandom", "aesgcm.generate_key"]})
        for o in ops:  # (indices of later ops moved by one)
            if isinstance(o.get("blob"), dict) and "from_op" in o["blob"] and o["blob"]["from_op"] >= at:
                o["blob"]["from_op"] += 1
            if o.get("data_from_op") is not None and o["data_from_op"] >= at:
                o["data_from_op"] += 1
        plan["entropy_fault"] = True
    if plan["seed"] % 7 == 2:
        # the entropy device misbehaves for whoever opens it as a file (EOF in a chroot, short reads); os.urandom is unaffected
        plan["entropy_device"] = {"mode": ("eof", "short")[(plan["seed"] // 7) % 2], "max": (1, 5, 11)[(plan["seed"] // 14) % 3]}
    if kind in ("concurrent", "identical-offline", "identical-online-seed") and plan["seed"] % 3 == 0:
        # the same protects made by caller threads of one process (sync API, shared cache): simworld.threads decides every pre-emption
        r = random.Random(plan["seed"])
        for o in ops:
            if o["op"] == "protect" and o.get("data_from_op") is None:
                o["fl"], o["group"] = "thread", 1
        plan["threads"] = {"mode": "prob", "p": r.choice((0.005, 0.05, 0.3))} if r.random() < 0.5 else {"mode": "points", "n": r.choice((1, 2, 4)), "horizon": r.choice((300, 3000, 20000))}
        if r.random() < 0.3:
            plan["threads"] = {"mode": "marks", "q": r.choice((0.2, 0.5, 0.9)), "p": 0.0}
        plan["kind"] = "threads"
    return plan


class C19(common.Check):
    id = "C19"
    level = "exploration"
    rule = ("case = a history (plan) of 2..64 protect calls at a frozen simulated instant with a ledger entropy source: identical arguments "
            "offline (root key), identical online (seed reply / public-key reply for DH, P256, P384), mixed histories with interleaved "
            "unprotects and cache reuse, concurrent async groups sharing one cache (PRNG-scheduled), the same protects made by caller threads of one "
            "process through the sync API (pre-empted at PRNG-chosen line events inside dpapi_ng), and histories in which the process forks "
            "after a protect and parent and child both go on protecting, and histories whose key position alternates (clock stepping between two "
            "intervals and back, two root keys used in turn), histories in which the application re-seeds Python's global PRNG with the same value "
            "before every call, public-key replies whose PublicKeyLength field is 0 / 8 / 2^32-1, histories in which the blob an earlier protect returned is protected again, "
            "histories under a /dev/urandom that returns EOF or short reads to whoever opens it as a file, histories in which one or two asyncio tasks each protect several times in a row, alternating between the async API and the blocking API called from inside the coroutine, runs of 300 000 (thorough: 10^6) consecutive calls of the key / nonce generator and 250 000 of new_kek() under one L2 key, single protects of 1 MiB+17 and 3 MiB+5 bytes, histories run in a child interpreter with assertions compiled out (PYTHONOPTIMIZE=1), histories in which os.urandom starts raising (the child's entropy source is re-keyed, buffered state is shared). From each emitted blob the "
            "reference extracts GCM nonce and key_info and recovers the CEK; all must be pairwise distinct within the history. "
            "Non-trivial = history with >= 2 successful protects; distinct = distinct plan.")
    components = {"client": "real (public API, KeyCache, _encrypt_blob, cek_generate, new_kek)", "entropy": "simulated (os.urandom and AESGCM.generate_key seams, ledger)",
                  "clock": "simulated, frozen", "DC": "model (RefDC)", "security context": "stub (StubCtx)", "blob opener": "model (ref.cms/ref.gkdi)"}
    assumptions = ["the simulated entropy source never repeats a draw; real-world collision probability of fresh 96/256-bit values is outside the claim"]
    required_fired = ("mode_pub", "mode_nonce", "provenance_ok", "forked_histories", "alternating_positions", "thread_histories", "thread_overlap", "app_reseed_histories", "odd_length_field_histories", "reprotect_histories", "entropy_device_fault_histories", "entropy_source_failure_histories", "histories_with_assertions_compiled_out", "task_chain_histories", "long_runs", "long_run_key_identifier_nonces", "plaintext_over_1MiB", "scalar_draws_above_group_order")

    def cases(self, tier, seed):
        rng = prng.stream(seed, "C19")
        n = 1500 if tier == "quick" else 60000
        out = [gen_plan(rng, i, tier) for i in range(n)]
        # the same kinds of histories in an interpreter started with assertions compiled out (python -O / PYTHONOPTIMIZE=1, common in
        # containers and frozen applications): one child interpreter per case
        # public-key mode under elliptic-curve root keys with an entropy source that hands out LARGE (but distinct) values where the
        # ephemeral scalar is drawn: above the group order they cannot be used as they are - whatever the library does then (fail, draw
        # again), two protects must not end up with the same ephemeral key
        for k, curve in enumerate(("ECDH_P256", "ECDH_P384", "ECDH_P256", "ECDH_P384")):
            nb = 32 if curve == "ECDH_P256" else 48
            draws = [(b"\xff" * (nb - 1) + bytes([0xFF - j])).hex() for j in range(6)]
            out.append({"seed": 950 + k, "clock_ft": 133_000_000_000_000_000 + k, "root_keys": [[k % 5, offline.HASHES[k % 4], curve]], "caller_sids": [],
                        "ctx": {"kind": "stub", "legs": 2, "sig": 16}, "kind": "large-scalar-draws",
                        "entropy_script": [{"source": "urandom", "n": nb, "hex": h_} for h_ in draws],
                        "ops": [{"op": "protect", "fl": ("sync", "async")[k % 2], "sid": offline.SID_B, "rk": None, "net": "online", "data": 9, "same_data": True} for _ in range(4)]})
        # very long runs of the key / nonce generator itself (a nonce with few fresh bits repeats within them)
        for k in range(2 if tier == "quick" else 16):
            out.append({"kind": "long-run", "n": 300_000 if tier == "quick" else 1_000_000, "seed": 77 + k, "ops": [], "root_keys": [[0, "SHA256", "DH"]],
                        "kek": (250_000 if tier == "quick" else 600_000) if k % 2 == 0 else 0})
        # one protect of more than 1 MiB (and then some): whatever the content encryption does in pieces, the reference must open the blob
        for k, size in enumerate(((1 << 20) + 17, 3 * (1 << 20) + 5) if tier == "quick" else ((1 << 20) + 17, 3 * (1 << 20) + 5, (1 << 21), 5 * (1 << 20) + 1)):
            out.append({"seed": 900 + k, "clock_ft": 133_000_000_000_000_000 + k, "root_keys": [[k % 5, offline.HASHES[k % 4], "DH"]], "caller_sids": [offline.SID_A],
                        "ctx": {"kind": "stub", "legs": 2, "sig": 16}, "kind": "big-plaintext",
                        "ops": [{"op": "load_key", "rk": 0}, {"op": "protect", "fl": ("sync", "async")[k % 2], "sid": offline.SID_A, "rk": 0, "net": "offline", "data": size},
                                {"op": "protect", "fl": "sync", "sid": offline.SID_A, "rk": 0, "net": "offline", "data": 16}]})
        rng2 = prng.stream(seed, "C19", "optimize")
        for i in range(40 if tier == "quick" else 1200):
            pl = gen_plan(rng2, i, tier)
            if pl.get("kind") != "fork":
                out.append(dict(pl, interpreter="optimize"))
        return out

    def run_case(self, case):
        import json
        import os

        if case.get("kind") == "long-run":
            return run_long(case)
        if case.get("interpreter") == "optimize" and not os.environ.get("VERIF_PRISTINE"):
            inner = {k: v for k, v in case.items() if k != "interpreter"}
            v = common.run_case_fresh("C19", inner, env={"PYTHONOPTIMIZE": "1"})
            if v:
                v = {"sig": v["sig"] + "/python-O", "detail": "interpreter with assertions compiled out (PYTHONOPTIMIZE=1): " + v["detail"]}
            return {"viol": v, "digest": "opt:" + (v["sig"] if v else "ok"), "key": common.key_hash(case), "fired": {}, "probes": {"histories_with_assertions_compiled_out": 1}, "vtime_ns": 0}

        tr = P.execute_plan(case)
        if tr.is_child:  # forked half: hand the blobs to the parent and vanish without running any exit handler
            try:
                blobs_ = [[ot.idx, ot.outcome.value.hex() if ot.outcome.kind == "ok" and isinstance(ot.outcome.value, (bytes, bytearray)) else None,
                           ot.plaintext.hex() if ot.plaintext is not None else None] for ot in tr.ops if ot.op["op"] == "protect"]
                os.write(tr.child_wfd, json.dumps(blobs_).encode())
            finally:
                os._exit(0)
        if tr.child_pid:
            data = b""
            while True:
                chunk = os.read(tr.child_rfd, 65536)
                if not chunk:
                    break
                data += chunk
            os.close(tr.child_rfd)
            os.waitpid(tr.child_pid, 0)
            fork_at = next(ot.idx for ot in tr.ops if ot.op["op"] == "fork")
            for idx, blob_hex, pt_hex in json.loads(data or b"[]"):
                if idx > fork_at and blob_hex is not None:
                    # the child's protects after the fork join the history as additional operations
                    ot = P.OpTrace(1000 + idx, dict(tr.ops[idx].op, fl=tr.ops[idx].op["fl"], forked_child=True))
                    from checks import drive as _d

                    ot.outcome = _d.Outcome("ok", bytes.fromhex(blob_hex))
                    ot.plaintext = bytes.fromhex(pt_hex) if pt_hex is not None else None
                    ot.draws = []
                    tr.ops.append(ot)
        viol, probes = judge(case, tr)
        if tr.child_pid:
            probes["forked_histories"] = 1
        if case.get("kind") == "alternating":
            probes["alternating_positions"] = 1
        if case.get("reprotect"):
            probes["reprotect_histories"] = 1
        if case.get("entropy_device"):
            probes["entropy_device_fault_histories"] = 1
        if case.get("entropy_fault"):
            probes["entropy_source_failure_histories"] = 1
        if case.get("kind") == "app-reseed":
            probes["app_reseed_histories"] = 1
        if case.get("kind") == "task-chain":
            probes["task_chain_histories"] = 1
        if case.get("kind") == "big-plaintext":
            probes["plaintext_over_1MiB"] = 1
        if case.get("kind") == "large-scalar-draws":
            probes["scalar_draws_above_group_order"] = 1
        if case.get("kind") == "pub-reply-odd-length-field":
            probes["odd_length_field_histories"] = 1
        if case.get("kind") == "threads":
            probes["thread_histories"] = 1
            probes["thread_overlap"] = tr.world.stats.get("toverlap", 0)
        return {"viol": viol, "digest": tr.world.digest(), "key": common.key_hash(case) if probes.get("protects_ok", 0) >= 2 else None,
                "sched_key": common.key_hash(tr.schedule) if tr.schedule else None,
                "fired": {"entropy_draws": tr.world.entropy.counter, "concurrent_groups": int(case["kind"] == "concurrent"),
                          "choice_points": tr.world.stats.get("choice_points", 0), "thread_preemptions": tr.world.stats.get("tswitch", 0)},
                "probes": {k: v for k, v in probes.items() if k != "protects_ok"} | {"protect_calls": probes.get("protects_ok", 0)},
                "vtime_ns": tr.world.stats.get("vtime_ns", 0)}

    def shrink(self, case):
        if case.get("kind") == "long-run":
            if case["n"] > 1000:
                yield dict(case, n=case["n"] // 2)
            return
        if case.get("kind") == "fork" or case.get("interpreter"):
            return
        ops = case["ops"]
        for i in range(len(ops)):
            if any(isinstance(o.get("blob"), dict) and "from_op" in o["blob"] for o in ops):
                continue
            yield dict(case, ops=ops[:i] + ops[i + 1 :])
        for i, o in enumerate(ops):
            if o.get("fl") == "async":
                yield dict(case, ops=ops[:i] + [dict(o, fl="sync", group=None)] + ops[i + 1 :])
        yield from P.thread_shrinks(case)

    def sample_repr(self, case, res):
        return {"kind": case["kind"], "root_key": case["root_keys"][0], "ops": [(o["op"], o.get("fl"), o.get("net"), o.get("sid", "")[-4:]) for o in case["ops"]][:12]}


CHECK = C19()
