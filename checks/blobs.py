"""Catalogue of valid base blobs for the storage-fault checks (C04, C05) and the
shared executor 'unprotect a stored record with offline key material'."""
from __future__ import annotations

import contextlib
import hashlib
import typing as t

from checks import common, drive, offline
from ref import cms, gkdi
from simworld import blobstore, world as W

MODES = ("nonce", "DH", "ECDH_P256", "ECDH_P384")
POS = (361, 17, 13)


class Base(t.NamedTuple):
    name: str
    rk: cms.RootKey
    blob: bytes
    plaintext: bytes
    offsets: dict
    origin: str  # "ref" | "lib"


_CAT: t.Dict[str, t.List[Base]] = {}


def _ref_blob(hash_name: str, mode: str, ptlen: int, trailing: bool, idx: int) -> Base:
    secret = "DH" if mode == "nonce" else mode
    rk = offline.synth_root_key(idx, hash_name, secret)
    h = hashlib.sha512(f"base/{hash_name}/{mode}/{ptlen}/{trailing}".encode()).digest()
    pt = (h * (ptlen // 64 + 1))[:ptlen]
    pub = mode != "nonce"
    if pub:
        n = (rk.private_key_length + 7) // 8
        seedb = (h * 2)[:n]
        if secret != "DH":
            c = gkdi.curve_of(secret)
            seedb = ((int.from_bytes(seedb, "big") % (c.n - 1)) + 1).to_bytes(n, "big")
    else:
        seedb = h[:32]
    blob = cms.protect(pt, offline.SID_A, rk, POS, cek=hashlib.sha256(h).digest(), gcm_nonce=h[20:32], key_info_seed=seedb,
                       public_key_mode=pub, in_envelope=not trailing)
    name = f"ref/{hash_name}/{mode}/pt{ptlen}/{'trailing' if trailing else 'env'}"
    return Base(name, rk, blob, pt, cms.parse_blob(blob)["offsets"], "ref")


def _lib_blob(hash_name: str, ptlen: int, trailing: bool, idx: int) -> Base:
    import dpapi_ng
    from dpapi_ng._blob import DPAPINGBlob

    rk = offline.synth_root_key(idx, hash_name, "DH")
    world = W.World(idx * 100 + ptlen)
    world.clock.set_filetime(gkdi.interval_start_filetime(*POS) + 12345)
    pt = hashlib.sha512(b"lib%d" % ptlen).digest()[:ptlen] if ptlen <= 64 else bytes(range(256)) * (ptlen // 256 + 1)
    pt = pt[:ptlen]
    with world.installed():
        cache = offline.new_cache(rk)
        blob = dpapi_ng.ncrypt_protect_secret(pt, offline.SID_A, root_key_identifier=rk.root_key_id, cache=cache)
        if trailing:
            blob = DPAPINGBlob.unpack(blob).pack(blob_in_envelope=False)
    name = f"lib/{hash_name}/nonce/pt{ptlen}/{'trailing' if trailing else 'env'}"
    return Base(name, rk, bytes(blob), pt, cms.parse_blob(bytes(blob))["offsets"], "lib")


_BIG: t.List[Base] = []


def big_blobs() -> t.List[Base]:
    """Blobs whose content is larger than 1 MiB (streaming / chunked code paths), both layouts."""
    if not _BIG:
        for n, trailing in ((1024 * 1024 + 17, False), (2 * 1024 * 1024, True)):
            _BIG.append(_ref_blob("SHA256", "nonce", n, trailing, 70))
        for b in _BIG:
            o, _w, _k = unprotect_stored(b, b.blob)
            if o.kind != "ok" or o.value != b.plaintext:
                raise common.HarnessError(f"big base blob {b.name} does not round-trip: {o.brief()} {o.exc!r}")
    return _BIG


_NESTED: t.List[Base] = []


def nested_blobs() -> t.List[Base]:
    """Blobs whose plaintext is itself a valid DPAPI-NG blob for the same root key (a secret that was protected twice)."""
    if not _NESTED:
        for k, (h_, mode, trailing) in enumerate((("SHA256", "nonce", False), ("SHA512", "nonce", True))):
            inner = _ref_blob(h_, mode, 24, False, 80 + k)
            hh = hashlib.sha512(f"nested/{k}".encode()).digest()
            outer = cms.protect(inner.blob, offline.SID_A, inner.rk, POS, cek=hashlib.sha256(hh).digest(), gcm_nonce=hh[20:32], key_info_seed=hh[:32],
                                public_key_mode=False, in_envelope=not trailing)
            _NESTED.append(Base(f"ref/{h_}/nested/{'trailing' if trailing else 'env'}", inner.rk, outer, inner.blob, cms.parse_blob(outer)["offsets"], "ref"))
        for b in _NESTED:
            o, _w, _k = unprotect_stored(b, b.blob)
            if o.kind != "ok" or o.value != b.plaintext:
                raise common.HarnessError(f"nested base blob {b.name} does not round-trip: {o.brief()} {o.exc!r}")
    return _NESTED


def extra_blobs() -> t.List[Base]:
    return big_blobs() + nested_blobs()


def catalogue(tier: str) -> t.List[Base]:
    if tier in _CAT:
        return _CAT[tier]
    out: t.List[Base] = []
    idx = 40
    for hi, h in enumerate(offline.HASHES):
        for mi, m in enumerate(MODES):
            # every configuration once in both layouts; plaintext lengths rotate
            ptlen = (0, 1, 16, 100)[(hi + mi) % 4]
            out.append(_ref_blob(h, m, ptlen, False, idx))
            out.append(_ref_blob(h, m, (16, 100, 0, 1)[(hi + mi) % 4], True, idx))
            idx += 1
    for hi, h in enumerate(offline.HASHES):
        out.append(_lib_blob(h, (0, 1, 16, 100)[hi], False, 60 + hi))
        out.append(_lib_blob(h, (100, 16, 1, 0)[hi], True, 60 + hi))
    # sanity: every base blob decrypts (library, offline) to its plaintext
    for b in out:
        o, _w, _k = unprotect_stored(b, b.blob)
        if o.kind != "ok" or o.value != b.plaintext:
            raise common.HarnessError(f"base blob {b.name} does not round-trip before any fault: {o.brief()} {o.exc!r}")
    _CAT[tier] = out
    return out


def with_names(base: Base, domain: str, forest: str) -> bytes:
    """The same record with other domain / forest names in its key identifier (the names are not authenticated: it still decrypts)."""
    p = cms.parse_blob(base.blob)
    kid = dict(p["key_identifier"], domain=domain, forest=forest)
    in_env = "/env" in base.name
    return cms.build_blob(gkdi.pack_key_identifier(kid), p["sid"], p["enc_cek"], p["gcm_nonce"], p["enc_content"], in_envelope=in_env)


def with_descriptor(base: Base, oid: str, type_string: str, value: str) -> bytes:
    """The same record under another, self-consistent protection descriptor (OID and type string changed together)."""
    p = cms.parse_blob(base.blob)
    return cms.build_blob(p["key_identifier_raw"], value, p["enc_cek"], p["gcm_nonce"], p["enc_content"], in_envelope="/env" in base.name, descriptor=(oid, type_string))


def unprotect_stored(base: Base, stored: bytes, with_key: t.Union[bool, int] = True, line_limit: int = 0, flavour: str = "sync", kdf_limit: int = 300, then_valid: bool = False,
                     bad_load_first: t.Optional[dict] = None, cpu_limit: float = 0.0, valid_first: t.Sequence[bytes] = ()):
    """Real ncrypt_unprotect_secret on ``stored`` with offline key material and no reachable DC.
    -> (Outcome, world, counters); with ``then_valid`` the undamaged blob is unprotected afterwards on the SAME cache and that
    outcome is returned as counters["after"]."""
    world = W.World(len(stored))
    counters = {"kdf": 0, "lines": 0}
    with world.installed(patch_entropy=False):
        cache = offline.new_cache(base.rk) if (with_key and not bad_load_first) else offline.new_cache()
        if with_key == 2:
            # the root key was loaded the short way: no secret agreement parameters given (load_key's default)
            import dpapi_ng

            cache = dpapi_ng.KeyCache()
            cache.load_key(key=base.rk.key, root_key_id=base.rk.root_key_id, version=1, kdf_parameters=base.rk.kdf_params, secret_algorithm=base.rk.secret_alg,
                           private_key_length=base.rk.private_key_length, public_key_length=base.rk.public_key_length)
        if bad_load_first:
            # an earlier load_key for the same root key id with unusable parameters (it raises); the good parameters may or may not follow
            counters["bad_load"] = drive.classify(lambda: cache.load_key(key=base.rk.key, root_key_id=base.rk.root_key_id, version=1,
                                                                        kdf_algorithm=bad_load_first.get("kdf_algorithm", "SP800_108_CTR_HMAC"),
                                                                        kdf_parameters=bytes.fromhex(bad_load_first["kdf_parameters"]) if bad_load_first.get("kdf_parameters") is not None else None,
                                                                        secret_algorithm=bad_load_first.get("secret_algorithm", "DH"),
                                                                        private_key_length=512, public_key_length=2048))
            if bad_load_first.get("then_good"):
                offline.load_into(cache, base.rk)
        for vb in valid_first:
            # earlier, honest use of the SAME cache (whatever it remembers must not help a later rewritten record)
            o = drive.classify(lambda: offline.call_api(world, flavour, "unprotect", vb, cache=cache))
            if o.kind != "ok":
                raise common.HarnessError(f"valid blob does not open before the rewritten one: {o.brief()} {o.exc!r}")
        cpu = common.CpuBudget(cpu_limit) if cpu_limit else contextlib.nullcontext()
        with cpu, common.KdfBudget(kdf_limit) as kb:
            if line_limit:
                with common.LineBudget(line_limit) as lb:
                    out = drive.classify(lambda: offline.call_api(world, flavour, "unprotect", stored, cache=cache))
                counters["lines"] = lb.count
            else:
                out = drive.classify(lambda: offline.call_api(world, flavour, "unprotect", stored, cache=cache))
            counters["kdf"] = kb.count
            if then_valid:
                kb.count = 0
                counters["after"] = drive.classify(lambda: offline.call_api(world, flavour, "unprotect", base.blob, cache=cache))
    if out.kind == "raise" and (world.connect_attempts or world.dns_queries):
        # the library went looking for a domain controller: our seam's refusal is not its error
        out = drive.Outcome("needs-network", exc=out.exc)
    return out, world, counters
