"""C16 - key material is accepted only from replies sealed by the security context.

An on-path adversary sits on the GKDI connection between the real client and
the reference DC.  It does not hold the session key.  It strips the security
trailer and substitutes a well-formed cleartext GetKey reply built from its own
root key, flips every bit of the authentic reply, rewrites length fields,
substitutes the sealed stub, or replays the sealed reply of an earlier
connection.  Outcome-based oracle: the call raises, or its result is
indistinguishable from the unaltered run.
"""
from __future__ import annotations

import random
import struct
import typing as t

from checks import common, drive, offline, plan as P
from ref import cms, dtyp, gkdi, refdc, rpce
from simworld import prng, world as W

# configurations: (ctx, root key spec)
CTXS = {
    "stub-hs": ({"kind": "stub", "legs": 2, "sig": 16}, True),
    "stub-nohs": ({"kind": "stub", "legs": 2, "sig": 28}, False),
    "ntlm": ({"kind": "ntlm"}, True),
    "negotiate": ({"kind": "negotiate"}, True),
}
RKS = {"p256": [3, "SHA256", "ECDH_P256"], "dh": [4, "SHA512", "DH"]}
ADV_RK = cms.RootKey(key=b"\xAD" * 64, root_key_id=offline.synth_root_key(3, "SHA256", "ECDH_P256").root_key_id, hash_name="SHA256",
                     secret_alg="ECDH_P256", private_key_length=256, public_key_length=256)
SID = offline.SID_A
FT = 133_400_000_000_000_000
POS = gkdi.interval_of_filetime(FT)
BLOB_POS = [POS[0], 3, 7]


def adv_root_key(rkspec) -> cms.RootKey:
    real = offline.synth_root_key(*rkspec)
    return real._replace(key=bytes(b ^ 0x5A for b in real.key))


def base_plan(ctxname: str, rkname: str, opname: str, fl: str, member: bool = True) -> dict:
    ctx, hs = CTXS[ctxname]
    ops = []
    if opname == "protect":
        ops.append({"op": "protect", "fl": fl, "sid": SID, "rk": None, "net": "online", "data": 24, "cache": "fresh"})
    else:
        ops.append({"op": "unprotect", "fl": fl, "net": "online", "cache": "fresh",
                    "blob": {"rk": 0, "sid": SID, "pos": BLOB_POS, "mode": "nonce", "data": 24}})
    return {"seed": 11, "clock_ft": FT, "root_keys": [RKS[rkname]], "caller_sids": [SID] if member else [], "ctx": ctx,
            "dc": {"header_sign": hs, "pad_mode": "min16"}, "ops": ops}


def find_response(conn) -> t.Optional[int]:
    for i, m in enumerate(conn.rx_msgs):
        if len(m) > 2 and m[2] == rpce.RESPONSE:
            return i
    return None


_BASE: t.Dict[tuple, dict] = {}


def baseline(ctxname, rkname, opname, fl, member=True) -> dict:
    key = (ctxname, rkname, opname, fl, member)
    if key not in _BASE:
        plan = base_plan(ctxname, rkname, opname, fl, member)
        tr = P.execute_plan(plan)
        ot = tr.ops[-1]
        if ot.outcome.kind != "ok":
            raise common.HarnessError(f"C16 baseline {key} failed: {ot.outcome.exc!r} {tr.dc.all_violations}")
        gconn = [c for c in tr.world.conns if c.port != 135][-1]
        ri = find_response(gconn)
        resp = gconn.rx_msgs[ri]
        _BASE[key] = {"resp": resp, "pdu": rpce.parse_pdu(resp), "plaintext": ot.plaintext, "value": ot.outcome.value}
    return _BASE[key]


def make_tamper(alter, plan, state: dict):
    """Returns tamper(conn, msg idx, data) for the GKDI connection(s)."""
    kind = alter[0]

    def adv_response(conn, pdu):
        adv_world = W.World(0)
        adv_world.clock = conn.world.clock
        adv = refdc.RefDC(adv_world, [adv_root_key(plan["root_keys"][0])], caller_sids={SID} if alter[1] == "seed" else set())
        op = plan["ops"][-1]
        if op["op"] == "protect":
            hr, env = adv.answer(dtyp.target_sd(SID), None, -1, -1, -1, {})
        else:
            hr, env = adv.answer(dtyp.target_sd(SID), None, *op["blob"]["pos"], {})
        return rpce.build_response(rpce.ndr64_getkey_response(env, hr), ctx_id=0, call_id=pdu["call_id"] if pdu else 1)

    def tamper(conn, idx, data):
        if kind == "ack-level":
            # on-path adversary: the (unauthenticated) auth_level octet of the security trailers in the server's bind_ack /
            # alter_context_resp is rewritten; later it answers the sealed request itself with a cleartext Response
            if conn.port == 135 or len(data) < 16:
                return None
            if data[2] in (rpce.BIND_ACK, rpce.ALTER_CONTEXT_RESP):
                p = rpce.parse_pdu(data)
                if p["auth"] is None:
                    return None
                b = bytearray(data)
                b[p["auth"]["offset"] + 1] = alter[2]
                state["applied"] = True
                return bytes(b)
            if state.get("applied") and data[2] in (rpce.RESPONSE, rpce.FAULT):
                try:
                    p = rpce.parse_pdu(data)
                except Exception:  # noqa: BLE001
                    p = None
                state["answered_request"] = True
                return adv_response(conn, p)
            return None
        if kind == "ntlm-flags":
            # on-path adversary in the (unauthenticated) handshake: bits of NegotiateFlags in the NTLM CHALLENGE carried by the
            # bind_ack are cleared (SEAL, SIGN, KEY_EXCH ...); from then on the adversary answers in the server's place:
            # alter_context_resp without a token, then its own cleartext Response
            if conn.port == 135 or len(data) < 16:
                return None
            if data[2] == rpce.BIND_ACK and not state.get("applied"):
                k = data.find(b"NTLMSSP\x00\x02\x00\x00\x00")
                if k < 0:
                    return None
                b = bytearray(data)
                flags = struct.unpack("<I", b[k + 20 : k + 24])[0] & ~alter[2] & 0xFFFFFFFF
                b[k + 20 : k + 24] = struct.pack("<I", flags)
                state["applied"] = True
                state["ack"] = rpce.parse_pdu(data)
                return bytes(b)
            if state.get("applied") and data[2] in (rpce.ALTER_CONTEXT_RESP, rpce.FAULT, rpce.BIND_NAK, rpce.RESPONSE):
                reqs = [r for r in rpce.split_stream(bytearray(b"".join(conn.tx_log)))]
                last = reqs[-1] if reqs else None
                call_id = struct.unpack("<I", data[12:16])[0]
                if last is not None and last[2] == rpce.REQUEST:
                    state["answered_request"] = True
                    return adv_response(conn, {"call_id": call_id})
                a = state["ack"]
                state["answered_alter_context"] = True
                return rpce.build_bind_ack(a["results"], ptype=rpce.ALTER_CONTEXT_RESP, flags=a["flags"], sec_addr="", max_xmit=a["max_xmit"],
                                           max_recv=a["max_recv"], assoc=a["assoc"], auth=None, call_id=call_id)
            return None
        if kind in ("connect-flap", "no-credential"):
            # (the connection fault itself is injected by the world, see run()); whoever answers an *unauthenticated* request
            # on the key service port is the adversary: it replaces the DC's fault / reply with its own cleartext Response
            if conn.port == 135 or len(data) < 16:
                return None
            if data[2] in (rpce.RESPONSE, rpce.FAULT):
                reqs = [r for r in rpce.split_stream(bytearray(b"".join(conn.tx_log))) if r[2] == rpce.REQUEST]
                if reqs and not struct.unpack("<H", reqs[-1][10:12])[0]:
                    state["answered_cleartext_request"] = True
                    return adv_response(conn, None)
            return None
        if kind == "mitm-handshake":
            # the adversary removes the security trailer from the server's handshake PDUs (auth_len 0), so that the client's
            # security context is never fed the server's token, and answers whatever follows with its own cleartext Response
            if conn.port == 135 or len(data) < 16:
                return None
            if data[2] in (rpce.BIND_ACK, rpce.ALTER_CONTEXT_RESP):
                p = rpce.parse_pdu(data)
                if p["auth"] is None:
                    return None
                state["applied"] = True
                return rpce.build_bind_ack(p["results"], ptype=p["ptype"], flags=p["flags"], sec_addr=p["sec_addr"], max_xmit=p["max_xmit"],
                                           max_recv=p["max_recv"], assoc=p["assoc"], auth=None, call_id=p["call_id"])
            if state.get("applied") and data[2] in (rpce.RESPONSE, rpce.FAULT):
                try:
                    p = rpce.parse_pdu(data)
                except Exception:  # noqa: BLE001
                    p = None
                return adv_response(conn, p)
            return None
        if kind == "busy-fault":
            # the adversary answers the sealed request with an (unauthenticated) "server too busy" fault; whatever the client sends
            # afterwards on this connection is answered with the adversary's cleartext Response
            if conn.port == 135 or len(data) < 16 or data[2] not in (rpce.RESPONSE, rpce.FAULT):
                return None
            state["n"] = state.get("n", 0) + 1
            state["applied"] = True
            try:
                p = rpce.parse_pdu(data)
            except Exception:  # noqa: BLE001
                p = None
            if state["n"] == 1:
                return rpce.build_fault(alter[2] if len(alter) > 2 else 0x1C010014, ctx_id=0, call_id=p["call_id"] if p else 1)
            return adv_response(conn, p)
        if conn.port == 135 or len(data) < 24 or data[2] not in ((rpce.RESPONSE, rpce.FAULT) if state.get("replace_faults") else (rpce.RESPONSE,)):
            return None
        state["seen"] = state.get("seen", 0) + 1
        state["authentic"] = data
        pdu = rpce.parse_pdu(data)
        if kind == "flip":
            bit = alter[1]
            if bit // 8 >= len(data):
                return None
            b = bytearray(data)
            b[bit // 8] ^= 0x80 >> (bit % 8)
            state["applied"] = True
            return bytes(b)
        if kind == "lenfix":
            field, val = alter[1], alter[2]
            b = bytearray(data)
            a = pdu["auth"]
            if field == "frag_len":
                b[8:10] = struct.pack("<H", val & 0xFFFF)
            elif field == "auth_len":
                b[10:12] = struct.pack("<H", val & 0xFFFF)
            elif field == "pad_length":
                b[a["offset"] + 2] = val & 0xFF
            elif field == "alloc_hint":
                b[16:20] = struct.pack("<I", val & 0xFFFFFFFF)
            elif field == "auth_level":
                b[a["offset"] + 1] = val & 0xFF
            elif field == "auth_type":
                b[a["offset"]] = val & 0xFF
            state["applied"] = True
            return bytes(b)
        if kind == "strip":
            # cleartext GetKey reply from the adversary's own key material
            adv_world = W.World(0)
            adv_world.clock = conn.world.clock
            adv = refdc.RefDC(adv_world, [adv_root_key(plan["root_keys"][0])], caller_sids={SID} if alter[1] == "seed" else set())
            op = plan["ops"][-1]
            if op["op"] == "protect":
                hr, env = adv.answer(dtyp.target_sd(SID), None, -1, -1, -1, {})
            else:
                hr, env = adv.answer(dtyp.target_sd(SID), None, *op["blob"]["pos"], {})
            stub = rpce.ndr64_getkey_response(env, hr)
            state["applied"] = True
            mode = alter[2] if len(alter) > 2 else "plain"
            if mode == "plain":
                return rpce.build_response(stub, ctx_id=pdu["ctx_id"], call_id=pdu["call_id"])
            if mode.startswith("plain-callid"):  # ... the cleartext reply answers another call id than the one the sealed request carried
                delta = {"plain-callid+1": 1, "plain-callid-1": -1, "plain-callid^bit": 1 << 9, "plain-callid=0": -pdu["call_id"]}[mode]
                cid_ = (pdu["call_id"] ^ delta) if mode.endswith("^bit") else (pdu["call_id"] + delta) & 0xFFFFFFFF
                return rpce.build_response(stub, ctx_id=pdu["ctx_id"], call_id=cid_)
            if mode == "shutdown-first":  # an unauthenticated 16-byte shutdown PDU in front of the cleartext reply
                return rpce.header(17, rpce.PFC_FIRST | rpce.PFC_LAST, 16, 0, pdu["call_id"]) + rpce.build_response(stub, ctx_id=pdu["ctx_id"], call_id=pdu["call_id"])
            if mode == "shutdown-then-authentic-flipped":  # ... or in front of the authentic sealed reply with one stub bit flipped
                b = bytearray(data)
                b[24 + (len(data) - 24) // 3] ^= 0x10
                return rpce.header(17, rpce.PFC_FIRST | rpce.PFC_LAST, 16, 0, pdu["call_id"]) + bytes(b)
            # keep a security trailer but with auth_len 0 semantics variants
            a = pdu["auth"]
            if mode == "zero-sig":  # trailer kept, signature zeroed, stub in clear
                pad = -len(stub) % 16
                return rpce.build_response(stub + b"\x00" * pad, ctx_id=pdu["ctx_id"], call_id=pdu["call_id"],
                                           auth={"type": a["type"], "level": a["level"], "pad": pad, "ctx": a["ctx"], "value": b"\x00" * len(a["value"])})
            if mode.startswith("sig-len-"):  # a trailer whose signature has another length than the security context's (dummy bytes), stub in clear
                n_ = int(mode[8:])
                pad = -len(stub) % 16
                return rpce.build_response(stub + b"\x00" * pad, ctx_id=pdu["ctx_id"], call_id=pdu["call_id"],
                                           auth={"type": a["type"], "level": a["level"], "pad": pad, "ctx": a["ctx"], "value": bytes(range(1, n_ + 1))})
            if mode == "level-none":  # trailer claims no protection
                pad = -len(stub) % 16
                return rpce.build_response(stub + b"\x00" * pad, ctx_id=pdu["ctx_id"], call_id=pdu["call_id"],
                                           auth={"type": a["type"], "level": 1, "pad": pad, "ctx": a["ctx"], "value": a["value"]})
            raise ValueError(mode)
        if kind == "fragment":
            # the adversary clears PFC_LAST_FRAG on the authentic sealed reply and appends a cleartext "continuation" fragment
            b = bytearray(data)
            b[3] &= ~rpce.PFC_LAST & 0xFF
            cont = bytearray(adv_response(conn, pdu))
            cont[3] = rpce.PFC_LAST if alter[2] == "last-only" else (rpce.PFC_FIRST | rpce.PFC_LAST)
            state["applied"] = True
            return bytes(b) + bytes(cont)
        if kind == "subst":
            a = pdu["auth"]
            b = bytearray(data)
            n = a["offset"] - 24
            b[24 : a["offset"]] = bytes((i * 13 + alter[1]) & 0xFF for i in range(n))
            state["applied"] = True
            return bytes(b)
        if kind == "replay":
            # first sealed response passes and is recorded; the one on the later connection is replaced by it
            if "recorded" not in state:
                state["recorded"] = data
                return None
            state["applied"] = True
            return state["recorded"]
        raise ValueError(alter)

    return tamper


def run_two_requests(case) -> dict:
    """["tworeq", ctxname, flavour, bit]: the raw RPC client issues two GetKey requests on ONE authenticated connection.  The
    reply to the first is altered (bit flip in the sealed body: must be rejected); the reply to the second is replaced by the
    adversary's cleartext Response.  The second request must still go out sealed and the forged reply must be rejected."""
    import random as _r

    import dpapi_ng._client as dclient
    import dpapi_ng._rpc as rpc
    from dpapi_ng._gkdi import GetKey

    _, ctxname, fl, bit = case[:4]
    mode = case[4] if len(case) > 4 else "flip-then-forge"  # "replay-prev": first reply untouched, the second one is the first one again
    ctx, hs = CTXS[ctxname]
    world = W.World(bit)
    world.clock.set_filetime(FT)
    record: list = []
    if ctx["kind"] == "stub":
        acc, cf, creds, ap = drive.stub_acceptor_factory(ctx), drive.stub_ctx_factory(ctx, record), {}, "negotiate"
    else:
        P.ensure_ntlm_env()
        from simworld import secctx

        acc = lambda at: secctx.NtlmAcceptor("ntlm" if at == 0x0A else "negotiate")  # noqa: E731
        cf, ap = None, ("ntlm" if ctx["kind"] == "ntlm" else "negotiate")
        creds = {"username": f"{P.NTLM_DOMAIN}\\{P.NTLM_USER}", "password": P.NTLM_PASS}
    rkspec = RKS["p256"]
    rk = offline.synth_root_key(*rkspec)
    dc = refdc.RefDC(world, [rk], host=offline.DC, caller_sids={SID}, acceptor_factory=acc, rpc_knobs={"header_sign": hs})
    sd = dtyp.target_sd(SID)
    plan = {"root_keys": [rkspec], "ops": [{"op": "unprotect", "blob": {"pos": BLOB_POS}}]}
    state = {"n": 0}
    alter = ["strip", "seed"]

    def adv_bytes(conn):
        adv_world = W.World(0)
        adv_world.clock = world.clock
        adv = refdc.RefDC(adv_world, [adv_root_key(rkspec)], caller_sids={SID})
        hr, env = adv.answer(sd, None, *BLOB_POS, {})
        state["adv_env"] = env
        return rpce.build_response(rpce.ndr64_getkey_response(env, hr))

    def tamper(conn, idx, data):
        if len(data) < 24 or data[2] != rpce.RESPONSE:
            return None
        state["n"] += 1
        if mode == "replay-prev":
            if state["n"] == 1:
                state["first_reply"] = bytes(data)
                return None
            state["replayed"] = True
            return state["first_reply"]
        if state["n"] == 1:
            b = bytearray(data)
            off = 24 * 8 + bit % max(8, (len(data) - 24 - 8 - 16) * 8)
            b[off // 8] ^= 0x80 >> (off % 8)
            return bytes(b)
        state["forged_second"] = True
        return adv_bytes(conn)

    world.tampers = type("T", (dict,), {"get": lambda self, k, d=None: tamper})()
    gk = GetKey(sd, rk.root_key_id, *BLOB_POS)
    res = {"first": None, "second": None}

    def sync_work():
        with rpc.create_rpc_connection(offline.DC, dc.gkdi_port, auth_protocol=ap, **creds) as c:
            c.bind(dclient._ISD_KEY_CONTEXTS)
            try:
                res["first"] = ("ok", c.request(0, 0, gk.pack(), verification_trailer=dclient._VERIFICATION_TRAILER))
            except Exception as e:  # noqa: BLE001
                res["first"] = ("raise", e)
            return c.request(0, 0, gk.pack(), verification_trailer=dclient._VERIFICATION_TRAILER)

    async def async_work():
        c = await rpc.async_create_rpc_connection(offline.DC, dc.gkdi_port, auth_protocol=ap, **creds)
        async with c:
            await c.bind(dclient._ISD_KEY_CONTEXTS)
            try:
                res["first"] = ("ok", await c.request(0, 0, gk.pack(), verification_trailer=dclient._VERIFICATION_TRAILER))
            except Exception as e:  # noqa: BLE001
                res["first"] = ("raise", e)
            return await c.request(0, 0, gk.pack(), verification_trailer=dclient._VERIFICATION_TRAILER)

    with world.installed(ctx_factory=cf):
        out = drive.classify(sync_work) if fl == "sync" else drive.classify(lambda: drive.run_async(world, async_work, _r.Random(bit)))
    viol = None
    probes = {"alter_tworeq": 1}

    def V(cond, detail):
        return common.violation("C16", "two-requests", fl, cond, "", "", f"{detail}; ctx={ctxname} bit={bit} first={res['first'] and res['first'][0]} outcome={out.brief()} {out.exc!r}")

    reqs = [e for e in dc.gkdi_server.log if e.get("event") == "request"]
    if mode == "replay-prev":
        probes["alter_tworeq_replay"] = 1
        if not res["first"] or res["first"][0] != "ok":
            viol = V("authentic-reply-rejected", f"the unaltered reply to the first request was not accepted: {res['first'] and res['first'][1]!r}")
        elif out.kind == "ok" and state.get("replayed"):
            viol = V("replayed-reply-accepted", "the sealed reply to the FIRST request, delivered again as the reply to the second request, was returned to the caller")
        elif out.kind == "raise":
            probes["rejected"] = 1
    elif res["first"] and res["first"][0] == "ok":
        viol = V("altered-reply-accepted", "a sealed reply with a flipped body bit was returned to the caller")
    elif len(reqs) >= 2 and not reqs[1].get("stub_padded") and reqs[1]["pdu"]["auth"] is None:
        viol = V("second-request-in-clear", "after rejecting a reply the client sent its next request on the authenticated connection without sealing it")
    elif out.kind == "ok":
        v = out.value
        pad = v.sec_trailer.pad_length if v.sec_trailer else 0
        stub = v.stub_data[: len(v.stub_data) - pad]
        if state.get("forged_second"):
            viol = V("forged-reply-accepted", "the adversary's cleartext Response to the second request was returned as the stub")
        else:
            probes["second_authentic"] = 1
    else:
        probes["rejected"] = 1
    return {"viol": viol, "digest": world.digest() + out.brief(), "key": common.key_hash(case), "fired": {"tworeq": 1}, "probes": probes,
            "vtime_ns": world.stats.get("vtime_ns", 0)}


def run_raw(case) -> dict:
    """["raw", ctxname, flavour, alter]: one GetKey request through the raw RPC client (request() level): whatever the adversary
    does, the stub returned to the caller is exactly the plaintext the DC's security context sealed, or the call raises."""
    import random as _r

    import dpapi_ng._client as dclient
    import dpapi_ng._rpc as rpc
    from dpapi_ng._gkdi import GetKey

    _, ctxname, fl, alter = case[:4]
    empty = len(case) > 4 and case[4] == "empty"  # a call whose stub is empty (a method without arguments), no verification trailer
    ctx, hs = CTXS[ctxname]
    world = W.World(7)
    world.clock.set_filetime(FT)
    record: list = []
    if ctx["kind"] == "stub":
        acc, cf, creds, ap = drive.stub_acceptor_factory(ctx), drive.stub_ctx_factory(ctx, record), {}, "negotiate"
    else:
        P.ensure_ntlm_env()
        from simworld import secctx

        acc = lambda at: secctx.NtlmAcceptor("ntlm" if at == 0x0A else "negotiate")  # noqa: E731
        cf, ap = None, ("ntlm" if ctx["kind"] == "ntlm" else "negotiate")
        creds = {"username": f"{P.NTLM_DOMAIN}\\{P.NTLM_USER}", "password": P.NTLM_PASS}
    rkspec = RKS["p256"]
    rk = offline.synth_root_key(*rkspec)
    dc = refdc.RefDC(world, [rk], host=offline.DC, caller_sids={SID}, acceptor_factory=acc, rpc_knobs={"header_sign": hs})
    sd = dtyp.target_sd(SID)
    plan = {"root_keys": [rkspec], "ops": [{"op": "unprotect", "blob": {"pos": BLOB_POS}}]}
    state: dict = {"replace_faults": empty}
    tamper = make_tamper(alter, plan, state)
    world.tampers = type("T", (dict,), {"get": lambda self, k, d=None: tamper})()
    gk = GetKey(sd, rk.root_key_id, *BLOB_POS)
    stub_arg = b"" if empty else gk.pack()
    vt_arg = None if empty else dclient._VERIFICATION_TRAILER

    def sync_work():
        with rpc.create_rpc_connection(offline.DC, dc.gkdi_port, auth_protocol=ap, **creds) as c:
            c.bind(dclient._ISD_KEY_CONTEXTS)
            return c.request(0, 0, stub_arg, verification_trailer=vt_arg)

    async def async_work():
        c = await rpc.async_create_rpc_connection(offline.DC, dc.gkdi_port, auth_protocol=ap, **creds)
        async with c:
            await c.bind(dclient._ISD_KEY_CONTEXTS)
            return await c.request(0, 0, stub_arg, verification_trailer=vt_arg)

    with world.installed(ctx_factory=cf):
        out = drive.classify(sync_work) if fl == "sync" else drive.classify(lambda: drive.run_async(world, async_work, _r.Random(3)))
    if not state.get("applied"):
        raise common.HarnessError(f"adversary never got to act: {case} {out.brief()} {out.exc!r}")
    viol = None
    probes = {"alter_" + alter[0]: 1, "raw_request_level": 1, "empty_stub_request": int(empty)}
    if out.kind == "ok":
        v = out.value
        # compare the whole sealed region (stub + the DC's padding): pad_length itself sits in the security trailer, which is
        # only protected when header signing is on, so it must not be used to cut the comparison
        stub = bytes(v.stub_data)
        g = dc.getkey_log[-1] if (dc.getkey_log and not empty) else {}
        sealed = rpce.ndr64_getkey_response(g.get("envelope"), g.get("hresult", 0)) if g else None
        if sealed is not None:
            sealed = sealed + b"\xa5" * (-len(sealed) % 16)
        if stub != sealed:
            what = alter[0] + ("-" + str(alter[1]) if alter[0] in ("strip", "lenfix", "fragment") else "")
            viol = common.violation("C16", what, fl, "stub-not-what-was-sealed", "request", "",
                                    f"request() returned a stub of {len(stub)} bytes that differs from the {len(sealed or b'')} bytes the DC sealed; alteration={alter} ctx={ctxname}")
        else:
            probes["tolerated_authentic"] = 1
    elif out.kind in ("raise", "blocks"):
        probes["rejected"] = 1
    else:
        viol = common.violation("C16", alter[0], fl, out.kind, "request", "", f"{out.exc!r}")
    return {"viol": viol, "digest": world.digest() + out.brief(), "key": common.key_hash(case), "fired": {alter[0]: 1}, "probes": probes,
            "vtime_ns": world.stats.get("vtime_ns", 0)}


def run_async_concurrent(case) -> dict:
    """["aconc", ctx name, seed, kind]: 2..3 async protects in flight at once on one event loop (latencies up to 200 ms from the PRNG
    decide how their conversations interleave: one call's unauthenticated EPM exchange falls between another call's sealed request
    and its reply); the adversary replaces EVERY sealed GetKey reply by a cleartext one built from its own key.  Each call must
    raise (or return a blob under the domain's key)."""
    _, ctxname, seed, kind = case
    plan = base_plan(ctxname, "p256", "protect", "async")
    r = random.Random(seed)
    op = dict(plan["ops"][0], fl="async", group=1)
    plan["ops"] = [dict(op) for _ in range(2 + seed % 2)]
    plan["seed"] = seed
    plan["latency_us"] = [1, r.choice((300, 5000, 200000))]
    plan["delivery"] = (None, {"mode": "rand", "seed": seed & 0xFFFF, "bias": "header"})[(seed // 2) % 2]
    state: dict = {}
    tamper = make_tamper(["strip", kind, "plain"], plan, state)

    class Tampers(dict):
        def get(self, k, d=None):
            return tamper

    import checks.plan as planmod

    orig_world = W.World

    class AdvWorld(orig_world):
        def __init__(self, *a, **kw):
            super().__init__(*a, **kw)
            self.tampers = Tampers()

    planmod.W.World = AdvWorld
    try:
        tr = P.execute_plan(plan)
    finally:
        planmod.W.World = orig_world
    if not state.get("applied"):
        raise common.HarnessError(f"adversary never got to act: {case}")
    rk = tr.root_keys[0]
    adv_rk = adv_root_key(plan["root_keys"][0])
    viol = None
    probes = {"alter_async_concurrent": 1}
    for ot in tr.ops:
        out = ot.outcome
        if out.kind in ("raise", "blocks"):
            probes["rejected"] = 1
            continue
        if out.kind != "ok":
            viol = common.violation("C16", "strip-" + kind, "async-concurrent", out.kind, "", "", f"op {ot.idx}: call neither returned nor raised: {out.exc!r}")
            break
        try:
            pt = cms.unprotect(out.value, rk)
        except Exception:  # noqa: BLE001
            pt = None
        if pt == ot.plaintext:
            continue
        try:
            apt = cms.unprotect(out.value, adv_rk)
        except Exception:  # noqa: BLE001
            apt = None
        viol = common.violation("C16", "strip-" + kind, "async-concurrent", "adversary-key-used" if apt == ot.plaintext else "result-not-authentic", "protect", "",
                                f"op {ot.idx} of {len(tr.ops)} concurrent async protects accepted the adversary's cleartext GetKey reply; ctx={ctxname} latency up to {plan['latency_us'][1]} us")
        break
    return {"viol": viol, "digest": tr.world.digest(), "key": common.key_hash(case), "sched_key": common.key_hash(tr.schedule) if tr.schedule else None,
            "fired": {"strip": 1, "sched_choice_points": tr.world.stats.get("choice_points", 0)}, "probes": probes, "vtime_ns": tr.world.stats.get("vtime_ns", 0)}


def run_threads(case) -> dict:
    """["threads", seed, policy]: two caller threads of one process protect at the same time (sync API).  The adversary owns the
    unauthenticated hop of the second lookup: it answers that ept_map request with a well-formed cleartext Response carrying a
    GetKey reply built from its own root key.  Whatever the interleaving (simworld.threads; pre-emptions biased to the instants right
    after a socket read or an unwrap), each call raises or returns a blob under the domain's key."""
    _, seed, policy = case
    ctxname = ("stub-hs", "stub-nohs")[seed % 2]
    plan = base_plan(ctxname, "p256", "protect", "sync")
    op = dict(plan["ops"][0], fl="thread", group=1)
    plan["ops"] = [dict(op), dict(op), dict(op)][: 2 + seed % 2]
    plan["seed"] = seed
    plan["threads"] = policy
    plan["delivery"] = (None, {"mode": "rand", "seed": seed & 0xFFFF, "bias": "header"})[(seed // 2) % 2]
    state: dict = {"epm": []}

    def tamper(conn, idx, data):
        if conn.port != 135 or len(data) < 24 or data[2] != rpce.RESPONSE:
            return None
        if conn.cid not in state["epm"]:
            state["epm"].append(conn.cid)
        if state["epm"].index(conn.cid) == 0:
            return None  # the first lookup is left alone so that its caller reaches the key service
        adv_world = W.World(0)
        adv_world.clock = conn.world.clock
        adv = refdc.RefDC(adv_world, [adv_root_key(plan["root_keys"][0])], caller_sids={SID})
        hr, env = adv.answer(dtyp.target_sd(SID), None, -1, -1, -1, {})
        state["applied"] = True
        return rpce.build_response(rpce.ndr64_getkey_response(env, hr), ctx_id=0, call_id=struct.unpack("<I", data[12:16])[0])

    class Tampers(dict):
        def get(self, k, d=None):
            return tamper

    import checks.plan as planmod

    orig_world = W.World

    class AdvWorld(orig_world):
        def __init__(self, *a, **kw):
            super().__init__(*a, **kw)
            self.tampers = Tampers()

    planmod.W.World = AdvWorld
    try:
        tr = P.execute_plan(plan)
    finally:
        planmod.W.World = orig_world
    rk = tr.root_keys[0]
    adv_rk = adv_root_key(plan["root_keys"][0])
    viol = None
    probes = {"alter_threads": 1, "thread_overlap": tr.world.stats.get("toverlap", 0), "epm_reply_replaced": int(bool(state.get("applied")))}
    for ot in tr.ops:
        out = ot.outcome
        if out.kind == "raise":
            probes["rejected"] = 1
            continue
        if out.kind == "blocks":
            probes["blocked_waiting_for_more_bytes"] = 1  # no result is produced, nothing is accepted (cf. the single-caller cases)
            continue
        if out.kind != "ok":
            viol = common.violation("C16", "threads", "thread", out.kind, "", "", f"op {ot.idx}: call neither returned nor raised: {out.exc!r}")
            break
        try:
            pt = cms.unprotect(out.value, rk)
        except Exception:  # noqa: BLE001
            pt = None
        if pt == ot.plaintext:
            probes["authentic_result"] = 1
            continue
        try:
            apt = cms.unprotect(out.value, adv_rk)
        except Exception:  # noqa: BLE001
            apt = None
        cond = "adversary-key-used" if apt == ot.plaintext else "unauthentic-result"
        viol = common.violation("C16", "threads", "thread", cond, "protect", "",
                                f"op {ot.idx}: protect returned a blob that the domain's key does not open"
                                f"{' but the adversary can decrypt' if apt == ot.plaintext else ''} while another thread's unauthenticated lookup was answered by the adversary; "
                                f"ctx={ctxname} pre-emptions={tr.world.stats.get('tswitch', 0)}")
        break
    return {"viol": viol, "digest": tr.world.digest(), "key": common.key_hash(case), "sched_key": common.key_hash(tr.schedule) if tr.schedule else None,
            "fired": {"threads": 1, "thread_preemptions": tr.world.stats.get("tswitch", 0)}, "probes": probes, "vtime_ns": 0, "_scripts": tr.thread_scripts}


def run(case) -> dict:
    """case: [ctxname, rkname, opname, flavour, alter]"""
    if case[0] == "threads":
        return run_threads(case)
    if case[0] == "aconc":
        return run_async_concurrent(case)
    if case[0] == "tworeq":
        return run_two_requests(case)
    if case[0] == "raw":
        return run_raw(case)
    ctxname, rkname, opname, fl, alter = case
    base = baseline(ctxname, rkname, opname, fl)
    plan = base_plan(ctxname, rkname, opname, fl)
    if alter[0] == "replay":
        plan["ops"] = [dict(plan["ops"][0]), dict(plan["ops"][0])]
    state: dict = {}
    tamper = make_tamper(alter, plan, state)

    # install the adversary on every connection (it only touches Response PDUs of non-EPM connections)
    class Tampers(dict):
        def get(self, k, d=None):
            return tamper

    import checks.plan as planmod

    orig_world = W.World

    class AdvWorld(orig_world):  # the plan executor builds the world; give it the adversary
        def __init__(self, *a, **kw):
            super().__init__(*a, **kw)
            self.tampers = Tampers()

    if alter[0] == "connect-flap":
        class AdvWorld(orig_world):  # noqa: F811 - additionally: the first connect to the key service port fails once
            def __init__(self, *a, **kw):
                super().__init__(*a, **kw)
                self.tampers = Tampers()
                self._flapped = False

            def _lookup(self, host, port):
                if port != 135 and not self._flapped:
                    self._flapped = True
                    self.connect_attempts.append((host, port))
                    self.log("net.connect", host, port)
                    self.stats["noconn"] += 1
                    state["applied"] = True
                    return None
                return super()._lookup(host, port)

    if alter[0] == "strip" and len(alter) > 3 and alter[3] == "clock-step":
        # ... and the wall clock steps forward (NTP correction, resumed VM, a handshake reply held back by the on-path party) while the
        # last handshake message of every connection is in flight: by the time the request is made the context is "old"
        plan["delivery"] = {"clock_jumps": [[m_, 0, alter[4]] for m_ in (0, 1, 2)]}
        state["replace_faults"] = True  # (whatever the server answers - it may refuse a request that is not sealed - the adversary's reply arrives instead)
    if alter[0] == "no-credential":
        # fault: the caller's credential cannot be acquired for the requested provider (the call must fail, not go on unauthenticated)
        plan["cred_fault"] = alter[2]
        state["applied"] = True
    if alter[0] == "epm-port-135":
        # the adversary owns the unauthenticated endpoint-mapper hop entirely: its mapper announces port 135 itself as the key
        # service endpoint and serves the ISD_KEY interface there, without any security context, with a GetKey reply of its own
        from simworld import peers as _peers

        def adv_epm(server, conn, req):
            state["applied"] = True
            return ("response", rpce.ndr64_ept_map_response([rpce.std_tower(rpce.ISD_KEY_IF, rpce.NDR20, 135)], 0))

        def adv_getkey(server, conn, req):
            adv_world = W.World(0)
            adv_world.clock = conn.world.clock
            adv = refdc.RefDC(adv_world, [adv_root_key(plan["root_keys"][0])], caller_sids={SID} if alter[1] == "seed" else set())
            op = plan["ops"][-1]
            pos = (-1, -1, -1) if op["op"] == "protect" else tuple(op["blob"]["pos"])
            hr, env = adv.answer(dtyp.target_sd(SID), None, *pos, {})
            state["served_cleartext_getkey"] = True
            return ("response", rpce.ndr64_getkey_response(env, hr))

        class AdvWorld(orig_world):  # noqa: F811
            def add_route(self, host, port, peer):
                if port == 135:
                    peer = _peers.RpcServer({rpce.EPM_IF: adv_epm, rpce.ISD_KEY_IF: adv_getkey}, None, {"sec_addr": "135"}, "adversary")
                super().add_route(host, port, peer)

    planmod.W.World = AdvWorld
    try:
        tr = P.execute_plan(plan)
    finally:
        planmod.W.World = orig_world
    ot = tr.ops[-1]
    out = ot.outcome
    probes = {"alter_" + alter[0]: 1}
    if not state.get("applied"):
        raise common.HarnessError(f"adversary never got to act: {case} {out.brief()} {out.exc!r}")
    fired = {alter[0]: 1}
    for k_ in ("answered_alter_context", "answered_request", "answered_cleartext_request"):
        if state.get(k_):
            probes["adversary_" + k_] = 1
    viol = None
    rk = tr.root_keys[0]
    adv_rk = adv_root_key(plan["root_keys"][0])

    def V(cond, detail):
        what = alter[0] + ("-" + str(alter[1]) if alter[0] in ("strip", "lenfix", "mitm-handshake", "fragment", "connect-flap", "epm-port-135", "busy-fault", "no-credential", "ntlm-flags", "ack-level") else "")
        return common.violation("C16", what, fl, cond, opname, "",
                                f"{detail}; alteration={alter} ctx={ctxname} op={opname} outcome={out.brief()} {out.exc!r}")

    signed_region = False
    if alter[0] == "flip" and CTXS[ctxname][1]:
        n = len(base["resp"])
        tro = n - base["pdu"]["auth_len"] - 8
        byte = alter[1] // 8
        # PDU header (24 bytes incl. the response fields) and the 8-byte security trailer are covered by the signature when header
        # signing is negotiated (pyspnego's NTLM covers them in any case); frag_len / auth_len flips change framing and may block instead
        signed_region = byte < 24 or tro <= byte < tro + 8
    if out.kind == "raise":
        probes["rejected"] = 1
    elif out.kind == "blocks" and ((alter[0] == "flip" and alter[1] // 8 in (8, 9)) or (alter[0] == "lenfix" and alter[1] == "frag_len") or alter[0] in ("connect-flap", "no-credential")):
        # the adversary enlarged frag_len: the client waits for bytes that never come on an open connection. No result is
        # produced, nothing is accepted; a real peer would time the connection out. Not a violation (cf. C14 'stall').
        probes["blocked_waiting_for_more_bytes"] = 1
    elif out.kind == "blocks":
        # the complete (altered) reply was delivered, its framing untouched: "rejected with an error" means the call ends
        viol = V("altered-reply-neither-rejected-nor-returned", "the altered reply arrived completely, yet the call keeps waiting on the open connection instead of raising")
    elif out.kind != "ok":
        viol = V(out.kind, "call neither returned nor raised")
    elif signed_region:
        viol = V("signed-header-or-trailer-bit-accepted", f"header signing is negotiated, bit {alter[1]} (byte {alter[1] // 8}) of the PDU header / security trailer was flipped in flight and the reply was still accepted")
    elif opname == "unprotect":
        if out.value != ot.plaintext:
            viol = V("wrong-plaintext", "unprotect returned bytes that differ from the authentic run")
        else:
            probes["tolerated_authentic"] = 1
    else:
        blob = out.value
        try:
            pt = cms.unprotect(blob, rk)
        except Exception:  # noqa: BLE001
            pt = None
        if pt == ot.plaintext:
            probes["tolerated_authentic"] = 1
        else:
            try:
                apt = cms.unprotect(blob, adv_rk)
            except Exception:  # noqa: BLE001
                apt = None
            if apt == ot.plaintext:
                viol = V("adversary-key-used", "protect encrypted the secret under key material injected by the adversary (the adversary can decrypt the blob, the domain cannot)")
            else:
                viol = V("result-not-authentic", "protect returned a blob that the authentic key does not open")
    return {"viol": viol, "digest": tr.world.digest() + out.brief(), "key": common.key_hash(case), "fired": fired, "probes": probes,
            "vtime_ns": tr.world.stats.get("vtime_ns", 0)}


class C16(common.Check):
    id = "C16"
    level = "fault_enumeration"
    rule = ("case = (security context: StubCtx with/without header signing, real NTLM, real Negotiate->NTLM; operation protect|unprotect; "
            "flavour; alteration of the GetKey reply by an on-path adversary without the session key). Alterations: security trailer stripped "
            "and a well-formed cleartext reply with adversary seed keys / public key substituted (also: zeroed signature, auth level NONE, a dummy signature of 1..32 octets that is not the context's signature length, a cleartext reply under another call id, an unauthenticated shutdown PDU in front of the forgery, the same cleartext forgery after the wall clock stepped 5 min .. 30 d forward during the handshake); "
            "every single-bit flip of the authentic reply (all bits for StubCtx and NTLM in thorough; strided in quick); frag_len / auth_len / "
            "pad_length / alloc_hint / auth level / auth type rewritten to {0,1,true+-1,true+-16,0xFFFF}; sealed stub substituted; sealed reply "
            "of an earlier connection replayed; handshake man-in-the-middle (security trailers removed from bind_ack / alter_context_resp, every "
            "later server PDU replaced by the adversary's cleartext Response); PFC_LAST_FRAG cleared on the sealed reply and a cleartext "
            "continuation fragment appended; the auth_level octet of the server's handshake trailers rewritten to 0 / 1 / 2 / 5 before a cleartext forgery; NegotiateFlags bits (SEAL, SIGN, KEY_EXCH, 128/56-bit, extended session security) cleared in the NTLM CHALLENGE of the bind_ack, the adversary then "
            "answering the alter_context and the request in the server's place; fault: the credential for the requested provider cannot be acquired (context creation raises: stub, real NTLM with an unknown user, "
            "Kerberos without the gssapi extras) while whoever answers an unauthenticated request on the key service port is the adversary; two requests on one connection through the raw client (first reply bit-flipped, second replaced by "
            "a cleartext forgery; a call with an empty stub whose reply is replaced; a 'server too busy' fault injected before a cleartext Response; an adversary mapper that announces port 135 itself as the key endpoint and serves GetKey there without any security context; first reply untouched, second replaced by the first one again); 2..3 async protects in flight at once on one event loop (PRNG latencies interleave one call's unauthenticated EPM exchange with another call's pending sealed reply) while every sealed reply is replaced by a cleartext forgery; two or three caller threads protecting at the "
            "same time (sync API, deterministic thread scheduler biased to the instants after socket reads and unwraps) while the adversary answers "
            "the unauthenticated endpoint-mapper request of the later lookups with a cleartext Response carrying its own GetKey reply. Non-trivial = every case (each alters the reply); distinct = distinct tuple.")
    components = {"client": "real (public API, RPC client, AuthenticationProvider)", "security context": "real pyspnego NTLM / Negotiate->NTLM (initiator and acceptor) and StubCtx (stub)",
                  "DC": "model (RefDC)", "adversary": "simulator component on the reply path, no access to the session key",
                  "transport / entropy / clock": "simulated"}
    assumptions = ["outcome-based: a correct client may reject earlier or later or tolerate a change in an unprotected field, as long as the result equals the authentic one",
                   "pyspnego NTLM signs data_readonly buffers too, so 'header signing off' is only observable with StubCtx"]
    required_fired = ("alter_strip", "alter_flip", "alter_lenfix", "alter_subst", "alter_replay", "alter_mitm-handshake", "alter_connect-flap", "alter_epm-port-135", "alter_busy-fault", "alter_no-credential", "alter_ntlm-flags", "alter_ack-level", "alter_async_concurrent", "empty_stub_request", "alter_fragment", "alter_tworeq", "alter_tworeq_replay", "alter_threads", "thread_overlap", "epm_reply_replaced", "raw_request_level", "rejected")

    def exhaustive(self, tier):
        return tier == "thorough"

    exhaustive_note = "thorough: every single-bit flip of the authentic reply for every context x operation (P-256 root key)"

    def setup(self, tier, seed):
        P.ensure_ntlm_env()

    def cases(self, tier, seed):
        out = []
        for ctxname in CTXS:
            for opname in ("protect", "unprotect"):
                for fl in ("sync", "async"):
                    for kind in ("seed", "pub"):
                        for mode in ("plain", "zero-sig", "level-none", "sig-len-8", "sig-len-12", "sig-len-1", "sig-len-4", "sig-len-17", "sig-len-32",
                                     "plain-callid+1", "plain-callid-1", "plain-callid^bit", "plain-callid=0", "shutdown-first", "shutdown-then-authentic-flipped"):
                            out.append([ctxname, "p256", opname, fl, ["strip", kind, mode]])
                    for kind in ("seed", "pub"):
                        for secs in (301.0, 3600.0, 86400.0 * 30):
                            out.append([ctxname, "p256", opname, fl, ["strip", kind, "plain", "clock-step", secs]])
                    out.append([ctxname, "p256", opname, fl, ["replay"]])
                    for fk in ("last-only", "first-last"):
                        out.append([ctxname, "p256", opname, fl, ["fragment", "seed", fk]])
                        out.append([ctxname, "p256", opname, fl, ["fragment", "pub", fk]])
                    for kind in ("seed", "pub"):
                        out.append([ctxname, "p256", opname, fl, ["mitm-handshake", kind]])
                        out.append([ctxname, "p256", opname, fl, ["connect-flap", kind]])
                        out.append([ctxname, "p256", opname, fl, ["epm-port-135", kind]])
                        for status in (0x1C010014, 0x1C010003, 0x000006BB):  # server too busy / unknown interface / RPC_S_SERVER_TOO_BUSY
                            out.append([ctxname, "p256", opname, fl, ["busy-fault", kind, status]])
                        if ctxname in ("stub-hs", "ntlm"):
                            for variant in (("stub-raise",) if ctxname == "stub-hs" else ("ntlm-unknown-user", "kerberos-not-installed")):
                                out.append([ctxname, "p256", opname, fl, ["no-credential", kind, variant]])
                        for lvl in (0, 1, 2, 5):
                            out.append([ctxname, "p256", opname, fl, ["ack-level", kind, lvl]])
                        if ctxname == "ntlm":
                            for mask in (0x20, 0x10, 0x30, 0x40000000, 0x40000030, 0x20000000 | 0x80000000 | 0x20, 0x00080000 | 0x20):
                                out.append([ctxname, "p256", opname, fl, ["ntlm-flags", kind, mask]])
                    for s in range(3):
                        out.append([ctxname, "p256", opname, fl, ["subst", s]])
                    base = baseline(ctxname, "p256", opname, fl)
                    pdu = base["pdu"]
                    n = len(base["resp"])
                    true = {"frag_len": n, "auth_len": pdu["auth_len"], "pad_length": pdu["auth"]["pad"], "alloc_hint": pdu["alloc_hint"]}
                    for field, tv in true.items():
                        for v in sorted({0, 1, tv - 1, tv + 1, tv - 16, tv + 16, 0xFFFF, 8, 16} - {tv}):
                            if v >= 0:
                                out.append([ctxname, "p256", opname, fl, ["lenfix", field, v]])
                    for v in (0, 1, 2, 5):
                        out.append([ctxname, "p256", opname, fl, ["lenfix", "auth_level", v]])
                    for v in (0, 9, 10, 16):
                        out.append([ctxname, "p256", opname, fl, ["lenfix", "auth_type", v]])
                # bit flips
                fl = "sync"
                base = baseline(ctxname, "p256", opname, fl)
                nbits = len(base["resp"]) * 8
                if tier == "thorough":
                    stride = 1
                else:
                    stride = 5 if ctxname.startswith("stub") else 23
                hdr_end = 24 * 8
                for bit in range(nbits):
                    if bit < hdr_end or bit >= nbits - (base["pdu"]["auth_len"] + 8) * 8 or bit % stride == (seed % stride):
                        out.append([ctxname, "p256", opname, fl if bit % 2 else "async", ["flip", bit]])
            for fl in ("sync", "async"):
                for bit in range(0, 64 if tier == "quick" else 2000, 7):
                    out.append(["tworeq", ctxname, fl, bit])
                for k in range(4 if tier == "quick" else 40):
                    out.append(["tworeq", ctxname, fl, k, "replay-prev"])
                for al in (["fragment", "seed", "last-only"], ["fragment", "pub", "first-last"], ["strip", "seed", "plain"], ["strip", "seed", "zero-sig"],
                           ["strip", "pub", "level-none"], ["subst", 1], ["lenfix", "pad_length", 3], ["lenfix", "auth_len", 8]):
                    out.append(["raw", ctxname, fl, al])
                for al in (["strip", "seed", "plain"], ["strip", "pub", "plain"]):
                    out.append(["raw", ctxname, fl, al, "empty"])
            # a DH-sized reply as well (strip / lenfix only; flips in thorough)
            for fl in ("sync", "async"):
                out.append([ctxname, "dh", "protect", fl, ["strip", "seed", "plain"]])
                out.append([ctxname, "dh", "protect", fl, ["strip", "pub", "plain"]])
        rnga = prng.stream(seed, "C16", "async-concurrent")
        for k in range(240 if tier == "quick" else 12000):
            out.append(["aconc", ("stub-hs", "stub-nohs", "ntlm")[k % 3], rnga.getrandbits(30), ("seed", "pub")[(k // 3) % 2]])
        from checks import threadpure

        rngt = prng.stream(seed, "C16", "threads")
        for k in range(400 if tier == "quick" else 20000):
            out.append(["threads", rngt.getrandbits(30), threadpure.policy_for(k * 4 + 3) if k % 2 else threadpure.policy_for(k)])
        return out

    def run_case(self, case):
        return run(case)

    def shrink(self, case):
        if case[0] == "threads":
            from checks import threadpure

            yield from threadpure.shrinks(case, 2, None, lambda c: {"_script": (run_threads(c).get("_scripts") or {}).get("0")})
            return
        if case[0] in ("tworeq", "raw", "aconc"):
            return
        ctxname, rkname, opname, fl, alter = case
        if fl == "async":
            yield [ctxname, rkname, opname, "sync", alter]
        if ctxname != "stub-hs":
            yield ["stub-hs", rkname, opname, fl, alter]
        if rkname != "p256":
            yield [ctxname, "p256", opname, fl, alter]

    def sample_repr(self, case, res):
        if case[0] == "threads":
            return dict(zip(("kind", "seed", "thread_policy"), case))
        if case[0] == "aconc":
            return dict(zip(("kind", "ctx", "seed", "adversary_reply_kind"), case))
        if case[0] == "tworeq":
            return dict(zip(("kind", "ctx", "flavour", "flipped_bit_of_first_reply"), case))
        if case[0] == "raw":
            return dict(zip(("kind", "ctx", "flavour", "alteration", "stub"), case))
        return {"ctx": case[0], "root_key": case[1], "op": case[2], "flavour": case[3], "alteration": case[4]}


CHECK = C16()
