"""C15 - bind/auth handshake relays tokens faithfully and fails closed.

The real client (bind()+request() on both flavours, and the real
_sync_get_key/_async_get_key which add the EPM hop and the "desired context
accepted" rule) talks to a ScriptedPeer that plays an arbitrary server script.
The oracle works on the recorded history: client PDUs decoded by ref.rpce and
the calls the scripted security context saw.
"""
from __future__ import annotations

import itertools
import random
import typing as t
import uuid

from checks import common, drive
from ref import refdc, rpce
from simworld import peers, prng, secctx, world as W

DC = "dc01.domain.test"
GKDI_PORT = 49667

# ---- script alphabet -------------------------------------------------------------
# ack element: ["ack", kind, results, hs, tok]
#   kind: "pos" (bind_ack for bind, alter_context_resp for alter_context) | "bind_ack" | "alter_resp"
#   results: string over {A accept, U user reject, P provider reject, N negotiate ack}, one char per result
#   hs: 0/1 header-sign flag; tok: "tok" | "none" | "empty"
# terminal elements: ["nak"], ["fault"], ["response"], ["request"], ["eof"], ["clear_response"]
# (lower case: 16-bit values whose LOW octet is 0 - a rejection written big endian, or one altered octet; only 0 is acceptance)
RESULT_CODE = {"A": 0, "U": 1, "P": 2, "N": 3, "u": 0x0100, "p": 0x0200, "n": 0x0300, "x": 0xFF00}
TERMINALS = (["nak"], ["fault"], ["response"], ["request"], ["eof"], ["fault", 0x20], ["fault", 0x23 | 0x40],  # fault with PFC_DID_NOT_EXECUTE / PFC_MAYBE
             ["nak-cid", 0], ["nak-cid", 2], ["fault-cid", 0], ["fault-cid", 7])  # rejections whose call_id is not the one the client used


def _ack_bytes(el, position_kind: int, tok_index: int, auth_type: int) -> bytes:
    _, kind, results, hs, tok = el
    ptype = {"pos": position_kind, "bind_ack": rpce.BIND_ACK, "alter_resp": rpce.ALTER_CONTEXT_RESP}[kind]
    res = []
    for ch in results:
        code = RESULT_CODE[ch]
        res.append((code, 0 if code in (0, 3) else 2, rpce.NDR64 if code == 0 else None))
    auth = None
    if tok == "tok":
        auth = {"type": auth_type, "level": 6, "value": secctx.server_token(tok_index, drive.SECRET)}
    elif tok == "empty":
        auth = {"type": auth_type, "level": 6, "value": b""}
    flags = rpce.PFC_FIRST | rpce.PFC_LAST | (rpce.PFC_HDR_SIGN if hs else 0)
    return rpce.build_bind_ack(res, ptype=ptype, flags=flags, sec_addr=str(GKDI_PORT) if ptype == rpce.BIND_ACK else "", auth=auth)


class HandshakePeer(peers.PduPeer):
    """Plays ``script`` on the GKDI connection; remembers what it sent."""

    def __init__(self, script, cfg):
        super().__init__()
        self.script = script
        self.cfg = cfg
        self.sent: t.List[t.Tuple[str, t.Any]] = []  # (element kind, detail)
        self.acks_sent = 0
        self.sealer = secctx.StubAcceptor(cfg, drive.SECRET)
        self.hs_flags: t.List[int] = []

    def handle_pdu(self, conn, idx, raw):
        if idx >= len(self.script):
            return  # script exhausted: silent
        el = self.script[idx]
        try:
            pdu = rpce.parse_pdu(raw)
        except Exception:  # noqa: BLE001
            pdu = None
        kind = el[0]
        if kind == "ack":
            pos_kind = rpce.ALTER_CONTEXT_RESP if (pdu and pdu["ptype"] == rpce.ALTER_CONTEXT) else rpce.BIND_ACK
            self.acks_sent += 1
            at = pdu["auth"]["type"] if pdu and pdu.get("auth") else 9
            b = _ack_bytes(el, pos_kind, self.acks_sent, at)
            self.hs_flags.append(el[3])
            self.sent.append(("ack", el, rpce.parse_pdu(b)))
            conn.peer_send(b)
        elif kind == "nak":
            self.sent.append(("nak", el, None))
            conn.peer_send(rpce.build_bind_nak(reason=2))
        elif kind == "nak-cid":
            self.sent.append(("nak", el, None))
            conn.peer_send(rpce.build_bind_nak(reason=2, call_id=el[1]))
        elif kind == "fault-cid":
            self.sent.append(("fault", el, None))
            conn.peer_send(rpce.build_fault(0x00000005, call_id=el[1]))
        elif kind == "fault":
            self.sent.append(("fault", el, None))
            conn.peer_send(rpce.build_fault(0x00000005, flags=(el[1] | 3) if len(el) > 1 else 3))
        elif kind == "request":
            self.sent.append(("request", el, None))
            conn.peer_send(rpce.build_request(b"\x00" * 8))
        elif kind == "eof":
            self.sent.append(("eof", el, None))
            conn.peer_eof()
        elif kind == "response":
            stub = b"RESPONSE-STUB-%02d" % idx + b"\x00" * 6
            if pdu and pdu["ptype"] == rpce.REQUEST and pdu["auth"]:
                # seal the way a conforming server would, with the header-sign rule "every ack carried the flag"
                hs = bool(self.hs_flags) and all(self.hs_flags)
                so = pdu["stub_offset"]
                a = pdu["auth"]
                try:
                    self.sealer.unwrap(raw[:so], raw[so : a["offset"]], raw[a["offset"] : a["offset"] + 8], a["value"], hs)
                except Exception:  # noqa: BLE001
                    pass
                pad = -len(stub) % 16
                body = stub + b"\x00" * pad
                out = bytearray(rpce.build_response(body, auth={"type": a["type"], "level": 6, "pad": pad, "ctx": 0,
                                                                 "value": b"\x00" * self.sealer.sig}))
                off = 24 + len(body)
                sealed, sig = self.sealer.wrap(bytes(out[:24]), body, bytes(out[off : off + 8]), hs)
                out[24:off] = sealed
                out[off + 8 :] = sig
                self.sent.append(("response", el, stub))
                conn.peer_send(bytes(out))
            else:
                self.sent.append(("response", el, stub))
                conn.peer_send(rpce.build_response(stub))
        else:
            raise ValueError(el)


def _contexts():
    import dpapi_ng._rpc as rpc

    iface = rpc.SyntaxId(*rpce.ISD_KEY_IF)
    return [rpc.ContextElement(0, iface, [rpc.NDR64]), rpc.ContextElement(1, iface, [rpc.bind_time_feature_negotiation()])]


def execute(case):
    """case: {"cfg": ctx cfg, "script": [...], "flavour": sync|async, "api": raw|getkey, "seed": int}"""
    import dpapi_ng._client as dclient
    import dpapi_ng._rpc as rpc

    cfg, script, flavour, api = case["cfg"], case["script"], case["flavour"], case["api"]
    world = W.World(case.get("seed", 0))
    record: list = []
    peer = HandshakePeer(script, cfg)
    if api == "getkey":
        dc = refdc.RefDC(world, [], host=DC, gkdi_port=GKDI_PORT)  # only its endpoint mapper is used
    world.add_route(DC, GKDI_PORT, peer)
    ctxs = _contexts()
    sd = b"\x01\x00\x04\x80" + b"\x00" * 16

    def sync_work():
        if api == "getkey":
            return dclient._sync_get_key(DC, sd, None, 1, 2, 3)
        with rpc.create_rpc_connection(DC, GKDI_PORT, auth_protocol="negotiate") as c:
            c.bind(ctxs)
            return c.request(0, 0, b"\xAA" * 13)

    async def async_work():
        if api == "getkey":
            return await dclient._async_get_key(DC, sd, None, 1, 2, 3)
        c = await rpc.async_create_rpc_connection(DC, GKDI_PORT, auth_protocol="negotiate")
        async with c:
            await c.bind(ctxs)
            return await c.request(0, 0, b"\xAA" * 13)

    if case.get("eof_in_ack"):
        # the stream ends inside server message m after k of its bytes (api "raw": the only connection is the key service one)
        world.default_delivery = {"eof_at": list(case["eof_in_ack"])}
    if case.get("slow_leg"):
        # a slow server / KDC: its message m arrives only after that many (virtual) seconds; the handshake is the same handshake
        world.default_delivery = {"gaps": [[case["slow_leg"][0], 0, case["slow_leg"][1]]]}
    with world.installed(ctx_factory=drive.stub_ctx_factory(cfg, record)):
        if flavour == "sync":
            out = drive.classify(sync_work)
        else:
            out = drive.classify(lambda: drive.run_async(world, async_work, random.Random(case.get("seed", 0))))
    gconn = [c for c in world.conns if c.port == GKDI_PORT]
    return out, world, peer, record, (gconn[0] if gconn else None)


def run_epm_script(case) -> dict:
    """{"epm_script": [...], "flavour": fl, "seed": s}: the ENDPOINT MAPPER hop of _get_key (unauthenticated) meets a scripted
    server: its bind_ack rejects the offered context (user / provider rejection, only a negotiate_ack, an empty result list) or is a
    bind_nak.  Fail closed: no request is written on that connection and the call raises; the key service is never dialled."""
    import dpapi_ng._client as dclient

    script, fl = case["epm_script"], case["flavour"]
    world = W.World(case.get("seed", 0))
    peer = HandshakePeer(script, {"legs": 1, "sig": 16})
    world.add_route(DC, 135, peer)
    sd = b"\x01\x00\x04\x80" + b"\x00" * 16
    with world.installed(ctx_factory=drive.stub_ctx_factory({"legs": 2, "sig": 16}, [])):
        if fl == "sync":
            out = drive.classify(lambda: dclient._sync_get_key(DC, sd, None, 1, 2, 3))
        else:
            out = drive.classify(lambda: drive.run_async(world, lambda: dclient._async_get_key(DC, sd, None, 1, 2, 3), random.Random(case.get("seed", 0))))
    conn = next((c for c in world.conns if c.port == 135), None)
    viol = None
    probes = {"epm_hop_scripted": 1}

    def V(cond, detail):
        return common.violation("C15", "d", fl + "-getkey-epm", cond, "", "", f"{detail}; mapper script={script} outcome={out.brief()} {out.exc!r}")

    pdus = []
    if conn is not None:
        try:
            pdus = [rpce.parse_pdu(r) for r in rpce.split_stream(bytearray(b"".join(conn.tx_log)))]
        except Exception as e:  # noqa: BLE001
            viol = V("client-pdu-undecodable", f"client wrote bytes the independent decoder rejects: {e!r}")
    first = script[0]
    accepted = first[0] == "ack" and first[2][:1] == "A"
    if viol is None and not accepted:
        probes["epm_context_not_accepted"] = 1
        if any(p_["ptype"] == rpce.REQUEST for p_ in pdus):
            viol = V("request-on-rejected-context", "the mapper did not accept the offered presentation context, yet an ept_map request was written on that connection")
        elif out.kind != "raise":
            viol = V("no-error", "the mapper did not accept the offered presentation context but the call did not raise")
        elif any(a[1] != 135 for a in world.connect_attempts):
            viol = V("dialled-despite-rejection", f"connections were made to {world.connect_attempts}")
    return {"viol": viol, "digest": world.digest() + out.brief(), "key": common.key_hash(case), "fired": {"script_elements_played": len(peer.sent)}, "probes": probes,
            "vtime_ns": world.stats.get("vtime_ns", 0)}


def run_thread_pair(case) -> dict:
    """{"pair": [caseA, caseB], "policy": ...}: two caller threads of one process run two handshakes (raw sync client) against two
    servers that play different scripts - typically one that advertises header signing and one that does not; each conversation
    is judged on its own with the same clauses as a single one."""
    import dpapi_ng._rpc as rpc

    from checks import plan as P
    from simworld import threads as simthreads

    ca, cb = case["pair"]
    world = W.World(case.get("seed", 0))
    world.default_delivery = {"mode": "rand", "seed": case.get("seed", 0) & 0xFFFF, "bias": "header"}
    hosts = ("dca.domain.test", "dcb.domain.test")
    peers_ = [HandshakePeer(c["script"], c["cfg"]) for c in (ca, cb)]
    records: t.Dict[str, list] = {h: [] for h in hosts}
    cfgs = {hosts[0]: ca["cfg"], hosts[1]: cb["cfg"]}
    for h, p in zip(hosts, peers_):
        world.add_route(h, GKDI_PORT, p)
    ctxs = _contexts()

    def factory(username=None, password=None, hostname="unspecified", service="host", protocol="negotiate", **kw):
        records[hostname].append(("new", username, hostname, service, protocol))
        return secctx.StubCtx(cfgs[hostname], drive.SECRET, records[hostname])

    def work(h):
        def run():
            def go():
                with rpc.create_rpc_connection(h, GKDI_PORT, auth_protocol="negotiate") as c:
                    c.bind(ctxs)
                    return c.request(0, 0, b"\xAA" * 13)

            return drive.classify(go)

        return run

    tsim = simthreads.ThreadSim(random.Random(case.get("seed", 0) ^ 0xC15), P.SRC_PREFIX(), case["policy"])
    with world.installed(ctx_factory=factory):
        try:
            res = tsim.run([work(h) for h in hosts])
        except simthreads.Wedged as e:
            raise common.HarnessError(str(e))
    viol = None
    probes: t.Dict[str, int] = {"thread_pairs": 1, "thread_overlap": tsim.overlap}
    for k, (c, h, p) in enumerate(zip((ca, cb), hosts, peers_)):
        out = res[k][0] if res[k][0] is not None else drive.Outcome("raise", exc=RuntimeError(repr(res[k][1])))
        conn = next((x for x in world.conns if x.host == h), None)
        v, pr = judge(dict(c, flavour="sync", api="raw"), out, world, p, records[h], conn)
        for kk, vv in pr.items():
            probes[kk] = probes.get(kk, 0) + vv
        if v and not viol:
            viol = {"sig": v["sig"].replace("C15/", "C15/threads/", 1), "detail": f"conversation {'AB'[k]} of two running at once in caller threads: " + v["detail"]}
    return {"viol": viol, "digest": world.digest(), "key": common.key_hash(case), "sched_key": common.key_hash(tsim.switches) if tsim.switches else None,
            "fired": {"thread_preemptions": len(tsim.switches)}, "probes": probes, "vtime_ns": 0, "_script": tsim.script()}


def judge(case, out, world, peer, record, conn) -> t.Tuple[t.Optional[dict], dict]:
    fl = case["flavour"]
    cfg = case["cfg"]
    probes: t.Dict[str, int] = {}

    def V(clause, cond, detail):
        kind, frame = drive.exc_sig(out)
        return common.violation("C15", clause, fl + "-" + case["api"], cond, "", "", f"{detail}; script={case['script']} cfg={cfg} outcome={out.brief()} {out.exc!r}")

    if conn is None:
        return None, probes
    # client PDUs as an independent receiver sees them
    try:
        raws = rpce.split_stream(bytearray(b"".join(conn.tx_log)))
        pdus = [rpce.parse_pdu(r) for r in raws]
    except Exception as e:  # noqa: BLE001
        return V("a", "client-pdu-undecodable", f"client wrote bytes ref.rpce cannot decode: {e!r}"), probes
    if sum(len(r) for r in raws) != sum(len(x) for x in conn.tx_log):
        return V("a", "client-partial-pdu", "client wrote a partial PDU"), probes
    if case.get("eof_in_ack"):
        # fail closed: the stream ended inside server message m; nothing of that message may be acted upon
        m, k_ = case["eof_in_ack"]
        probes["stream_ended_inside_handshake_pdu"] = 1
        if out.kind != "raise":
            return V("e", "truncated-ack-" + out.kind, f"the stream ended after {k_} bytes of server message {m} but the call did not raise"), probes
        if len(pdus) > m + 1:
            return V("e", "pdu-sent-after-truncated-ack", f"the stream ended after {k_} bytes of server message {m}, yet the client went on to send a {pdus[m + 1]['name']}"), probes
        n_steps = sum(1 for r in record if r[0] == "step")
        if n_steps > m + 1:
            return V("e", "token-from-truncated-ack", f"the stream ended after {k_} bytes of server message {m}, yet step() #{n_steps} was fed from it"), probes
        return None, probes
    steps = [r for r in record if r[0] == "step"]
    wraps = [r for r in record if r[0] == "wrap"]
    unwraps = [r for r in record if r[0] == "unwrap"]
    tokens_out = []  # tokens produced by step(), in order (reconstructed: StubCtx is deterministic)
    ctx = secctx.StubCtx(cfg, drive.SECRET)
    for s in steps:
        if s[3]:  # step() on a complete context
            return V("c", "step-after-complete", f"step() call #{s[1]} happened after the context reported complete"), probes
        tokens_out.append(ctx.step(s[2]) or b"")
    nonempty = [tk for tk in tokens_out if tk]
    hs_pdus = [p for p in pdus if p["ptype"] in (rpce.BIND, rpce.ALTER_CONTEXT)]
    reqs = [p for p in pdus if p["ptype"] == rpce.REQUEST]
    others = [p for p in pdus if p["ptype"] not in (rpce.BIND, rpce.ALTER_CONTEXT, rpce.REQUEST)]
    if others:
        return V("a", "unexpected-client-pdu", f"client sent PDU type {others[0]['name']}"), probes
    # (a) each non-empty token exactly once, in order, first in bind then alter_context; auth_len == len(token)
    wire_tokens = [(p["ptype"], p["auth"]["value"] if p["auth"] else None, p["auth_len"]) for p in hs_pdus]
    if hs_pdus and hs_pdus[0]["ptype"] != rpce.BIND:
        return V("a", "first-not-bind", "first handshake PDU is not a bind"), probes
    if any(p["ptype"] == rpce.BIND for p in hs_pdus[1:]):
        return V("a", "second-bind", "more than one bind PDU"), probes
    sent_tokens = [w[1] for w in wire_tokens]
    # the last produced token may legitimately be unsent if the call failed before it could be written
    if sent_tokens != nonempty[: len(sent_tokens)] or len(sent_tokens) < len(nonempty) - 1:
        return V("a", "token-relay", f"tokens on the wire {[(x or b'')[:6] for x in sent_tokens]} != produced {[x[:6] for x in nonempty]}"), probes
    if len(sent_tokens) == len(nonempty) - 1 and out.kind == "ok":
        return V("a", "token-dropped", "a produced token never reached the wire although the call succeeded"), probes
    for pt, tok, alen in wire_tokens:
        if tok is None or alen != len(tok) or not tok:
            return V("a", "auth-len", "handshake PDU without token / auth_len mismatch / empty token sent"), probes
    # (b) inputs of step() 2.. are the server's tokens in order
    acks = [s for s in peer.sent if s[0] == "ack"]
    for i, s in enumerate(steps[1:]):
        if i >= len(acks):
            return V("b", "step-without-ack", f"step() #{i + 2} without a server ack"), probes
        a = acks[i][2]["auth"]
        expect = a["value"] if a else b""
        got = s[2] if s[2] is not None else b""
        if got != expect:
            return V("b", "token-feedback", f"step() #{i + 2} was fed {got[:8]!r}, server ack #{i + 1} carried {expect[:8]!r}"), probes
    if steps and steps[0][2] not in (None, b""):
        return V("b", "first-step-input", "first step() was given a token"), probes
    # (c) nothing of the handshake after completion
    legs = cfg["legs"]
    if len(steps) > legs:
        return V("c", "too-many-steps", f"{len(steps)} step() calls for a {legs}-leg context"), probes
    exp_hs = len(nonempty)
    if len(hs_pdus) > exp_hs:
        return V("c", "alter-after-complete", "AlterContext sent after the context completed"), probes
    # ordering: all handshake PDUs precede the request
    if reqs and pdus.index(reqs[0]) < len(hs_pdus):
        return V("c", "request-before-handshake-end", "request written before the handshake finished"), probes
    if reqs and len(steps) < legs:
        return V("c", "request-on-incomplete-context", "request written while the security context was incomplete"), probes
    # (d) request only on an accepted context, carrying that id (judged where the library owns the decision: getkey api)
    first_ack = acks[0] if acks else None
    if reqs and case["api"] == "getkey":
        res0 = first_ack[2]["results"][0][0] if first_ack and first_ack[2]["results"] else None
        if first_ack is None or first_ack[2]["ptype"] != rpce.BIND_ACK:
            pass  # cross-type ack: observed, not judged
        elif res0 != 0:
            return V("d", "request-on-rejected-context", f"request issued although the bind_ack answered context 0 with result {res0}"), probes
        if reqs[0]["ctx_id"] != 0:
            return V("d", "request-wrong-context-id", f"request carries context id {reqs[0]['ctx_id']}"), probes
    if len(reqs) > 1:
        return V("d", "duplicate-request", "more than one request"), probes
    # (e) header signing iff both sides advertised it (client always does); mixed flags: not judged
    flags = [a[1][3] for a in acks]
    first_lacks_it = bool(flags) and not flags[0] and any(flags) and acks[0][1][1] == "pos"
    if first_lacks_it:
        probes["hs_first_ack_without_flag_later_with"] = 1
    if wraps and flags and ((len(set(flags)) == 1 and all(a[1][1] == "pos" for a in acks)) or first_lacks_it):
        import spnego.iov as siov

        # (bind_ack without the flag, a later ack with it: the client no longer advertises on its alter_context, so nothing was agreed)
        want = bool(flags[0])
        for wcall in wraps + unwraps:
            got = wcall[1][0][0] == int(siov.BufferType.sign_only)
            if got != want:
                return V("e", "header-sign-" + ("missing" if want else "unexpected"),
                         f"{wcall[0]} called with sign_header={got} but server acks carried PFC_SUPPORT_HEADER_SIGN={flags}"), probes
        probes["hs_on" if want else "hs_off"] = 1
    # (f) rejections surface as errors, and nothing but the close follows
    consumed = len(pdus)  # how many script elements were played
    played = peer.sent
    bad_at = None
    for i, s in enumerate(played):
        client_pdu = pdus[i] if i < len(pdus) else None
        el_kind = s[0]
        if el_kind in ("nak", "fault", "request", "eof"):
            bad_at = i
            break
        if el_kind == "response" and client_pdu is not None and client_pdu["ptype"] != rpce.REQUEST:
            bad_at = i
            break
        if el_kind == "ack" and client_pdu is not None and client_pdu["ptype"] == rpce.REQUEST:
            bad_at = i
            break
        if el_kind == "ack" and client_pdu is not None and client_pdu["ptype"] == rpce.ALTER_CONTEXT and s[2]["ptype"] == rpce.BIND_ACK:
            # a bind_ack where an alter_context_resp is due is an unexpected PDU type (the opposite mix-up, an alter_context_resp
            # answering the bind, is accepted by the unchanged client through its class hierarchy and stays recorded, not judged)
            probes["bind_ack_answers_alter_context"] = 1
            bad_at = i
            break
    if bad_at is not None:
        probes["terminal_" + played[bad_at][0]] = 1
        if out.kind != "raise":
            return V("f", "not-an-error-" + played[bad_at][0], f"server answered PDU #{bad_at + 1} with {played[bad_at][0]} but the call ended with {out.brief()}"), probes
        if len(pdus) > bad_at + 1:
            return V("f", "talks-after-rejection", f"client wrote {len(pdus) - bad_at - 1} more PDU(s) after the server's {played[bad_at][0]}"), probes
    if out.kind in ("spin", "budget"):
        return V("f", out.kind, "client did not terminate cleanly"), probes
    if out.kind == "ok":
        probes["success"] = 1
        if bad_at is None and flags and len(set(flags)) == 1 and played and played[-1][0] == "response":
            stub = played[-1][2]
            val = out.value
            got = getattr(val, "stub_data", None)
            if got is not None:
                pad = val.sec_trailer.pad_length if val.sec_trailer else 0
                if got[: len(got) - pad] != stub:
                    return V("f", "wrong-stub", "the stub returned differs from what the server sealed"), probes
                probes["conforming_success"] = 1
    return None, probes


class RecordingCtx:
    """Transparent recorder around a *real* pyspnego context (NTLM / Negotiate->NTLM)."""

    def __init__(self, real, record):
        object.__setattr__(self, "_real", real)
        object.__setattr__(self, "_rec", record)
        object.__setattr__(self, "_n", 0)

    def __getattr__(self, name):
        return getattr(self._real, name)

    def step(self, in_token=None, **kw):
        object.__setattr__(self, "_n", self._n + 1)
        was_complete = self._real.complete
        out = self._real.step(in_token, **kw)
        self._rec.append(("step", self._n, None if in_token is None else bytes(in_token), was_complete, None if out is None else bytes(out)))
        return out

    def wrap_iov(self, iov, **kw):
        self._rec.append(("wrap", [int(x[0]) if isinstance(x, tuple) else -1 for x in iov], self._real.complete))
        return self._real.wrap_iov(iov, **kw)

    def unwrap_iov(self, iov, **kw):
        self._rec.append(("unwrap", [int(x[0]) if isinstance(x, tuple) else -1 for x in iov], self._real.complete))
        return self._real.unwrap_iov(iov, **kw)


class _CutServer(peers.RpcServer):
    """Conforming server that turns Byzantine after ``cut_after`` client PDUs: answers the next one with ``terminal``."""

    def __init__(self, *a, cut_after=None, terminal=None, **kw):
        super().__init__(*a, **kw)
        self.cut_after, self.terminal, self.cut_done = cut_after, terminal, False
        self.acks: list = []

    def handle_pdu(self, conn, idx, raw):
        if self.cut_after is not None and idx == self.cut_after:
            self.cut_done = True
            self.log.append({"conn": conn.cid, "event": "client_pdu_raw", "raw": raw})
            if self.terminal == "nak":
                conn.peer_send(rpce.build_bind_nak(reason=2))
            elif self.terminal == "fault":
                conn.peer_send(rpce.build_fault(5))
            elif self.terminal == "eof":
                conn.peer_eof()
            elif self.terminal == "request":
                conn.peer_send(rpce.build_request(b"\x00" * 8))
            return
        if self.cut_done:
            self.log.append({"conn": conn.cid, "event": "after_cut", "raw": raw})
            return
        super().handle_pdu(conn, idx, raw)


def run_real(case) -> dict:
    """{"real": "ntlm"|"negotiate", "flavour", "hs": 0/1, "cut_after": k|None, "terminal": .., "empty_trailer": bool}:
    the real pyspnego initiator (recorded) against a real acceptor behind a conforming server."""
    import dpapi_ng._rpc as rpc
    import spnego
    import spnego.iov as siov

    from checks import plan as P

    P.ensure_ntlm_env()
    fl = case["flavour"]
    world = W.World(case.get("seed", 0))
    record: list = []
    real_client = spnego.client

    made: list = []

    def factory(*a, **kw):
        ctx = real_client(*a, **kw)
        if made:  # contexts the Negotiate mechanism creates for itself are left alone
            return ctx
        made.append(ctx)
        return RecordingCtx(ctx, record)

    def handler(server, conn, req):
        return ("response", b"REAL-CTX-STUB-0123")

    srv = _CutServer({rpce.ISD_KEY_IF: handler}, lambda at: secctx.NtlmAcceptor("ntlm" if at == 0x0A else "negotiate"),
                     {"header_sign": bool(case["hs"]), "ack_token_empty_trailer": bool(case.get("empty_trailer"))},
                     cut_after=case.get("cut_after"), terminal=case.get("terminal"))
    world.add_route(DC, GKDI_PORT, srv)
    ctxs = _contexts()
    creds = dict(username=f"{P.NTLM_DOMAIN}\\{P.NTLM_USER}", password=P.NTLM_PASS, auth_protocol=case["real"])

    def sync_work():
        with rpc.create_rpc_connection(DC, GKDI_PORT, **creds) as c:
            c.bind(ctxs)
            return c.request(0, 0, b"\xAA" * 13)

    async def async_work():
        c = await rpc.async_create_rpc_connection(DC, GKDI_PORT, **creds)
        async with c:
            await c.bind(ctxs)
            return await c.request(0, 0, b"\xAA" * 13)

    with world.installed(ctx_factory=factory):
        out = drive.classify(sync_work) if fl == "sync" else drive.classify(lambda: drive.run_async(world, async_work, random.Random(case.get("seed", 0))))
    probes = {"real_" + case["real"]: 1}
    viol = None

    def V(clause, cond, detail):
        return common.violation("C15", clause, fl + "-real-" + case["real"], cond, "", "", f"{detail}; case={case} outcome={out.brief()} {out.exc!r}")

    conn = world.conns[0] if world.conns else None
    res0 = {"digest": world.digest() + out.brief(), "key": common.key_hash(case), "fired": {"real_ctx_runs": 1}, "probes": probes,
            "vtime_ns": world.stats.get("vtime_ns", 0)}
    try:
        raws = rpce.split_stream(bytearray(b"".join(conn.tx_log))) if conn else []
        pdus = [rpce.parse_pdu(r) for r in raws]
    except Exception as e:  # noqa: BLE001
        return dict(res0, viol=V("a", "client-pdu-undecodable", f"client wrote bytes ref.rpce cannot decode: {e!r}"))
    steps = [r for r in record if r[0] == "step"]
    if len(steps) > 8 or world.stats.get("peer_gave_up"):
        return dict(res0, viol=V("c", "handshake-does-not-end", f"{len(steps)} step() calls and {len(pdus)} PDUs without the handshake ending"))
    produced = [s[4] or b"" for s in steps]
    nonempty = [t_ for t_ in produced if t_]
    hs_pdus = [p for p in pdus if p["ptype"] in (rpce.BIND, rpce.ALTER_CONTEXT)]
    reqs = [p for p in pdus if p["ptype"] == rpce.REQUEST]
    sent = [p["auth"]["value"] if p["auth"] else None for p in hs_pdus]
    acks = [rpce.parse_pdu(m) for m in (conn.rx_msgs if conn else []) if len(m) > 2 and m[2] in (rpce.BIND_ACK, rpce.ALTER_CONTEXT_RESP)]
    if any(s[3] for s in steps):
        viol = V("c", "step-after-complete", "step() on a complete real context")
    elif sent != nonempty[: len(sent)] or len(sent) < len(nonempty) - 1 or (len(sent) < len(nonempty) and out.kind == "ok"):
        viol = V("a", "token-relay", f"{len(sent)} tokens on the wire vs {len(nonempty)} produced, or order/content differs")
    elif any(p["auth"] is None or p["auth_len"] != len(p["auth"]["value"]) for p in hs_pdus):
        viol = V("a", "auth-len", "handshake PDU without token or with a wrong auth_len")
    elif hs_pdus and (hs_pdus[0]["ptype"] != rpce.BIND or any(p["ptype"] == rpce.BIND for p in hs_pdus[1:])):
        viol = V("a", "bind-order", "first token not in the bind / a second bind")
    else:
        for i, s_ in enumerate(steps[1:]):
            if i >= len(acks):
                viol = V("b", "step-without-ack", f"step() #{i + 2} without a server ack")
                break
            a = acks[i]["auth"]
            expect = a["value"] if a else b""
            if (s_[2] or b"") != expect:
                viol = V("b", "token-feedback", f"step() #{i + 2} was not fed the token of server ack #{i + 1}")
                break
    if not viol and reqs and pdus.index(reqs[0]) < len(hs_pdus):
        viol = V("c", "request-before-handshake-end", "request written before the last handshake PDU")
    if not viol and reqs and steps and not all(s[3] is False for s in steps):
        pass
    if not viol:
        wraps = [r for r in record if r[0] in ("wrap", "unwrap")]
        want = int(siov.BufferType.sign_only) if case["hs"] else int(siov.BufferType.data_readonly)
        for w in wraps:
            if w[1][0] != want or w[1][2] != want:
                viol = V("e", "header-sign-" + ("missing" if case["hs"] else "unexpected"), f"{w[0]} buffer types {w[1]} while the server {'advertised' if case['hs'] else 'did not advertise'} header signing")
                break
            probes["hs_on" if case["hs"] else "hs_off"] = 1
    if not viol and srv.cut_done:
        probes["real_terminal_" + str(case.get("terminal"))] = 1
        if out.kind != "raise":
            viol = V("f", "not-an-error-" + str(case.get("terminal")), "server rejection / stream end did not surface as an error")
        elif any(e.get("event") == "after_cut" for e in srv.log):
            viol = V("f", "talks-after-rejection", "client wrote more PDUs after the rejection")
    if not viol and not srv.cut_done:
        if out.kind != "ok":
            viol = V("f", "conforming-handshake-failed", f"real {case['real']} handshake against a conforming server failed; server: {srv.violations[:2]}")
        else:
            probes["real_success"] = 1
            v = out.value
            pad = v.sec_trailer.pad_length if v.sec_trailer else 0
            if v.stub_data[: len(v.stub_data) - pad] != b"REAL-CTX-STUB-0123":
                viol = V("f", "wrong-stub", "stub differs from what the server sealed")
        if srv.violations and not viol:
            viol = V("a", "server-saw-violation", f"{srv.violations[:2]}")
    probes["real_legs_%d" % len(steps)] = 1
    return {"viol": viol, "digest": world.digest() + out.brief(), "key": common.key_hash(case), "fired": {"real_ctx_runs": 1}, "probes": probes,
            "vtime_ns": world.stats.get("vtime_ns", 0)}


def _acks_reduced(full: bool):
    res = ("AN", "PN", "A", "ANA") if full else ("AN", "PN")
    toks = ("tok", "none")
    return [["ack", "pos", r, hs, tk] for r in res for hs in (1, 0) for tk in toks]


class C15(common.Check):
    id = "C15"
    level = "fault_enumeration"
    rule = ("case = (security-context shape: 1..4 legs, optional empty last token; server script; flavour; api raw bind()+request() or "
            "_get_key with EPM hop). Scripts: every sequence of k acks (k = number of handshake PDUs the context needs; each ack over "
            "result vector x header-sign flag x token/no token) followed by every reply to the request {response, fault, bind_nak, "
            "request, bind_ack, EOF}, plus every earlier terminal, exhaustively; PRNG scripts over the full alphabet (all result codes, "
            "vector lengths 0..3, cross-type acks, empty tokens) up to depth 8. Non-trivial = script contains a terminal, a rejection, "
            "a missing token or a cleared header-sign flag; distinct = distinct (cfg, script, flavour, api). Real-context cases: NTLM and "
            "Negotiate->NTLM handshakes (recorded through a transparent proxy) against a real acceptor, header signing on/off, conforming and "
            "cut short by bind_nak / fault / EOF / request after 0..3 client PDUs. Fault: the stream ends INSIDE a bind_ack / alter_context_resp (1..70 bytes in): the call must raise, "
            "no further client PDU, no step() fed from the truncated message. A slow server whose handshake message (or reply) arrives after 31 s .. 2 h: judged like the prompt one. The endpoint-mapper hop against a scripted server that does not accept the offered context (no request on that connection, the call raises, the key service is not dialled). A slow security provider (one step() leg takes 16 s .. 10 min; on the async client the executor job's result arrives that much later).")
    components = {"client": "real (RpcClient.bind/request, _sync_get_key/_async_get_key, AuthenticationProvider)",
                  "peer": "scripted (ref.rpce encoders)", "security context": "stub (StubCtx, records every call); plus the real pyspnego NTLM and Negotiate->NTLM initiator (behind a recording proxy) against a real acceptor",
                  "endpoint mapper": "model (RefDC)", "transport": "simulated"}
    assumptions = ["which ack may clear header signing is ambiguous when flags are mixed: clause (e) is evaluated only on scripts whose acks all agree",
                   "an alter_context_resp answering a bind (and vice versa) is recorded, not judged",
                   "context results inside alter_context_resp are recorded, not judged"]
    required_fired = ("terminal_nak", "terminal_fault", "terminal_eof", "terminal_request", "hs_on", "hs_off", "conforming_success",
                      "real_success", "real_ntlm", "real_negotiate", "real_terminal_nak", "real_terminal_eof", "bind_ack_answers_alter_context", "thread_pairs", "thread_overlap", "hs_first_ack_without_flag_later_with", "stream_ended_inside_handshake_pdu", "slow_handshake_leg", "slow_security_provider", "epm_hop_scripted", "epm_context_not_accepted")

    def exhaustive(self, tier):
        return True

    exhaustive_note = "the structured script family is enumerated completely for every context shape; the PRNG scripts on top are samples"

    def cases(self, tier, seed):
        out = []
        shapes = [(1, False), (2, False), (2, True), (3, False), (3, True), (4, False), (4, True)]
        req_replies = [["response"], ["fault"], ["fault", 0x20], ["nak"], ["request"], ["eof"], ["ack", "pos", "AN", 1, "tok"]]
        for legs, empty_last in shapes:
            cfg = {"legs": legs, "empty_last": empty_last, "sig": 16}
            k = legs - 1 if empty_last else legs
            acks = _acks_reduced(full=k <= 2)
            if k >= 4 and tier == "quick":
                acks = [a for a in acks if a[2] == "AN"]
            for fl in ("sync", "async"):
                for api in ("raw", "getkey"):
                    if api == "getkey" and fl == "async" and k >= 3 and tier == "quick":
                        continue
                    for depth in range(0, k + 1):
                        for prefix in itertools.product(acks, repeat=depth):
                            tails = req_replies if depth == k else [t_ for t_ in TERMINALS if t_ != ["response"]] + [["response"]]
                            for tail in tails:
                                out.append({"cfg": cfg, "script": list(prefix) + [tail], "flavour": fl, "api": api, "seed": len(out)})
        # the stream ends INSIDE a bind_ack / alter_context_resp (after the header and part of the body, or inside the header)
        for legs in (2, 3):
            for sig_hs in (1, 0):
                for res in ("AN", "PN", "UN", "A"):
                    for tok in ("tok", "none"):
                        scr = [["ack", "pos", res, sig_hs, tok] for _ in range(legs)] + [["response"]]
                        for fl in ("sync", "async"):
                            for m in range(legs - 1 if tok == "tok" else 1):
                                for k_ in (1, 15, 16, 17, 20, 24, 27, 28, 36, 44, 52, 60, 70):
                                    if tier == "thorough" or (k_ + m + legs) % 2 == 0 or k_ in (17, 28):
                                        out.append({"cfg": {"legs": legs, "empty_last": False, "sig": 16}, "script": scr, "flavour": fl, "api": "raw", "seed": len(out), "eof_in_ack": [m, k_]})
        # a slow server: one of its handshake messages (or the reply) arrives after 31 s .. 2 h
        for legs in (2, 3, 4):
            for fl in ("sync", "async"):
                for m in range(legs + 1):
                    for secs in (31.0, 120.0, 7200.0):
                        if tier == "thorough" or (m + legs + int(secs)) % 2 == 0 or secs == 31.0:
                            out.append({"cfg": {"legs": legs, "empty_last": False, "sig": 16}, "script": [["ack", "pos", "AN", 1, "tok"] for _ in range(legs)] + [["response"]],
                                        "flavour": fl, "api": "raw", "seed": len(out), "slow_leg": [m, secs]})
        # the unauthenticated endpoint-mapper hop meets a server that does not accept the offered context
        for fl in ("sync", "async"):
            for first in (["ack", "bind_ack", "u", 0, "none"], ["ack", "bind_ack", "p", 0, "none"], ["ack", "bind_ack", "x", 0, "none"], ["ack", "bind_ack", "U", 0, "none"], ["ack", "bind_ack", "P", 0, "none"], ["ack", "bind_ack", "N", 0, "none"], ["ack", "bind_ack", "", 0, "none"],
                          ["ack", "bind_ack", "UA", 0, "none"], ["ack", "bind_ack", "PN", 1, "none"], ["nak"], ["ack", "bind_ack", "A", 0, "none"]):
                for tail in (["response"], ["fault"], ["eof"]):
                    out.append({"epm_script": [first, tail], "flavour": fl, "seed": len(out)})
        # a slow security provider: one leg of step() takes 16 s .. 10 min (a slow KDC, a credential prompt); on the async client
        # the job runs in the executor and its result arrives that much later
        for legs in (2, 3, 4):
            for fl in ("sync", "async"):
                for leg in range(1, legs + 1):
                    for secs in (16.0, 45.0, 600.0):
                        if tier == "thorough" or (leg + legs + int(secs)) % 2 == 0 or secs == 16.0:
                            out.append({"cfg": {"legs": legs, "empty_last": False, "sig": 16, "slow_step": [leg, secs]}, "script": [["ack", "pos", "AN", 1, "tok"] for _ in range(legs)] + [["response"]],
                                        "flavour": fl, "api": ("raw", "getkey")[(leg + legs) % 2], "seed": len(out), "slow_provider": True})
        # two handshakes at once from caller threads (one server advertises header signing, the other does not; 2 and 3 legs)
        from checks import threadpure

        rngp = prng.stream(seed, "C15", "pairs")
        for k in range(300 if tier == "quick" else 12000):
            legs_a, legs_b = rngp.choice((2, 3)), rngp.choice((2, 3))
            mk = lambda legs, hs: {"cfg": {"legs": legs, "empty_last": False, "sig": rngp.choice((16, 28))},  # noqa: E731
                                   "script": [["ack", "pos", "AN", hs, "tok"] for _ in range(legs)] + [["response"]]}
            out.append({"pair": [mk(legs_a, k % 2), mk(legs_b, 1 - k % 2)], "seed": rngp.getrandbits(30),
                        "policy": {"mode": "marks", "q": (0.3, 0.6, 0.9)[k % 3], "p": (0.0, 0.02)[(k // 3) % 2]} if k % 3 else threadpure.policy_for(k)})
        # real pyspnego contexts (NTLM: 2 legs, Negotiate->NTLM: 3 legs) against a real acceptor, conforming and cut short
        for real in ("ntlm", "negotiate"):
            for fl in ("sync", "async"):
                for hs in (1, 0):
                    for et in (False, True):
                        out.append({"real": real, "flavour": fl, "hs": hs, "cut_after": None, "terminal": None, "empty_trailer": et, "seed": len(out)})
                    for cut in (0, 1, 2, 3):
                        for term in ("nak", "fault", "eof", "request"):
                            out.append({"real": real, "flavour": fl, "hs": hs, "cut_after": cut, "terminal": term, "empty_trailer": False, "seed": len(out)})
        # PRNG scripts over the full alphabet
        n_rand = 6000 if tier == "quick" else 400000
        rng = prng.stream(seed, "C15", "scripts")
        for i in range(n_rand):
            legs = rng.randint(1, 4)
            cfg = {"legs": legs, "empty_last": legs > 1 and rng.random() < 0.3, "sig": rng.choice((16, 28, 60, 76)),
                   "tok_size": rng.choice((6, 24, 200, 1200)), "none_last": rng.random() < 0.5}
            depth = rng.randint(1, 8)
            script = []
            for _ in range(depth):
                if rng.random() < 0.72:
                    n = rng.choice((0, 1, 2, 2, 2, 3))
                    res = "".join(rng.choice("AAUPNAAUPNup") for _ in range(n))
                    script.append(["ack", rng.choice(("pos", "pos", "pos", "bind_ack", "alter_resp")), res, rng.randint(0, 1),
                                   rng.choice(("tok", "tok", "none", "empty"))])
                else:
                    script.append(list(rng.choice(TERMINALS)))
            out.append({"cfg": cfg, "script": script, "flavour": rng.choice(("sync", "async")), "api": rng.choice(("raw", "getkey")), "seed": i})
        return out

    def run_case(self, case):
        if "epm_script" in case:
            return run_epm_script(case)
        if "pair" in case:
            return run_thread_pair(case)
        if "real" in case:
            return run_real(case)
        out, world, peer, record, conn = execute(case)
        viol, probes = judge(case, out, world, peer, record, conn)
        if case.get("slow_leg"):
            probes["slow_handshake_leg"] = 1
        if case.get("slow_provider"):
            probes["slow_security_provider"] = 1
        nontrivial = bool(case.get("slow_leg") or case.get("slow_provider")) or any(el[0] != "ack" or el[2] != "AN" or el[3] != 1 or el[4] != "tok" for el in case["script"][:-1]) or case["script"][-1] != ["response"]
        return {"viol": viol, "digest": world.digest() + out.brief(), "key": common.key_hash(case) if nontrivial else None,
                "fired": {"script_elements_played": len(peer.sent), "peer_eof": world.stats.get("peer_eof", 0)}, "probes": probes,
                "vtime_ns": world.stats.get("vtime_ns", 0)}

    def shrink(self, case):
        if "pair" in case:
            pol = case["policy"]
            if pol.get("mode") != "script":
                sc = run_thread_pair(case).get("_script")
                if sc:
                    yield dict(case, policy=sc)
            else:
                sw = pol["switches"]
                if len(sw) > 2:
                    yield dict(case, policy=dict(pol, switches=sw[: len(sw) // 2]))
                    yield dict(case, policy=dict(pol, switches=sw[len(sw) // 2 :]))
                for k in range(min(len(sw), 40)):
                    yield dict(case, policy=dict(pol, switches=sw[:k] + sw[k + 1 :]))
            return
        if "real" in case:
            if case["flavour"] == "async":
                yield dict(case, flavour="sync")
            return
        if "epm_script" in case:
            return
        s = case["script"]
        for i in range(len(s)):
            yield dict(case, script=s[:i] + s[i + 1 :])
        for i, el in enumerate(s):
            if el[0] == "ack" and el != ["ack", "pos", "AN", 1, "tok"]:
                for j, simple in ((1, "pos"), (2, "AN"), (3, 1), (4, "tok")):
                    if el[j] != simple:
                        ne = list(el)
                        ne[j] = simple
                        yield dict(case, script=s[:i] + [ne] + s[i + 1 :])
        if case["cfg"].get("legs", 2) > 1:
            yield dict(case, cfg=dict(case["cfg"], legs=case["cfg"]["legs"] - 1, empty_last=False))
        if case["cfg"].get("sig") != 16 or case["cfg"].get("tok_size"):
            yield dict(case, cfg={"legs": case["cfg"]["legs"], "empty_last": case["cfg"].get("empty_last", False), "sig": 16})
        if case["flavour"] == "async":
            yield dict(case, flavour="sync")
        if case["api"] == "getkey":
            yield dict(case, api="raw")


CHECK = C15()
