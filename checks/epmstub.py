"""Builders of hostile ept_map result stubs whose *structure* (not just their counts) invites superlinear work."""
from __future__ import annotations

import typing as t


def overlapping_towers(n_towers: int, tail: int, declared_len: int = 2) -> bytes:
    """``n_towers`` towers, each declaring a tiny octet-string length but a floor count that reaches to the end of the stub,
    followed by a tail of minimal floors.  A decoder that reads every byte a bounded number of times does linear work; one that
    re-positions itself from the declared length while reading the floors wherever they lead reads the tail once per tower.
    The floor counts are made exact with the library's own Floor decoder (the input is only a way of asking a question)."""
    import dpapi_ng._epm as epm

    hdr = 16
    body = bytearray()
    for _ in range(n_towers):
        body += declared_len.to_bytes(8, "little") + declared_len.to_bytes(4, "little") + b"\x00\x00" + b"\x00\x00"
    body += b"\x01\x00\x1f\x00\x00" * (tail // 5) + b"\x00" * (tail % 5)
    body += (0).to_bytes(4, "little")
    view = memoryview(bytes(body))
    memo: t.Dict[int, int] = {}

    def floors_from(pos: int) -> int:
        chain = []
        while pos not in memo:
            try:
                f = epm.Floor.unpack(view[pos:])
                step = len(f.lhs) + len(f.rhs) + 5
            except Exception:  # noqa: BLE001
                memo[pos] = 0
                break
            chain.append(pos)
            pos += step
        count = memo[pos]
        for p in reversed(chain):
            count += 1
            memo[p] = count
        return count

    for idx in reversed(range(n_towers)):
        start = idx * hdr
        count = min(floors_from(start + 14), 0xFFFF)
        body[start + 12 : start + 14] = count.to_bytes(2, "little")
        view = memoryview(bytes(body))
        memo = {k: v for k, v in memo.items() if k >= start + hdr}
    return b"".join([b"\x00" * 20, n_towers.to_bytes(4, "little"), n_towers.to_bytes(8, "little"), b"\x00" * 8, n_towers.to_bytes(8, "little"),
                     b"".join((i + 3).to_bytes(8, "little") for i in range(n_towers)), bytes(body)])


SHAPES = {"overlap2": lambda k: overlapping_towers(25 * k, 500 * k, 2), "overlap0": lambda k: overlapping_towers(25 * k, 500 * k, 0),
          "overlap10": lambda k: overlapping_towers(20 * k, 600 * k, 10), "one-tower-long-tail": lambda k: overlapping_towers(1, 1000 * k, 2)}
