"""C02 - derived group keys equal the MS-GKDI chain from any covering seed material.

The pair (seed material held, position requested) is a history: the envelope is
obtained from the reference DC through the real RPC client (any shape MS-GKDI
allows at that position), or built by the cache from a loaded root key; then
keys for other positions are derived from it with the DC unreachable.  The
non-covering case is a Byzantine reply: the DC answers with an envelope for an
earlier position than requested.
"""
from __future__ import annotations

import hashlib
import typing as t

from checks import common, drive, offline, plan as P
from ref import cms, dtyp, gkdi, refdc
from simworld import prng, world as W

SID = offline.SID_A
SD = dtyp.target_sd(SID)
CFG = {"legs": 2, "sig": 16}
L0 = 361


def _fetch_envelope(rk: cms.RootKey, pos, omit_l2: bool, flavour: str = "sync"):
    """Real _sync_get_key against the reference DC -> library GroupKeyEnvelope for ``pos``."""
    import dpapi_ng._client as dclient

    world = W.World(pos[1] * 32 + pos[2])
    world.clock.set_filetime(gkdi.interval_start_filetime(L0, 31, 31) + 5)
    record: list = []
    dc = refdc.RefDC(world, [rk], host=offline.DC, caller_sids={SID}, acceptor_factory=drive.stub_acceptor_factory(CFG), omit_l2_at_31=omit_l2)
    with world.installed(ctx_factory=drive.stub_ctx_factory(CFG, record)):
        if flavour == "sync":
            env = dclient._sync_get_key(offline.DC, SD, rk.root_key_id, *pos)
        else:
            env = drive.run_async(world, lambda: dclient._async_get_key(offline.DC, SD, rk.root_key_id, *pos))
    return env, dc


def run_lattice(case) -> dict:
    """["lattice", hash, source, l1p, l2p, omit_l2]  source: "dc" | "rootkey"."""
    from dpapi_ng._blob import KeyIdentifier

    _, hash_name, source, l1p, l2p, omit = case[:6]
    edges = case[6] if len(case) > 6 else None
    rk = offline.synth_root_key(77, hash_name, "DH", {"key_edges": edges} if edges else None)
    chain = cms.chain_for(rk, SD, L0)
    probes: t.Dict[str, int] = {}
    if source == "dc":
        env, dc = _fetch_envelope(rk, (L0, l1p, l2p), bool(omit), "sync" if (l1p + l2p) % 2 else "async")
        if dc.all_violations:
            raise common.HarnessError(f"DC rejected the fetch: {dc.all_violations}")
        probes["shape_l2_omitted"] = int(bool(dc.getkey_log[-1].get("l2_omitted")))
        probes["shape_l1_absent"] = int(len(env.l1_key) == 0)
    else:
        world = W.World(0)
        with world.installed():
            if omit:
                # history: the same root key id was first loaded with other parameters (defaulted hash, wrong key bytes) and used
                # once in this process; then it is loaded again with the right ones
                decoy = rk._replace(key=bytes(reversed(rk.key)), hash_name="SHA512" if hash_name != "SHA512" else "SHA256")
                c0 = offline.new_cache(decoy)
                c0._get_key(SD, rk.root_key_id, L0, 3, 3)
                probes["root_key_reloaded_with_other_parameters"] = 1
            cache = offline.new_cache(rk)
            env = cache._get_key(SD, rk.root_key_id, L0, l1p, l2p)
        l1p, l2p = 31, 31
    nonce = hashlib.sha256(b"nonce%d/%d" % (l1p, l2p)).digest()
    evals = 0
    viol = None
    keys = []
    with common.KdfBudget(10**9) as kb:
        for l1 in range(32):
            for l2 in range(32):
                covering = (l1, l2) <= (l1p, l2p)
                succ = (l1, l2) in ((l1p, l2p + 1), (l1p + 1, 0), (l1p + 1, l2p), (l1p + 1, 31))  # the positions right after the seed: always asked
                if not covering and not succ and (l1 * 32 + l2 + l1p) % 29:
                    continue  # sample of the non-covering side (each must raise, cheaply)
                kid = KeyIdentifier(version=1, flags=0, l0=L0, l1=l1, l2=l2, root_key_identifier=rk.root_key_id, key_info=nonce,
                                    domain_name="domain.test", forest_name="domain.test")
                kb.count, kb.limit = 0, 300
                out = drive.classify(lambda: env.get_kek(kid))
                evals += 1
                keys.append((hash_name, source, l1p, l2p, omit, l1, l2))
                rel = "same" if (l1, l2) == (l1p, l2p) else ("same-l1" if l1 == l1p else ("l1-1" if l1 == l1p - 1 else "lower"))
                if covering:
                    probes["cover_" + rel] = probes.get("cover_" + rel, 0) + 1
                    want = gkdi.kek_nonce(hash_name, chain.l2_seed(l1, l2), nonce)
                    if out.kind != "ok" or out.value != want:
                        et, frame = drive.exc_sig(out)
                        shape = ("l2-omitted" if omit and l2p == 31 else "") + ("" if len(env.l1_key) else "l1-absent")
                        viol = common.violation("C02", "derivation", source, et if out.kind != "ok" else "wrong-key", frame if out.kind != "ok" else "", rel + ("/l2'=31" if l2p == 31 else ""),
                                                f"seed material at ({l1p},{l2p}) [{shape}] requested ({l1},{l2}) hash {hash_name}: "
                                                f"{'KEK differs from the MS-GKDI chain' if out.kind == 'ok' else repr(out.exc)}")
                        break
                else:
                    probes["noncover"] = probes.get("noncover", 0) + 1
                    if out.kind != "raise":
                        et, frame = drive.exc_sig(out)
                        viol = common.violation("C02", "non-covering", source, "returned-a-key" if out.kind == "ok" else out.kind, frame, "",
                                                f"seed material at ({l1p},{l2p}) does not cover ({l1},{l2}) but get_kek {out.brief()}")
                        break
            if viol:
                break
        if viol is None:
            # requested indexes outside 0..31 (a key identifier field is 32 bits wide): not covered by anything, must be reported as
            # an error at once
            for l1, l2 in ((l1p, 32), (0, 40), (32, 0), (l1p, 2**31), (0xFFFFFFFF, 5), (31, 63), (max(l1p - 1, 0), 33)):
                kid = KeyIdentifier(version=1, flags=0, l0=L0, l1=l1, l2=l2, root_key_identifier=rk.root_key_id, key_info=nonce,
                                    domain_name="domain.test", forest_name="domain.test")
                kb.count, kb.limit = 0, 300
                out = drive.classify(lambda: env.get_kek(kid))
                evals += 1
                probes["index_out_of_range"] = probes.get("index_out_of_range", 0) + 1
                if out.kind != "raise":
                    et, frame = drive.exc_sig(out)
                    viol = common.violation("C02", "non-covering", source, "returned-a-key" if out.kind == "ok" else out.kind, frame, "index-out-of-range",
                                            f"seed material at ({l1p},{l2p}), requested position ({l1},{l2}) does not exist, but get_kek {out.brief()}")
                    break
    if edges:
        probes["root_key_with_odd_edge_bytes"] = 1
    return {"viol": viol, "digest": hashlib.sha256(repr((case, evals)).encode()).hexdigest()[:12], "keys": [common.key_hash(k) for k in keys], "evals": evals,
            "fired": {"envelope_via_rpc": int(source == "dc")}, "probes": probes, "vtime_ns": 0}


def _derive_job(job):
    """One derivation through the library's own functions -> key bytes (see checks.threadpure)."""
    import dpapi_ng._gkdi as dg
    from cryptography.hazmat.primitives import hashes
    from dpapi_ng._blob import KeyIdentifier

    what, k = job
    hash_name = offline.HASHES[k % 4]
    rk = offline.synth_root_key(70 + k % 3, hash_name, "DH")
    alg = {"SHA1": hashes.SHA1, "SHA256": hashes.SHA256, "SHA384": hashes.SHA384, "SHA512": hashes.SHA512}[hash_name]()
    l0 = 300 + k % 200
    l1, l2 = (k // 7) % 32, (k // 3) % 32
    if what == "l1":
        return bytes(dg.compute_l1_key(SD, rk.root_key_id, l0, rk.key, alg))
    if what == "ctx":
        return bytes(dg.compute_kdf_context(rk.root_key_id, l0, l1, l2))
    cache = offline.new_cache(rk)
    env = cache._get_key(SD, rk.root_key_id, l0, l1, l2)
    if what == "l2":
        return bytes(dg.compute_l2_key(alg, l1, l2, env))
    kid = KeyIdentifier(version=1, flags=0, l0=l0, l1=l1, l2=l2, root_key_identifier=rk.root_key_id, key_info=hashlib.sha256(b"n%d" % k).digest(),
                        domain_name="domain.test", forest_name="domain.test")
    return bytes(env.get_kek(kid))


def run_threads(case) -> dict:
    """["threads", seed, n, policy]: caller threads of one process derive keys at the same time (separate caches)."""
    import random

    from checks import threadpure

    _, seed, n, policy = case
    r = random.Random(seed)
    # every thread works with two or three requests and comes back to them (whatever is remembered about "the last request" must be
    # remembered as a whole); different threads use different envelopes
    jobs = []
    for _ in range(n):
        mine = [(r.choice(("kek", "kek", "l2", "l1", "ctx")), r.randrange(100000)) for _ in range(r.randint(2, 3))]
        jobs.append([r.choice(mine) for _ in range(r.randint(3, 6))])
    world = W.World(seed)
    with world.installed():
        return threadpure.run("C02", "derivation", case, jobs, _derive_job, seed, policy)


def gen_history(rng, i: int) -> dict:
    hash_name = offline.HASHES[i % 4]
    l1p = rng.choice((0, 1, 31, rng.randrange(32)))
    l2p = rng.choice((0, 31, 31, rng.randrange(32)))
    now = gkdi.interval_start_filetime(L0, 31, 31) + 9
    byz = rng.random() < 0.3
    plan = {"seed": rng.getrandbits(31), "clock_ft": now, "root_keys": [[78, hash_name, rng.choice(offline.SECRETS)]], "caller_sids": [SID],
            "ctx": {"kind": "stub", "legs": 2, "sig": 16}, "dc": {"omit_l2_at_31": rng.random() < 0.5}, "ops": [], "kind": "byz" if byz else "history"}
    ops = plan["ops"]
    if byz:
        # request p, DC (Byzantine) answers with an envelope for an earlier position
        l1 = rng.randrange(0, 32)
        l2 = rng.randrange(0, 32)
        if (l1, l2) == (0, 0):
            l2 = 5
        earlier = rng.choice(((l1, l2 - 1) if l2 else (l1 - 1, 31), (max(l1 - 1, 0), rng.randrange(32)) if l1 else (0, max(l2 - 1, 0)), (0, 0)))
        if earlier >= (l1, l2):
            earlier = (0, 0)
        plan["dc"]["byz"] = {"reply_position": [L0, earlier[0], earlier[1]]}
        ops.append({"op": "unprotect", "fl": rng.choice(("sync", "async")), "net": "online",
                    "blob": {"rk": 0, "sid": SID, "pos": [L0, l1, l2], "mode": rng.choice(("nonce", "pub")), "data": 9}})
        return plan
    start = rng.choice(("rpc", "rpc", "rootkey"))
    if start == "rootkey":
        ops.append({"op": "load_key", "rk": 0})
        l1p, l2p = 31, 31
    else:
        ops.append({"op": "unprotect", "fl": rng.choice(("sync", "async")), "net": "online",
                    "blob": {"rk": 0, "sid": SID, "pos": [L0, l1p, l2p], "mode": "nonce", "data": 5}})
    r2 = __import__("random").Random(plan["seed"])
    n_un = rng.randint(2, 6)
    prot_at = r2.randrange(n_un) if r2.random() < 0.5 else -1
    load_at = r2.randrange(n_un) if (start == "rpc" and r2.random() < 0.3) else -1
    for k_ in range(n_un):
        if k_ == load_at:
            # the root key is loaded AFTER a (possibly non-covering) envelope was cached: from here on every position is covered
            ops.append({"op": "load_key", "rk": 0})
            plan["root_key_loaded_later"] = True
        if k_ == prot_at:
            # a protect naming the root key in between: served from the cached seed when that covers "now"; whatever it leaves in the
            # cache must still derive every earlier position
            ops.append({"op": "protect", "fl": r2.choice(("sync", "async")), "sid": SID, "rk": 0, "net": "offline", "data": 3})
        r = rng.random()
        if r < 0.2:
            p = (l1p, l2p)
        elif r < 0.4:
            p = (l1p, rng.randrange(0, l2p + 1))
        elif r < 0.6 and l1p:
            p = (l1p - 1, rng.choice((0, 31, rng.randrange(32))))
        elif r < 0.8 and l1p:
            p = (rng.randrange(0, l1p), rng.choice((0, 31, rng.randrange(32))))
        else:
            p = (rng.randrange(32), rng.randrange(32))
        ops.append({"op": "unprotect", "fl": rng.choice(("sync", "async")), "net": "offline",
                    "blob": {"rk": 0, "sid": SID, "pos": [L0, p[0], p[1]], "mode": rng.choice(("nonce", "nonce", "pub")), "data": 9,
                             "trailing": rng.random() < 0.2}})
    plan["seedpos"] = [l1p, l2p]
    return plan


def gen_clock_history(rng, i: int) -> dict:
    """Protects served from cached seed material while the wall clock moves with every reading and an interval boundary passes during
    a call: the blob must carry the chain key of the position it is labelled with (the reference opens it from the root key)."""
    hash_name = offline.HASHES[i % 4]
    l1, l2 = rng.choice(((31, 31), (31, 31), (4, 31), (4, 7), (0, 0), (rng.randrange(32), rng.randrange(32))))
    tick = rng.choice((100, 100, 300, 900, 2500))
    boundary = gkdi.interval_start_filetime(L0, l1, l2) + gkdi.B
    start = rng.choice(("rootkey", "rootkey", "rpc"))
    plan = {"seed": rng.getrandbits(31), "clock_ft": boundary - rng.randrange(1, 16) * (tick // 100) + rng.randrange(0, max(1, tick // 100)), "clock_tick_ns": tick,
            "root_keys": [[78, hash_name, rng.choice(offline.SECRETS)]], "caller_sids": [SID], "ctx": {"kind": "stub", "legs": 2, "sig": 16},
            "dc": {"omit_l2_at_31": rng.random() < 0.5}, "ops": [], "kind": "clock", "clock_boundary": boundary, "start": start}
    ops = plan["ops"]
    net = "offline" if start == "rootkey" else "online"
    if start == "rootkey":
        ops.append({"op": "load_key", "rk": 0})
    else:
        # (seed material from the DC for the interval before the boundary; with the DC reachable a protect after the boundary asks again)
        plan["clock_ft"] -= 40 * (tick // 100)
        ops.append({"op": "protect", "fl": rng.choice(("sync", "async")), "sid": SID, "rk": 0, "net": "online", "data": 3})
    n = rng.randint(1, 3)
    for _ in range(n):
        ops.append({"op": "protect", "fl": rng.choice(("sync", "async")), "sid": SID, "rk": 0, "net": net, "data": 11})
    first = len(ops) - n
    for k_ in range(n):
        ops.append({"op": "unprotect", "fl": rng.choice(("sync", "async")), "net": net, "blob": {"from_op": first + k_}})
    return plan


def gen_thread_reload_history(rng, i: int) -> dict:
    """The root key is (re)loaded by one caller thread while another one protects with it; afterwards, DC unreachable, blobs of
    earlier positions must still derive (the root key covers every position, whatever the overlapping calls left in the cache)."""
    from checks import threadpure

    hash_name = offline.HASHES[i % 4]
    now = gkdi.interval_start_filetime(L0, 31, 31) + 9
    plan = {"seed": rng.getrandbits(31), "clock_ft": now, "root_keys": [[78, hash_name, rng.choice(offline.SECRETS)]], "caller_sids": [SID],
            "ctx": {"kind": "stub", "legs": 2, "sig": 16}, "dc": {}, "ops": [], "kind": "history", "seedpos": [31, 31], "family": "thread-reload",
            "threads": {"mode": "prob", "p": rng.choice((0.02, 0.05, 0.15))} if i % 3 == 0 else threadpure.policy_for(i)}
    ops = plan["ops"]
    ops.append({"op": "load_key", "rk": 0})
    members = [{"op": "protect", "fl": "thread", "group": 1, "sid": SID, "rk": 0, "net": "offline", "data": 3},
               {"op": "load_key", "fl": "thread", "group": 1, "rk": 0}]
    if rng.random() < 0.4:
        members.append({"op": "protect", "fl": "thread", "group": 1, "sid": SID, "rk": 0, "net": "offline", "data": 4})
    rng.shuffle(members)
    ops.extend(members)
    for _ in range(rng.randint(2, 4)):
        p = (rng.randrange(32), rng.choice((0, 31, rng.randrange(32))))
        ops.append({"op": "unprotect", "fl": rng.choice(("sync", "async")), "net": "offline",
                    "blob": {"rk": 0, "sid": SID, "pos": [L0, p[0], p[1]], "mode": rng.choice(("nonce", "nonce", "pub")), "data": 9}})
    return plan


def gen_two_sids_history(rng, i: int) -> dict:
    """Two principals' records at the same key position are opened at the same time on one shared cache that starts empty (async
    tasks of one loop, or caller threads): each (root key, SD) has its own chain.  Afterwards, DC unreachable, earlier positions
    of BOTH security descriptors must derive from what the overlapping calls left in the cache."""
    from checks import threadpure

    hash_name = offline.HASHES[i % 4]
    l1p, l2p = rng.choice(((31, 31), (7, 31), (7, 12), (rng.randrange(1, 32), rng.randrange(32))))
    now = gkdi.interval_start_filetime(L0, 31, 31) + 9
    fl = ("async", "thread")[i % 2]
    plan = {"seed": rng.getrandbits(31), "clock_ft": now, "root_keys": [[78, hash_name, rng.choice(offline.SECRETS)]], "caller_sids": [SID, offline.SID_B],
            "ctx": {"kind": "stub", "legs": 2, "sig": 16}, "dc": {"omit_l2_at_31": rng.random() < 0.5}, "ops": [], "kind": "two-sids", "seedpos": [l1p, l2p],
            "latency_us": [1, rng.choice((50, 5000, 200000))]}
    if fl == "thread":
        plan["threads"] = {"mode": "marks", "q": rng.choice((0.3, 0.6, 0.9)), "p": rng.choice((0.0, 0.02))} if i % 4 == 1 else threadpure.policy_for(i // 2)
    ops = plan["ops"]
    sids = [SID, offline.SID_B] + ([SID] if rng.random() < 0.3 else [])
    for sid in sids:
        ops.append({"op": "unprotect", "fl": fl, "group": 1, "net": "online", "blob": {"rk": 0, "sid": sid, "pos": [L0, l1p, l2p], "mode": "nonce", "data": 5}})
    for _ in range(rng.randint(2, 4)):
        p = (rng.randrange(0, l1p + 1), rng.choice((0, 31, rng.randrange(32))))
        if p > (l1p, l2p):
            p = (l1p, min(p[1], l2p))
        ops.append({"op": "unprotect", "fl": rng.choice(("sync", "async")), "net": "offline",
                    "blob": {"rk": 0, "sid": rng.choice((SID, offline.SID_B)), "pos": [L0, p[0], p[1]], "mode": rng.choice(("nonce", "pub")), "data": 9}})
    return plan


def run_two_sids(plan) -> dict:
    tr = P.execute_plan(plan)
    probes = {"two_sids_at_once": 1, "thread_overlap": tr.world.stats.get("toverlap", 0)}
    viol = None
    for ot in tr.ops:
        pos = tuple(ot.blob_spec["pos"][1:])
        if ot.outcome.kind != "ok" or ot.outcome.value != ot.plaintext:
            et, frame = drive.exc_sig(ot.outcome)
            first = ot.op.get("group") == 1
            viol = common.violation("C02", "derivation", "two-sids-" + ot.op["fl"], et if ot.outcome.kind != "ok" else "wrong-plaintext", frame, "at-once" if first else "afterwards",
                                    f"{'one of the overlapping online calls' if first else 'a later offline call'} for {ot.blob_spec['sid'][-8:]} at {pos} (the cache was filled by "
                                    f"overlapping calls for two security descriptors at {tuple(plan['seedpos'])}) gave {ot.outcome.brief()} {ot.outcome.exc!r}")
            break
    return {"viol": viol, "digest": tr.world.digest(), "key": common.key_hash(plan), "sched_key": common.key_hash(tr.schedule) if tr.schedule else None,
            "fired": {"partition_or_offline": sum(1 for o in plan["ops"] if o.get("net") == "offline"), "thread_preemptions": tr.world.stats.get("tswitch", 0)},
            "probes": probes, "vtime_ns": tr.world.stats.get("vtime_ns", 0)}


def run_clock(plan) -> dict:
    tr = P.execute_plan(plan)
    probes: t.Dict[str, int] = {"clock_histories": 1}
    viol = None
    for ot in tr.ops:
        if ot.op["op"] == "load_key":
            continue
        if ot.op["op"] == "protect":
            try:
                parsed = cms.parse_blob(ot.outcome.value) if ot.outcome.kind == "ok" else None
                ok = parsed is not None and cms.unprotect_parsed(parsed, tr.root_keys[0])[0] == ot.plaintext
            except Exception:  # noqa: BLE001
                ok = False
            if parsed is not None:
                kid = parsed["key_identifier"]
                if gkdi.interval_start_filetime(kid["l0"], kid["l1"], kid["l2"]) >= plan["clock_boundary"]:
                    probes["clock_boundary_passed_before_key_id"] = 1
            if not ok:
                et, frame = drive.exc_sig(ot.outcome)
                viol = common.violation("C02", "derivation", "moving-clock-protect-" + plan["start"], et if ot.outcome.kind != "ok" else "blob-not-openable", frame, "",
                                        f"protect with covering seed material ({plan['start']}) while an interval boundary passes gave {ot.outcome.brief()} {ot.outcome.exc!r}; "
                                        f"key id in blob {None if parsed is None else (kid['l0'], kid['l1'], kid['l2'])}")
                break
        else:
            if ot.outcome.kind != "ok" or ot.outcome.value != ot.plaintext:
                et, frame = drive.exc_sig(ot.outcome)
                viol = common.violation("C02", "derivation", "moving-clock-unprotect-" + plan["start"], et if ot.outcome.kind != "ok" else "wrong-plaintext", frame, "",
                                        f"unprotect of a blob this cache just produced gave {ot.outcome.brief()} {ot.outcome.exc!r}")
                break
    return {"viol": viol, "digest": tr.world.digest(), "key": common.key_hash(plan), "fired": {}, "probes": probes, "vtime_ns": tr.world.stats.get("vtime_ns", 0)}


def run_history(plan) -> dict:
    tr = P.execute_plan(plan)
    probes: t.Dict[str, int] = {}
    viol = None
    if plan["kind"] == "byz":
        ot = tr.ops[0]
        probes["byzantine_reply"] = 1
        if ot.outcome.kind != "raise":
            et, frame = drive.exc_sig(ot.outcome)
            viol = common.violation("C02", "non-covering", "byzantine-reply", "returned-bytes" if ot.outcome.kind == "ok" else ot.outcome.kind, frame, "",
                                    f"DC answered a request for {ot.blob_spec['pos']} with an envelope for {plan['dc']['byz']['reply_position']}: outcome {ot.outcome.brief()} {ot.outcome.exc!r}")
    else:
        l1p, l2p = plan["seedpos"]
        first = tr.ops[0]
        if first.outcome.kind != "ok" or (first.op["op"] == "unprotect" and first.outcome.value != first.plaintext):
            et, frame = drive.exc_sig(first.outcome)
            return {"viol": common.violation("C02", "derivation", "history-seed-step", et, frame, "",
                                             f"online unprotect at the envelope's own position ({l1p},{l2p}) against a conforming DC failed: {first.outcome.exc!r}"),
                    "digest": tr.world.digest(), "key": common.key_hash(plan), "fired": {}, "probes": probes, "vtime_ns": 0}
        for ot in tr.ops[1:]:
            if ot.op["op"] == "load_key":
                l1p, l2p = 31, 31
                probes["history_root_key_loaded_later"] = 1
                continue
            if ot.op["op"] == "protect":
                if (l1p, l2p) == (31, 31):
                    probes["history_protect_from_seed"] = 1
                    try:
                        ok = ot.outcome.kind == "ok" and cms.unprotect_parsed(cms.parse_blob(ot.outcome.value), tr.root_keys[0])[0] == ot.plaintext
                    except Exception:  # noqa: BLE001
                        ok = False
                    if not ok:
                        et, frame = drive.exc_sig(ot.outcome)
                        viol = common.violation("C02", "derivation", "history-protect", et if ot.outcome.kind != "ok" else "blob-not-openable", frame, "",
                                                f"seed material at (31,31) covers the current interval but the offline protect gave {ot.outcome.brief()} {ot.outcome.exc!r}")
                        break
                continue
            pos = tuple(ot.blob_spec["pos"][1:])
            if pos <= (l1p, l2p):
                probes["history_cover"] = probes.get("history_cover", 0) + 1
                if ot.outcome.kind != "ok" or ot.outcome.value != ot.plaintext:
                    et, frame = drive.exc_sig(ot.outcome)
                    viol = common.violation("C02", "derivation", "history-" + ot.op["fl"], et if ot.outcome.kind != "ok" else "wrong-plaintext", frame, "",
                                            f"seed material at ({l1p},{l2p}) covers {pos} but offline unprotect gave {ot.outcome.brief()} {ot.outcome.exc!r}")
                    break
                if ot.getkeys:
                    viol = common.violation("C02", "derivation", "history", "went-online", "", "", "covering material in the cache but the DC was contacted")
                    break
            else:
                probes["history_noncover"] = probes.get("history_noncover", 0) + 1
                if ot.outcome.kind == "ok":
                    viol = common.violation("C02", "non-covering", "history", "returned-bytes", "", "", f"({l1p},{l2p}) does not cover {pos}, DC unreachable, yet bytes were returned")
                    break
                if ot.outcome.kind != "raise":
                    viol = common.violation("C02", "non-covering", "history", ot.outcome.kind, drive.exc_sig(ot.outcome)[1], "", f"{ot.outcome.exc!r}")
                    break
    return {"viol": viol, "digest": tr.world.digest(), "key": common.key_hash(plan), "fired": {"partition_or_offline": sum(1 for o in plan["ops"] if o.get("net") == "offline")},
            "probes": probes, "vtime_ns": tr.world.stats.get("vtime_ns", 0)}


class C02(common.Check):
    id = "C02"
    level = "exploration"
    rule = ("cases: (a) lattice - an envelope for (L1',L2') obtained from the reference DC through the real RPC client in each shape the spec "
            "allows (L1 key for L1' at L2'=31 else L1'-1, absent at L1'=0; L2 key present/omitted at L2'=31), or built by the cache from a root "
            "key, then get_kek for every covered (L1,L2) compared with the independent MS-GKDI chain and a sample of non-covered positions "
            "that must raise within 300 KDF calls, plus requested indexes outside 0..31; a sample of these in a child interpreter with assertions compiled out; thorough: all 1024 (L1',L2') x 2 shapes for SHA512 (= the full 32x32 x 32x32 lattice) and a "
            "1/8 sample for the other hashes; quick: 48 (L1',L2') per hash biased to branch corners; (b) API histories [online unprotect at p' / "
            "load_key -> DC unreachable -> unprotect blobs at p, with a cache-served protect and / or a later load_key of the root key in between]; "
            "(b') cache-served protects (root key loaded, or seed from the DC) under a wall clock that moves with every reading while an L0/L1/L2 boundary passes: the reference must open the blob at the position it is labelled with; "
            "(b'') records of two security descriptors at one key position opened at the same time (async tasks / caller threads) on one empty shared cache, then earlier positions of both with the DC unreachable; "
            "(c) Byzantine DC answering with an envelope for an earlier position; (d) 2..4 caller threads of one process deriving keys at "
            "the same time on separate caches (deterministic thread scheduler): every key must equal the one derived alone. "
            "Each (seed position, requested position, shape, hash) pair counts as one evaluation. Non-trivial = pair with p != p' or a "
            "Byzantine/offline step; distinct = distinct pair / plan.")
    components = {"client": "real (GroupKeyEnvelope.get_kek, compute_l2_key, KeyCache, RPC client for obtaining the envelope, public API in histories)",
                  "DC": "model (RefDC) incl. Byzantine reply knob", "reference chain": "ref.gkdi (hashlib/hmac), calibrated on the Windows vectors",
                  "transport": "simulated; 'DC unreachable' = partition"}
    assumptions = ["the lattice sweep is enumeration of workload parameters through a two-step simulated history; simulation-specific: envelope via RPC, partition, Byzantine reply"]
    required_fired = ("cover_same", "cover_same-l1", "cover_l1-1", "cover_lower", "noncover", "shape_l2_omitted", "shape_l1_absent", "history_cover",
                      "history_noncover", "history_protect_from_seed", "history_root_key_loaded_later", "thread_cases", "thread_overlap", "byzantine_reply", "root_key_reloaded_with_other_parameters", "root_key_with_odd_edge_bytes", "clock_histories", "clock_boundary_passed_before_key_id", "index_out_of_range", "lattice_with_assertions_compiled_out", "two_sids_at_once")

    def exhaustive(self, tier):
        return tier == "thorough"

    exhaustive_note = "thorough: full 32x32 x 32x32 lattice x both envelope shapes for SHA512"

    def cases(self, tier, seed):
        rng = prng.stream(seed, "C02")
        out: t.List[t.Any] = []
        for hi, h in enumerate(offline.HASHES):
            if tier == "thorough" and h == "SHA512":
                pts = [(a, b_) for a in range(32) for b_ in range(32)]
            else:
                corners = [(0, 0), (0, 31), (31, 31), (31, 0), (1, 31), (1, 0), (30, 31), (15, 31), (0, 5)]
                n = 120 if tier == "thorough" else 30
                pts = corners + [(rng.randrange(32), rng.choice((31, rng.randrange(32)))) for _ in range(n)]
            for a, b_ in pts:
                for omit in ((0, 1) if b_ == 31 else (0,)):
                    out.append(["lattice", h, "dc", a, b_, omit])
            out.append(["lattice", h, "rootkey", 31, 31, 0])
            out.append(["lattice", h, "rootkey", 31, 31, 1])  # ... after the same key id was used with other parameters
            for edges in ([0x20, 0x0A], [0x09, 0x41], [0x42, 0x0D], [0x00, 0x00], [0x0B, 0x0C]):
                out.append(["lattice", h, "rootkey", 31, 31, 0, edges])
                out.append(["lattice", h, "dc", 7, 31 if edges[0] % 2 else 9, 0, edges])
        # a sample of the lattice in a child interpreter started with assertions compiled out (PYTHONOPTIMIZE=1)
        for k, c in enumerate([c for c in out if c[2] == "rootkey" and len(c) == 6][:4] + [c for c in out if c[2] == "dc" and len(c) == 6][:: max(1, len(out) // (12 if tier == "quick" else 200))]):
            out.append(["optimized", c])
        n_hist = 1200 if tier == "quick" else 40000
        for i in range(n_hist):
            out.append(gen_history(rng, i))
        for i in range(500 if tier == "quick" else 20000):
            out.append(gen_clock_history(rng, i))
        for i in range(400 if tier == "quick" else 16000):
            out.append(gen_thread_reload_history(rng, i))
        for i in range(400 if tier == "quick" else 16000):
            out.append(gen_two_sids_history(rng, i))
        from checks import threadpure

        for k in range(900 if tier == "quick" else 30000):
            # (long uninterrupted stretches matter here as much as frequent switches: a thread parked at one line while another one
            # runs a whole derivation)
            pol = {"mode": "prob", "p": (0.003, 0.01, 0.03)[k % 3]} if k % 5 < 3 else threadpure.policy_for(k, seams=False)
            out.append(["threads", rng.getrandbits(30), 2 + k % 2, pol])
        return out

    def run_case(self, case):
        if isinstance(case, list) and case[0] == "threads":
            return run_threads(case)
        if isinstance(case, list) and case[0] == "optimized":
            v = common.run_case_fresh("C02", case[1], env={"PYTHONOPTIMIZE": "1"})
            if v:
                v = {"sig": v["sig"] + "/python-O", "detail": "interpreter with assertions compiled out (PYTHONOPTIMIZE=1): " + v["detail"]}
            return {"viol": v, "digest": "opt:" + (v["sig"] if v else "ok"), "key": common.key_hash(case), "fired": {}, "probes": {"lattice_with_assertions_compiled_out": 1}, "vtime_ns": 0}
        if isinstance(case, list):
            return run_lattice(case)
        if case.get("kind") == "clock":
            return run_clock(case)
        if case.get("kind") == "two-sids":
            return run_two_sids(case)
        return run_history(case)

    def shrink(self, case):
        if isinstance(case, list) and case[0] == "threads":
            from checks import threadpure

            yield from threadpure.shrinks(case, 3, 2, run_threads)
            return
        if isinstance(case, list) and case[0] == "optimized":
            return
        if isinstance(case, dict):
            yield from P.thread_shrinks(case)
            ops = case["ops"]
            for i in range(1, len(ops)):
                if len(ops) > 2:
                    yield dict(case, ops=ops[:i] + ops[i + 1 :])
            for i, o in enumerate(ops):
                if o.get("fl") == "async":
                    yield dict(case, ops=ops[:i] + [dict(o, fl="sync")] + ops[i + 1 :])

    def sample_repr(self, case, res):
        if isinstance(case, list) and case[0] == "threads":
            return dict(zip(("kind", "seed", "n_threads", "policy"), case))
        if isinstance(case, list) and case[0] == "optimized":
            return {"kind": "lattice case in a child interpreter with PYTHONOPTIMIZE=1", "case": case[1]}
        if isinstance(case, list):
            return dict(zip(("kind", "hash", "seed_source", "l1'", "l2'", "l2_key_omitted", "root_key_first_last_byte"), case))
        return {"kind": case["kind"], "seed_position": case.get("seedpos"), "byz": case["dc"].get("byz"),
                "ops": [(o["op"], o.get("net"), (o.get("blob") or {}).get("pos")) for o in case["ops"]]}


CHECK = C02()
