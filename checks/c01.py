"""C01 - protect then unprotect returns the plaintext for every input, config and time.

Simulated: the clock (protect instant incl. interval-boundary instants, advance
between the two calls across L2/L1/L0 boundaries), API flavour, online/offline
path on either side, DC envelope shape, blob re-layout at rest (LAPS style).
"""
from __future__ import annotations

import random
import typing as t

from checks import common, drive, offline, plan as P
from ref import cms, gkdi
from simworld import prng

B = gkdi.B
PT_LENS = (0, 1, 15, 16, 17, 31, 32, 33, 255, 256, 65535, 65536)


def gen_plan(rng, i: int, tier: str) -> dict:
    hash_name = offline.HASHES[i % 4]
    secret = offline.SECRETS[(i // 4) % 3]
    rk = [i % 7, hash_name, secret]
    nsub = 1 + i % 15
    sid = offline.sid_shape(nsub, i // 15)
    # protect instant: boundary-biased
    l0 = rng.randrange(330, 480)
    r = rng.random()
    if r < 0.25:
        ft = l0 * 1024 * B + rng.choice((-9, -8, -1, 0, 1))
    elif r < 0.5:
        ft = (l0 * 1024 + rng.randrange(1024)) * B + rng.choice((-1, 0, 1))
    elif r < 0.6:
        ft = (l0 * 1024 + rng.choice((31, 63, 32 * 31 + 31, 1023))) * B + rng.randrange(B)  # L2 = 31 positions
    else:
        ft = l0 * 1024 * B + rng.randrange(1024 * B)
    pmode = rng.choice(("offline", "online-seed", "online-seed", "online-pub"))
    umode = rng.choice(("offline", "online", "warm"))
    data = rng.choice(PT_LENS if tier == "thorough" else PT_LENS[:10] + (65535, 65536)[: (1 if i % 50 else 2)])
    if tier == "thorough" and i % 5000 == 0:
        data = 1 << 20
    plan = {"seed": rng.getrandbits(31), "clock_ft": ft, "root_keys": [rk], "caller_sids": [sid] if pmode != "online-pub" else [],
            "ctx": {"kind": "stub", "legs": rng.choice((2, 3)), "sig": rng.choice((16, 28, 60, 76))},
            "dc": {"omit_l2_at_31": rng.random() < 0.5, "domain": "d" * rng.randrange(0, 12) + ".test", "forest": "forest.test"},
            "delivery": rng.choice((None, {"mode": "rand", "seed": rng.getrandbits(16), "bias": "small"})),
            "ops": [], "pmode": pmode, "umode": umode}
    r2 = random.Random(plan["seed"])
    if r2.random() < 0.1:
        # the DC's services answer completely and then abort (or close) the connection at once
        plan["dc"]["after_response"] = r2.choice(("rst", "rst", "eof"))
    if r2.random() < 0.3:
        # the wall clock keeps moving: every reading is later than the one before, so a call that starts within a few ticks of an
        # interval boundary sees the boundary pass while it runs
        plan["clock_tick_ns"] = r2.choice((100, 900, 100_000))
    ops = plan["ops"]
    pfl, ufl = rng.choice(("sync", "async")), rng.choice(("sync", "async"))
    if pmode == "offline":
        ops.append({"op": "load_key", "rk": 0})
        ops.append({"op": "protect", "fl": pfl, "sid": sid, "rk": 0, "net": "offline", "data": data})
    else:
        ops.append({"op": "protect", "fl": pfl, "sid": sid, "rk": rng.choice((0, None)), "net": "online", "data": data})
    adv = rng.choice((0, 1, B - 1, B, 32 * B, 1024 * B, rng.randrange(0, 3 * 1024 * B)))
    if umode == "offline" and r2.random() < 0.35:  # (offline reader: a DC sharing the stepped-back clock would rightly refuse a key of its future)
        # the reader's wall clock is BEHIND the writer's (two hosts, an NTP step): by a tick, an L2 / L1 interval, or back over the
        # boundary the protect started just after
        adv = -r2.choice((1, 9, B - 1, B, 2 * B, 32 * B, 1 + ft % B, 1 + ft % (32 * B)))
        plan["reader_clock_behind"] = True
    if adv:
        ops.append({"op": "clock", "advance_ticks": adv})
    first = len(ops) - 1 - (1 if adv else 0)
    extra = None
    if rng.random() < 0.45:
        # a second protect on the SAME cache after the clock moved (refreshes the cached seed), for the same or another SID
        sid2 = sid if rng.random() < 0.5 else offline.sid_shape(1 + (i + 7) % 15, i + 11)
        if pmode == "offline":
            ops.append({"op": "protect", "fl": rng.choice(("sync", "async")), "sid": sid2, "rk": 0, "net": "offline", "data": 9})
        else:
            ops.append({"op": "identity", "sids": [sid, sid2] if pmode != "online-pub" else []})
            ops.append({"op": "protect", "fl": rng.choice(("sync", "async")), "sid": sid2, "rk": rng.choice((0, None)), "net": "online", "data": 9})
        extra = len(ops) - 1
        plan["second_sid"] = sid2
    relayout = rng.choice((False, False, False, True, "lib", "lib"))  # True = re-packed by the reference, "lib" = by DPAPINGBlob.pack(blob_in_envelope=False)
    blob = {"from_op": first, "relayout": relayout}
    if umode == "offline" and r2.random() < 0.5:
        # another process / host that holds the same root key and nothing else
        ops.append({"op": "load_key", "rk": 0, "cache": "reader"})
        ops.append({"op": "unprotect", "fl": ufl, "net": "offline", "blob": blob, "cache": "reader"})
        plan["reader_has_own_cache"] = True
    elif umode == "offline":
        if pmode != "offline":
            ops.append({"op": "load_key", "rk": 0})
        ops.append({"op": "unprotect", "fl": ufl, "net": "offline", "blob": blob})
    elif umode == "online":
        ops.append({"op": "identity", "sids": [sid]})
        ops.append({"op": "unprotect", "fl": ufl, "net": "online", "blob": blob, "cache": "fresh"})
    else:  # warm shared cache: whatever the protect left behind, DC reachable as an authorised principal
        ops.append({"op": "identity", "sids": [sid] + ([plan["second_sid"]] if extra is not None else [])})
        ops.append({"op": "unprotect", "fl": ufl, "net": "online", "blob": blob})
        ops.append({"op": "unprotect", "fl": rng.choice(("sync", "async")), "net": "online", "blob": blob})
    if extra is not None:
        # the second blob must round-trip too (same path as the first one)
        last = dict(ops[-1])
        if umode == "online":
            ops.append({"op": "identity", "sids": [sid, plan["second_sid"]]})
        ops.append(dict(last, blob={"from_op": extra, "relayout": rng.choice((False, "lib"))}))
    return plan


def gen_concurrent_plan(rng, i: int, tier: str) -> dict:
    """Round trips whose two halves overlap with other calls: (threads) several protects from caller threads of one process,
    (async) blobs of different positions in one L0 unprotected at the same time on a cache that starts empty."""
    from checks import threadpure

    hash_name = offline.HASHES[i % 4]
    secret = offline.SECRETS[(i // 4) % 3]
    # (a principal no earlier case of the process has dealt with: its first use happens here)
    sid = offline.sid_shape(1 + i % 14, i) + "-%d" % (50000 + i)
    l0 = rng.randrange(330, 480)
    ft = (l0 * 1024 + rng.randrange(0, 700)) * B + rng.randrange(B)
    kind = ("threads", "async")[i % 2]
    if i % 8 == 5:
        # bursts: 5..7 online round trips in flight at once on one event loop, every half (protects, then unprotects) on an event loop
        # of its own - a long-lived process that calls asyncio.run() more than once
        kind = "bursts"
    plan = {"seed": rng.getrandbits(31), "clock_ft": ft, "root_keys": [[i % 7, hash_name, secret]], "caller_sids": [sid],
            "ctx": {"kind": "stub", "legs": 2, "sig": 16}, "dc": {"omit_l2_at_31": rng.random() < 0.5, "domain": "d.test", "forest": "forest.test"},
            "delivery": rng.choice((None, {"mode": "rand", "seed": rng.getrandbits(16), "bias": "small"})), "latency_us": [1, rng.choice((50, 5000, 200000))],
            "ops": [], "pmode": rng.choice(("offline", "online-seed")), "umode": "warm", "family": "concurrent-" + kind}
    ops = plan["ops"]
    if kind == "bursts":
        plan["pmode"], plan["family"] = "online-seed", "concurrent-async"
        n = rng.randint(5, 7)
        for k in range(n):
            ops.append({"op": "protect", "fl": "async", "group": 1, "sid": sid, "rk": rng.choice((0, None)), "net": "online", "data": rng.choice((0, 7, 33)), "cache": "fresh"})
        for k in range(n):
            ops.append({"op": "unprotect", "fl": "async", "group": 2, "net": "online", "blob": {"from_op": k, "relayout": False}, "cache": "fresh"})
        plan["bursts"] = True
        return plan
    offline_p = plan["pmode"] == "offline"
    if offline_p:
        ops.append({"op": "load_key", "rk": 0})
    n = rng.randint(2, 3)
    prot_idx = []
    for k in range(n):
        if kind == "async" and k:
            ops.append({"op": "clock", "advance_ticks": rng.choice((B, 3 * B, 32 * B, 40 * B))})  # later blobs sit at later positions of the same L0
        ops.append({"op": "protect", "fl": "thread" if kind == "threads" else rng.choice(("sync", "async")), "group": 1 if kind == "threads" else None,
                    "sid": sid, "rk": 0 if offline_p else rng.choice((0, None)), "net": "offline" if offline_p else "online", "data": rng.choice((0, 7, 33))})
        prot_idx.append(len(ops) - 1)
    if kind == "threads":
        # (half of them pre-empt at / right after lines that touch process-wide state, where a first use by two threads collides)
        plan["threads"] = threadpure.policy_for(i) if (i // 2) % 2 else {"mode": "marks", "q": (0.3, 0.6, 0.9, 1.0)[(i // 4) % 4], "p": (0.0, 0.01)[(i // 16) % 2]}
        for k in prot_idx:
            ops.append({"op": "unprotect", "fl": rng.choice(("sync", "async")), "net": "offline" if offline_p else "online", "blob": {"from_op": k, "relayout": False}})
    else:
        # oldest first, all at once, on a second cache that holds nothing yet
        for k in prot_idx:
            ops.append({"op": "unprotect", "fl": "async", "group": 2, "net": "online", "blob": {"from_op": k, "relayout": False}, "cache": "second"})
    return plan


def gen_process_history_plan(rng, i: int, tier: str) -> dict:
    """Round trips that share a process with other round trips: (two-keys) one cache holding two root keys with different KDF hashes,
    used one after the other; (dc-restart) the key service restarts on another dynamic port between two online calls."""
    kind = ("two-keys", "dc-restart")[i % 2]
    sid = offline.sid_shape(1 + i % 15, i // 15)
    l0 = rng.randrange(330, 480)
    ft = (l0 * 1024 + rng.randrange(0, 1000)) * B + rng.randrange(B)
    h0, h1 = offline.HASHES[i % 4], offline.HASHES[(i + 1 + (i // 4) % 3) % 4]
    plan = {"seed": rng.getrandbits(31), "clock_ft": ft, "root_keys": [[i % 7, h0, offline.SECRETS[i % 3]], [7 + i % 5, h1, offline.SECRETS[(i // 3) % 3]]],
            "caller_sids": [sid], "ctx": {"kind": "stub", "legs": 2, "sig": 16}, "dc": {"omit_l2_at_31": rng.random() < 0.5, "domain": "d.test", "forest": "forest.test",
                                                                                   "gkdi_port": rng.randrange(1024, 65000)},
            "delivery": None, "ops": [], "pmode": "offline" if kind == "two-keys" else "online-seed", "umode": "online", "family": kind}
    ops = plan["ops"]
    fl = lambda: rng.choice(("sync", "async"))  # noqa: E731
    if kind == "two-keys":
        first = rng.randrange(2)
        ops.append({"op": "load_key", "rk": 0})
        ops.append({"op": "load_key", "rk": 1})
        for rk in (first, 1 - first, first):
            ops.append({"op": "protect", "fl": fl(), "sid": sid, "rk": rk, "net": "offline", "data": rng.choice((0, 9, 40))})
        for k in (2, 3, 4):
            ops.append({"op": "unprotect", "fl": fl(), "net": "online", "blob": {"from_op": k, "relayout": False}, "cache": "fresh"})
            ops.append({"op": "unprotect", "fl": fl(), "net": "offline", "blob": {"from_op": k, "relayout": False}})
    else:
        ops.append({"op": "protect", "fl": fl(), "sid": sid, "rk": rng.choice((0, None)), "net": "online", "data": 12, "cache": "fresh"})
        ops.append({"op": "unprotect", "fl": fl(), "net": "online", "blob": {"from_op": 0, "relayout": False}, "cache": "fresh"})
        ops.append({"op": "dc_restart", "port": rng.randrange(1024, 65000)})
        ops.append({"op": "unprotect", "fl": fl(), "net": "online", "blob": {"from_op": 0, "relayout": False}, "cache": "fresh"})
        ops.append({"op": "protect", "fl": fl(), "sid": sid, "rk": rng.choice((0, None)), "net": "online", "data": 12, "cache": "fresh"})
        ops.append({"op": "unprotect", "fl": fl(), "net": "online", "blob": {"from_op": 4, "relayout": False}, "cache": "fresh"})
    return plan


def judge(plan, tr: P.Trace):
    probes: t.Dict[str, int] = {}
    rk = tr.root_keys[0]
    prots = [ot for ot in tr.ops if ot.op["op"] == "protect"]
    if tr.dc.all_violations:
        return common.violation("C01", "dc-rejected-request", prots[0].op["fl"], "", "", "", f"reference DC saw a non-conforming request: {tr.dc.all_violations[:2]}"), probes
    probes["two_protects_one_cache"] = int(len(prots) > 1)
    for prot in prots:
        if plan.get("family") in ("two-keys", "dc-restart") and prot.outcome.kind == "ok":
            try:  # (several root keys in play: the blob says which one it was made for)
                rk = next(r for r in tr.root_keys if r.root_key_id == cms.parse_blob(prot.outcome.value)["key_identifier"]["root_key_id"])
            except Exception:  # noqa: BLE001
                rk = tr.root_keys[prot.op.get("rk") or 0]
        v = _judge_protect(plan, tr, prot, rk, probes)
        if v:
            return v, probes
    return None, probes


def _judge_protect(plan, tr, prot, rk, probes):
    fl = prot.op["fl"]
    second = prot is not [ot for ot in tr.ops if ot.op["op"] == "protect"][0]
    if prot.outcome.kind != "ok":
        et, frame = drive.exc_sig(prot.outcome)
        return common.violation("C01", "protect-failed", fl + "-" + plan["pmode"], et, frame, "second-protect" if second else "", f"protect failed: {prot.outcome.exc!r}")
    blob = prot.outcome.value
    try:
        p = cms.parse_blob(blob)
        ref_pt = cms.unprotect_parsed(p, rk)[0]
    except Exception as e:  # noqa: BLE001
        pos = None
        try:
            k = cms.parse_blob(blob)["key_identifier"]
            pos = (k["l0"], k["l1"], k["l2"])
        except Exception:  # noqa: BLE001
            pass
        cond = "l2-31" if pos and pos[2] == 31 else ""
        return common.violation("C01", "reference-cannot-open", fl + "-" + plan["pmode"], type(e).__name__, "", cond,
                                f"the emitted blob (position {pos}) cannot be opened with the right root key by the reference: {e!r}; "
                                f"envelope l2 omitted by DC: {[g.get('l2_omitted') for g in prot.getkeys]}")
    if ref_pt != prot.plaintext:
        return common.violation("C01", "reference-plaintext-differs", fl, "", "", "", "reference decrypts the blob to different bytes")
    kid = p["key_identifier"]
    probes["mode_" + ("pub" if kid["flags"] & 1 else "nonce")] = 1
    probes["pos_l2_31"] = int(kid["l2"] == 31)
    probes["pt_big"] = int(len(prot.plaintext) >= 65535)
    for ot in tr.ops:
        if ot.op["op"] != "unprotect" or ot.op["blob"].get("from_op") != prot.idx:
            continue
        ufl = ot.op["fl"]
        probes["relayout"] = probes.get("relayout", 0) + int(bool(ot.op["blob"].get("relayout")))
        probes["relayout_by_library"] = probes.get("relayout_by_library", 0) + int(ot.op["blob"].get("relayout") == "lib")
        if ot.outcome.kind != "ok":
            et, frame = drive.exc_sig(ot.outcome)
            return common.violation("C01", "unprotect-failed", ufl + "-" + plan["umode"], et, frame, "",
                                    f"unprotect of the blob made by {plan['pmode']} protect failed: {ot.outcome.exc!r}")
        if ot.outcome.value != prot.plaintext:
            return common.violation("C01", "wrong-plaintext", ufl + "-" + plan["umode"], "", "", "",
                                    f"round trip returned {ot.outcome.value[:16]!r}... instead of {prot.plaintext[:16]!r}...")
        probes["roundtrip_ok"] = probes.get("roundtrip_ok", 0) + 1
    return None


class C01(common.Check):
    id = "C01"
    level = "exploration"
    rule = ("case = plan [set simulated clock (interval-boundary biased); protect via offline root-key cache | online seed-key reply | online "
            "public-key reply - in 30% of the plans under a wall clock that advances 1..1000 ticks per reading, so that a call starting just "
            "before an L0 boundary sees it pass; advance clock (0, 1 tick, across L2/L1/L0 boundaries); optionally a second protect on the same cache (same or "
            "another SID) after the clock moved; optional re-layout of the stored blob (ciphertext "
            "trailing the envelope); unprotect via offline root key | online as authorised principal with a fresh cache | warm shared cache "
            "(twice)], both flavours on either side, PRNG TCP segmentation, DC envelope shape knob (L2 key omitted at L2=31), 4 hashes x "
            "{DH, P256, P384}, SIDs with 1..15 sub-authorities incl. 0 and 2^32-1, plaintext lengths 0..65536 (1 MiB in thorough). Plus round trips "
            "whose halves overlap with other calls: 2..3 protects from caller threads of one process (deterministic thread scheduler), and blobs "
            "of different positions of one L0 unprotected at the same time (async, oldest first) on a cache that starts empty; one cache holding two root keys with different KDF hashes used in turn; the key "
            "service restarting on another dynamic port between two online calls; bursts of 5..7 online round trips in flight at once, protects on one event loop and unprotects on a second one; an offline reader (same cache, or a cache of its own holding only the root key) whose wall clock is behind the writer's by a tick up to an L1 interval; DC services that abort or close the connection right after every complete Response. "
            "Non-trivial = every plan (distinct clock / path / shape combination); distinct = distinct plan.")
    components = {"client": "real (public API both flavours, KeyCache, RPC client, codecs, crypto)", "DC": "model (RefDC, independent derivation)",
                  "clock / entropy / network": "simulated", "security context": "stub (StubCtx)", "cross-check": "ref.cms decrypts every emitted blob"}
    assumptions = ["client and DC share the simulated clock in C01 plans (skew is C17's subject)"]
    required_fired = ("mode_pub", "mode_nonce", "pos_l2_31", "relayout", "relayout_by_library", "roundtrip_ok", "pt_big", "two_protects_one_cache", "moving_clock", "l0_boundary_during_protect", "concurrent_threads", "concurrent_async", "thread_overlap", "two_root_keys_one_cache", "dc_restarted", "reader_clock_behind_writer", "reader_clock_behind_with_own_cache", "connection_aborted_after_reply", "async_bursts_on_two_event_loops")

    def cases(self, tier, seed):
        rng = prng.stream(seed, "C01")
        n = 2400 if tier == "quick" else 120000
        rng2 = prng.stream(seed, "C01", "concurrent")
        rng3 = prng.stream(seed, "C01", "process-history")
        return [gen_plan(rng, i, tier) for i in range(n)] + [gen_concurrent_plan(rng2, i, tier) for i in range(700 if tier == "quick" else 30000)] + \
            [gen_process_history_plan(rng3, i, tier) for i in range(300 if tier == "quick" else 15000)]

    def run_case(self, case):
        tr = P.execute_plan(case)
        viol, probes = judge(case, tr)
        if case.get("family") == "concurrent-threads":
            probes["concurrent_threads"] = 1
            probes["thread_overlap"] = tr.world.stats.get("toverlap", 0)
        if case.get("family") == "concurrent-async":
            probes["concurrent_async"] = 1
        if case.get("family") == "two-keys":
            probes["two_root_keys_one_cache"] = 1
        if case.get("family") == "dc-restart":
            probes["dc_restarted"] = tr.world.stats.get("dc_restart", 0)
        if case.get("bursts"):
            probes["async_bursts_on_two_event_loops"] = 1
        if case.get("reader_clock_behind"):
            probes["reader_clock_behind_writer"] = 1
            probes["reader_clock_behind_with_own_cache"] = int(bool(case.get("reader_has_own_cache")))
        if (case.get("dc") or {}).get("after_response"):
            probes["connection_aborted_after_reply"] = 1
        if case.get("clock_tick_ns"):
            probes["moving_clock"] = 1
            d0 = case["clock_ft"] % (1024 * B)
            probes["l0_boundary_during_protect"] = int(0 < 1024 * B - d0 <= case["clock_tick_ns"] // 100)
        st = tr.world.stats
        return {"viol": viol, "digest": tr.world.digest(), "key": common.key_hash(case),
                "fired": {"clk": st.get("clk", 0), "seg": st.get("seg", 0), "choice_points": st.get("choice_points", 0)},
                "probes": probes, "vtime_ns": st.get("vtime_ns", 0)}

    def shrink(self, case):
        yield from P.thread_shrinks(case)
        if case.get("delivery"):
            yield dict(case, delivery=None)
        if case.get("clock_tick_ns"):
            yield dict(case, clock_tick_ns=0)
        ops = case["ops"]
        for i, o in enumerate(ops):
            if o["op"] == "clock":
                yield dict(case, ops=ops[:i] + ops[i + 1 :]) if False else dict(case, ops=[dict(x) if x is not o else dict(o, advance_ticks=0) for x in ops])
            if o.get("fl") == "async":
                yield dict(case, ops=[dict(x) if x is not o else dict(o, fl="sync") for x in ops])
            if o.get("data", 0) > 16:
                yield dict(case, ops=[dict(x) if x is not o else dict(o, data=16) for x in ops])
            if o["op"] == "unprotect" and o["blob"].get("relayout"):
                yield dict(case, ops=[dict(x) if x is not o else dict(o, blob=dict(o["blob"], relayout=False)) for x in ops])
        if len([o for o in ops if o["op"] == "unprotect"]) > 1:
            yield dict(case, ops=ops[:-1])

    def sample_repr(self, case, res):
        return {"clock_ft": case["clock_ft"], "interval": gkdi.interval_of_filetime(case["clock_ft"]), "root_key": case["root_keys"][0],
                "protect": case["pmode"], "unprotect": case["umode"], "omit_l2_at_31": case["dc"]["omit_l2_at_31"],
                "ops": [(o["op"], o.get("fl"), o.get("net"), o.get("data"), o.get("advance_ticks")) for o in case["ops"]]}


CHECK = C01()
