"""C13 - request framing: lengths, alignment, exactly the stub region is sealed;
reply path strips exactly the declared auth padding.

Two-party wire observation: the real client writes to the simulated transport;
an independent receiver (ref.rpce + StubAcceptor) decodes it; the scripted
security context records exactly what it was handed.
"""
from __future__ import annotations

import random
import typing as t
import uuid

from checks import common, drive
from ref import cms, gkdi, refdc, rpce
from simworld import peers, prng, world as W

ECHO_IF = (uuid.UUID("11111111-2222-3333-4444-555555555555"), 1, 0)
DC = "dc01.domain.test"


def _vt_variants():
    import dpapi_ng._rpc as rpc

    iface = rpc.SyntaxId(*ECHO_IF)
    return {
        0: None,
        1: rpc.VerificationTrailer([rpc.CommandPContext(flags=rpc.CommandFlags.SEC_VT_COMMAND_END, interface_id=iface, transfer_syntax=rpc.NDR64)]),
        2: rpc.VerificationTrailer([
            rpc.CommandBitmask(flags=rpc.CommandFlags.NONE, bits=1),
            rpc.CommandPContext(flags=rpc.CommandFlags.SEC_VT_COMMAND_END, interface_id=iface, transfer_syntax=rpc.NDR64)]),
    }


def _expected_vt(variant: int) -> t.Optional[bytes]:
    pc = rpce.vt_pcontext(ECHO_IF, rpce.NDR64, end=True)
    if variant == 0:
        return None
    if variant == 1:
        return rpce.build_vt([pc])
    return rpce.build_vt([(rpce.VT_BITMASK, b"\x01\x00\x00\x00"), pc])


def run_seq_case(case) -> dict:
    """["seq", flavour, [sig sizes...], stub_len, vt]: several authenticated connections one after the other in the same process,
    each with a security context of a different signature size; every request must be framed for *its* context."""
    _, fl, sigs, n, vtv = case
    res = None
    for k, sig in enumerate(sigs):
        res = run_request_case(["req", fl, n + k, vtv, sig, (k + 1) % 2, 1])
        if res["viol"]:
            v = res["viol"]
            res["viol"] = {"sig": v["sig"].replace("C13/request-framing/", "C13/request-framing-sequence/"),
                           "detail": f"connection #{k + 1} of the sequence {sigs}: " + v["detail"]}
            break
    res["key"] = common.key_hash(case)
    res["probes"] = dict(res.get("probes") or {}, seq_connections=len(sigs))
    return res


def run_request_case(case) -> dict:
    """case: ["req", flavour, stub_len, vt variant, sig, hs, auth(1/0)] - optional 8th element: further stub lengths for more requests on
    the SAME connection.  hs: 1 = the server advertises header signing, 0 = it does not, 2 = it does not in its bind_ack but sets the
    0x04 flag bit on the alter_context_resp (the client did not advertise on its alter_context then: still no header signing);
    3 / 4 = like 1 / 0 but the security trailers of the server's acks say authentication level 5 / 2 instead of 6 (the request
    must still be sealed at PKT_PRIVACY)."""
    import dpapi_ng._rpc as rpc
    import spnego.iov as siov

    _, fl, n, vtv, sig, hs, auth = case[:7]
    more = list(case[7]) if len(case) > 7 else []
    lens = [n] + more
    world = W.World(n)
    if (n + sig + vtv) % 4 == 1:
        world.short_writes = {"max": (1, 16, 48, 100)[(n // 4) % 4]}  # socket.send() takes only that many bytes per call (sendall is unaffected)
    record: list = []
    cfg = {"legs": 2, "sig": sig}
    # what the security provider says about its signature size BEFORE the context is complete: the final size (most providers), a
    # refusal, or the size of a mechanism that is not the one finally negotiated
    early = (None, "raise", {16: 28, 28: 16, 60: 76, 76: 60}[sig])[(n + vtv + sig // 4) % 3]
    if early is not None and auth:
        cfg["sig_early"] = early
    stubs = [bytes((i * 31 + 7 + 13 * k) & 0xFF for i in range(m)) for k, m in enumerate(lens)]
    stub = stubs[0]

    def handler(server, conn, req):
        return ("response", b"\x11" * 8)

    srv = peers.RpcServer({ECHO_IF: handler}, drive.stub_acceptor_factory(cfg) if auth else None, dict({"header_sign": hs in (1, 3), "alter_resp_extra_flags": 4 if hs == 2 else 0}, **({"ack_auth_level": {3: 5, 4: 2}[hs]} if hs in (3, 4) else {})))
    world.add_route(DC, 135, srv)
    ctxs = [rpc.ContextElement(3, rpc.SyntaxId(*ECHO_IF), [rpc.NDR64])]
    vt = _vt_variants()[vtv]
    ap = "negotiate" if auth else None
    opnum = 5 + n % 7

    def sync_work():
        with rpc.create_rpc_connection(DC, 135, auth_protocol=ap) as c:
            c.bind(ctxs)
            r = None
            for st_ in stubs:
                r = c.request(3, opnum, st_, verification_trailer=vt)
            return r

    async def async_work():
        c = await rpc.async_create_rpc_connection(DC, 135, auth_protocol=ap)
        async with c:
            await c.bind(ctxs)
            r = None
            for st_ in stubs:
                r = await c.request(3, opnum, st_, verification_trailer=vt)
            return r

    with world.installed(ctx_factory=drive.stub_ctx_factory(cfg, record) if auth else None):
        out = drive.classify(sync_work) if fl == "sync" else drive.classify(lambda: drive.run_async(world, async_work, random.Random(n)))

    def V(cond, detail):
        return common.violation("C13", "request-framing", fl, cond, "", "",
                                f"{detail}; stub_len={lens if more else n} vt={vtv} sig={sig} header_sign={hs} auth={auth} outcome={out.brief()} {out.exc!r}")

    probes = {f"hs_{hs}_auth_{auth}": 1, f"residue_{n % 16}": 1}
    res = {"digest": world.digest() + out.brief(), "key": common.key_hash(case), "fired": {"second_party_observations": 1}, "probes": probes,
           "vtime_ns": world.stats.get("vtime_ns", 0), "viol": None}
    reqs = [e for e in srv.log if e.get("event") == "request"]
    if len(reqs) != len(lens):
        res["viol"] = V("no-request", f"receiver saw {len(reqs)} decodable request PDUs; log={[e.get('event') for e in srv.log]} {[e.get('error') for e in srv.log if e.get('error')]}")
        return res
    def judge_request(k_: int, n: int, stub: bytes):
        e = reqs[k_]
        raw, pdu = e["raw"], e["pdu"]
        # lengths (parse_pdu already enforces frag_len == len(raw))
        if pdu["frag_len"] != len(raw):
            res["viol"] = V("frag-len", "frag_len != size on the wire")
            return True
        if pdu["ctx_id"] != 3 or pdu["opnum"] != opnum or pdu["obj"] is not None or pdu["flags"] & 3 != 3:
            res["viol"] = V("request-fields", f"ctx_id/opnum/flags wrong: {pdu['ctx_id']} {pdu['opnum']} {pdu['flags']}")
            return True
        exp_vt = _expected_vt(vtv)
        if not auth:
            if pdu["auth_len"] != 0 or pdu["auth"] is not None:
                res["viol"] = V("auth-on-unauthenticated", "auth trailer on an unauthenticated connection")
                return True
            region = pdu["stub"]
            pad_decl = 0
        else:
            a = pdu["auth"]
            if a is None or pdu["auth_len"] != sig or len(a["value"]) != sig:
                res["viol"] = V("auth-len", f"auth_len {pdu['auth_len']} != signature size {sig}")
                return True
            if a["level"] != 6:
                res["viol"] = V("auth-level", f"auth level {a['level']}")
                return True
            if (a["offset"] - 24) % 16 != 0:
                res["viol"] = V("sec-trailer-alignment", f"security trailer at offset {a['offset']}: {a['offset'] - 24} bytes after the stub start, not a multiple of 16")
                return True
            if "stub_padded" not in e:
                res["viol"] = V("unseal-failed", f"independent receiver could not unseal/verify the request: {e.get('unseal_error')} {srv.violations[:2]}")
                return True
            region = e["stub_padded"]
            pad_decl = a["pad"]
        # layout of the cleartext region: stub | pad to 4 | verification trailer | auth padding
        if region[:n] != stub:
            res["viol"] = V("stub-bytes", "stub bytes on the wire differ from the argument")
            return True
        pos = n
        if exp_vt is not None:
            vt_off = n + (-n % 4)
            got = region[vt_off : vt_off + len(exp_vt)]
            if got != exp_vt:
                found = region.find(rpce.VT_SIGNATURE)
                res["viol"] = V("verification-trailer-position", f"verification trailer expected at offset {vt_off} (next 4-byte boundary), signature found at {found}")
                return True
            pos = vt_off + len(exp_vt)
        elif rpce.VT_SIGNATURE in region:
            res["viol"] = V("unexpected-verification-trailer", "verification trailer present although none was requested")
            return True
        if auth:
            if len(region) - pos != pad_decl:
                res["viol"] = V("pad-length", f"pad_length field {pad_decl} but {len(region) - pos} padding bytes were added")
                return True
            if pad_decl > 15:
                probes["pad_over_15"] = 1
            # what the security context was handed
            wraps = [r for r in record if r[0] == "wrap"]
            if len(wraps) != len(lens):
                res["viol"] = V("wrap-calls", f"{len(wraps)} wrap calls for {len(lens)} request(s)")
                return True
            bufs = wraps[k_][1]
            off = a["offset"]
            want_type = int(siov.BufferType.sign_only) if hs in (1, 3) else int(siov.BufferType.data_readonly)
            if bufs[0][1] != raw[:24] or bufs[2][1] != raw[off : off + 8]:
                res["viol"] = V("header-trailer-buffers", "PDU header / security trailer handed to the context differ from the bytes on the wire")
                return True
            if bufs[1][1] != region or bufs[1][0] != int(siov.BufferType.data):
                res["viol"] = V("sealed-region", "the confidential buffer is not exactly the stub-plus-padding region")
                return True
            if bufs[0][0] != want_type or bufs[2][0] != want_type:
                res["viol"] = V("header-sign-type", f"header/trailer buffer types {bufs[0][0]}/{bufs[2][0]} but header signing is {'on' if hs in (1, 3) else 'off'}")
                return True
            if not wraps[k_][2]:
                res["viol"] = V("not-encrypted", "wrap called with encrypt=False")
                return True
            if e.get("sealed_stub") == region and len(region) > 0:
                res["viol"] = V("cleartext-on-wire", "stub region went out in clear")
                return True
        else:
            if len(region) != pos:
                res["viol"] = V("trailing-bytes", "unexpected bytes after the stub on an unauthenticated request")
                return True
        probes["alloc_hint_eq_region"] = int(pdu["alloc_hint"] == len(region))
        return False

    for k_, (n_k, stub_k) in enumerate(zip(lens, stubs)):
        if judge_request(k_, n_k, stub_k):
            if more:
                res["viol"] = dict(res["viol"], sig=res["viol"]["sig"].replace("C13/request-framing/", "C13/request-framing-same-connection/"),
                                   detail=f"request #{k_ + 1} of {len(lens)} on one connection: " + res["viol"]["detail"])
            return res
    if out.kind != "ok":
        res["viol"] = V("call-failed", "a conforming exchange did not complete")
        return res
    if more:
        probes["requests_on_one_connection"] = len(lens)
    return res


# ---- reply path ---------------------------------------------------------------------
_RK_CACHE: dict = {}


def _small_dh_rootkey(kl: int) -> cms.RootKey:
    """A root key whose DH group has a key_length of ``kl`` bytes (odd lengths give odd envelope sizes)."""
    if kl not in _RK_CACHE:
        rng = random.Random(kl)
        # find a prime of exactly kl bytes (Miller-Rabin with fixed bases is plenty here)
        def is_prime(n):
            if n < 2:
                return False
            for p in (2, 3, 5, 7, 11, 13, 17, 19, 23, 29, 31, 37):
                if n % p == 0:
                    return n == p
            d, s = n - 1, 0
            while d % 2 == 0:
                d //= 2
                s += 1
            for a in (2, 3, 5, 7, 11, 13, 17, 19, 23, 29, 31, 37):
                x = pow(a, d, n)
                if x in (1, n - 1):
                    continue
                for _ in range(s - 1):
                    x = x * x % n
                    if x == n - 1:
                        break
                else:
                    return False
            return True

        while True:
            p = rng.getrandbits(kl * 8) | (1 << (kl * 8 - 1)) | 1
            if is_prime(p):
                break
        _RK_CACHE[kl] = cms.RootKey(key=bytes(range(64)), root_key_id=uuid.UUID(int=0x1000 + kl), hash_name="SHA256", secret_alg="DH",
                                   secret_params=gkdi.pack_dh_params(kl, p, 3), private_key_length=kl * 8 - 8, public_key_length=kl * 8)
    return _RK_CACHE[kl]


def run_reply_case(case) -> dict:
    """case: ["reply", flavour, kl, domain_len, forest_len, pad_mode, sig, member(0/1)]"""
    import dpapi_ng._client as dclient

    _, fl, kl, dlen, flen, pad_mode, sig, member = case[:8]
    ah = case[8] if len(case) > 8 else "padded"       # how the server fills alloc_hint: padded stub, unpadded stub (Windows), 0
    sig_srv = case[9] if len(case) > 9 else sig      # the acceptor's signature size may differ from the initiator's
    world = W.World(kl * 1000 + dlen * 10 + flen)
    record: list = []
    cfg = {"legs": 2, "sig": sig, "sig_srv": sig_srv}
    rk = _small_dh_rootkey(kl)
    sid = "S-1-5-21-1-2-3-1105"
    from ref import dtyp

    sd = dtyp.target_sd(sid)
    dc = refdc.RefDC(world, [rk], host=DC, caller_sids={sid} if member else set(), acceptor_factory=drive.stub_acceptor_factory(cfg),
                     domain="d" * dlen, forest="f" * flen,
                     # (the reserved octet of the server's security trailer is not always 0: receivers ignore it)
                     rpc_knobs={"pad_mode": pad_mode, "alloc_hint": ah, "auth_reserved": (0, 0, 1, 0xFF, 0x80)[(kl + dlen + 2 * flen) % 5]})
    with world.installed(ctx_factory=drive.stub_ctx_factory(cfg, record)):
        if fl == "sync":
            out = drive.classify(lambda: dclient._sync_get_key(DC, sd, rk.root_key_id, -1, -1, -1))
        else:
            out = drive.classify(lambda: drive.run_async(world, lambda: dclient._async_get_key(DC, sd, rk.root_key_id, -1, -1, -1), random.Random(kl)))
    pads = {k: v for k, v in world.stats.items() if k.startswith("reply_pad_")}
    probes = dict(pads)
    probes["alloc_hint_" + ah] = 1
    probes["sig_sizes_" + ("differ" if sig_srv != sig else "equal")] = 1
    probes["auth_reserved_nonzero"] = int((kl + dlen + 2 * flen) % 5 >= 2)
    res = {"digest": world.digest() + out.brief(), "key": common.key_hash(case), "fired": {"reply_pad_policy_" + pad_mode.split(":")[0]: 1}, "probes": probes,
           "vtime_ns": world.stats.get("vtime_ns", 0), "viol": None}

    def V(cond, detail):
        return common.violation("C13", "reply-padding", fl, cond, "", "",
                                f"{detail}; case={case} pads={pads} outcome={out.brief()} {out.exc!r} dc_violations={dc.all_violations[:2]}")

    if dc.all_violations:
        res["viol"] = V("request-rejected", "the reference DC rejected the client's request")
        return res
    aligned = not (pad_mode.startswith("k:") and int(pad_mode[2:]) % 4)
    if out.kind != "ok":
        if aligned:
            res["viol"] = V("decode-failed", "GetKey result was not decoded although the reply was well-formed")
        else:
            probes["misaligned_pad_rejected"] = 1  # a client may refuse a misaligned security trailer; wrong data is what is never allowed
        return res
    env = dc.getkey_log[-1]["envelope_fields"]
    g = out.value
    got = {"version": g.version, "flags": g.flags, "l0": g.l0, "l1": g.l1, "l2": g.l2, "root_key_id": g.root_key_identifier,
           "kdf_alg": g.kdf_algorithm, "kdf_params": g.kdf_parameters, "secret_alg": g.secret_algorithm, "secret_params": g.secret_parameters,
           "private_key_length": g.private_key_length, "public_key_length": g.public_key_length, "domain": g.domain_name,
           "forest": g.forest_name, "l1_key": g.l1_key, "l2_key": g.l2_key}
    if got != env:
        diff = [k for k in env if got.get(k) != env[k]]
        res["viol"] = V("wrong-envelope", f"decoded envelope differs from the one the DC encoded in fields {diff}")
    return res


def run_reply_concurrent(case) -> dict:
    """["reply2", seed, kl_a, kl_b, pad_mode]: two async GetKey calls run at once on one loop against the same DC; their replies
    have different lengths and arrive in PRNG-chosen segments; each call must end up with the envelope the DC encoded for it."""
    import asyncio

    import dpapi_ng._client as dclient

    from ref import dtyp

    _, seed, kla, klb, pad_mode = case
    world = W.World(seed)
    record: list = []
    cfg = {"legs": 2, "sig": (16, 28, 60, 76)[seed % 4]}
    rka, rkb = _small_dh_rootkey(kla), _small_dh_rootkey(klb)
    sid = "S-1-5-21-1-2-3-1105"
    sd = dtyp.target_sd(sid)
    dc = refdc.RefDC(world, [rka, rkb], host=DC, caller_sids={sid} if seed % 2 else set(), acceptor_factory=drive.stub_acceptor_factory(cfg),
                     domain="d" * (seed % 5), forest="f", rpc_knobs={"pad_mode": pad_mode, "header_sign": bool(seed % 3)})
    world.default_delivery = {"mode": "rand", "seed": seed, "bias": ("small", "header", "geo")[seed % 3]}
    results = {}

    # the second call starts a little later than the first (a fraction of a round trip up to several): one call is then between its
    # bind and its request while the other one creates its connections
    lat_hi = (50, 4000, 60000)[seed % 3]
    stagger_s = (0.0, 0.3, 1.1, 2.5, 4.2, 7.0)[(seed // 3) % 6] * lat_hi / 1e6

    async def one(tag, rk):
        try:
            if tag == "b" and stagger_s:
                await asyncio.sleep(stagger_s)
            results[tag] = ("ok", await dclient._async_get_key(DC, sd, rk.root_key_id, -1, -1, -1))
        except Exception as e:  # noqa: BLE001
            results[tag] = ("raise", e)

    async def main():
        lp = asyncio.get_running_loop()
        await asyncio.gather(lp.create_task(one("a", rka), name="opA"), lp.create_task(one("b", rkb), name="opB"))

    with world.installed(ctx_factory=drive.stub_ctx_factory(cfg, record)):
        whole = drive.classify(lambda: drive.run_async(world, main, random.Random(seed), (1, (50, 4000, 60000)[seed % 3])))
    viol = None
    probes = {"concurrent_replies": 1}
    for tag, rk in (("a", rka), ("b", rkb)):
        r = results.get(tag)
        if r is None or r[0] != "ok":
            viol = common.violation("C13", "reply-padding", "async-concurrent", "decode-failed", "", "",
                                    f"two GetKey calls in flight at once: call {tag} failed ({None if r is None else r[1]!r}; loop: {whole.brief()}); case={case} dc={dc.all_violations[:2]}")
            break
        g = r[1]
        want = [e for e in dc.getkey_log if e.get("root_key_id") == rk.root_key_id][-1]["envelope_fields"]
        if (g.root_key_identifier, g.secret_parameters, g.l2_key, g.domain_name) != (want["root_key_id"], want["secret_params"], want["l2_key"], want["domain"]):
            viol = common.violation("C13", "reply-padding", "async-concurrent", "wrong-envelope", "", "", f"call {tag} decoded an envelope that is not the one the DC encoded for it; case={case}")
            break
    return {"viol": viol, "digest": world.digest() + whole.brief(), "key": common.key_hash(case), "fired": {"seg": world.stats.get("seg", 0), "concurrent": 1},
            "probes": probes, "vtime_ns": world.stats.get("vtime_ns", 0)}


def run_first_use_threads(case) -> dict:
    """["tfirst", seed, policy]: 2..3 caller threads make the process's FIRST GetKey calls at the same time (sync API, full
    conversation against the reference DC, which decodes every request independently: sealing, padding, verification trailer).
    Run through ["fresh", ...] in a new interpreter."""
    from checks import offline, plan as P

    _, seed, policy = case
    r = random.Random(seed)
    sid = offline.SID_A
    # (principals with 1..12 sub-authorities: the GetKey requests of the threads differ in length)
    sids = [offline.sid_shape(1 + (seed + 5 * j) % 12, seed + j) for j in range(2 + seed % 2)]
    ops = [{"op": "protect", "fl": "thread", "group": 1, "sid": sids[j], "rk": None, "net": "online", "data": 5 + j, "cache": "fresh"} for j in range(len(sids))]
    plan = {"seed": seed, "clock_ft": gkdi.interval_start_filetime(370, 4, 9) + seed % 1000, "root_keys": [[3, "SHA256", ("DH", "ECDH_P256")[seed % 2]]],
            "caller_sids": list(sids), "ctx": {"kind": "stub", "legs": 2, "sig": r.choice((16, 28))}, "dc": {"pad_mode": r.choice(("min16", "min4"))}, "ops": ops, "threads": policy}
    tr = P.execute_plan(plan)
    viol = None
    if tr.dc.all_violations:
        viol = common.violation("C13", "request-framing", "threads", "receiver-rejects-request", "", "first-use",
                                f"the reference DC could not decode a request of {len(ops)} concurrent first calls: {tr.dc.all_violations[:2]}")
    else:
        want = rpce.syntax_bytes(rpce.ISD_KEY_IF) + rpce.syntax_bytes(rpce.NDR64)
        for g in tr.dc.getkey_log:
            vt = g.get("vt") or []
            if [(c, f) for c, f, _v in vt] != [(rpce.VT_PCONTEXT, rpce.VT_END)] or vt[0][2] != want:
                viol = common.violation("C13", "request-framing", "threads", "verification-trailer", "", "first-use", f"verification trailer of a concurrent first call is not PCONTEXT(ISD_KEY, NDR64)|END: {vt}")
                break
        for ot in tr.ops:
            if viol is None and ot.outcome.kind != "ok":
                viol = common.violation("C13", "request-framing", "threads", drive.exc_sig(ot.outcome)[0], drive.exc_sig(ot.outcome)[1], "first-use",
                                        f"a call that succeeds alone failed while other threads made their first calls: {ot.outcome.exc!r}")
    return {"viol": viol, "digest": tr.world.digest(), "key": common.key_hash(case), "fired": {"thread_preemptions": tr.world.stats.get("tswitch", 0)},
            "probes": {"thread_overlap": tr.world.stats.get("toverlap", 0)}, "vtime_ns": 0}


class C13(common.Check):
    id = "C13"
    level = "exploration"
    rule = ("request grid: stub length 0..320 x verification trailer {none, PCONTEXT|END, BITMASK+PCONTEXT|END} x signature size "
            "{16,28,60,76} x header signing on/off (authenticated) plus unauthenticated requests, both flavours - enumerated completely; a server that "
            "sets flag bit 0x04 only on its alter_context_resp (no header signing then); acks whose security trailer names authentication level 5 or 2; three requests on ONE authenticated connection for every pair of "
            "stub-length residues mod 16; connections with different signature sizes one after the other in one process; "
            "reply path: GetKey replies from the reference DC whose envelope length sweeps every residue (DH key_length 5..12 incl. odd, "
            "domain/forest name lengths 0..7, seed and public-key replies) x server padding policy {pad to 16, pad to 4, extra 4k, exactly K for K in 0..15} so that "
            "pad_length 0..15 all occur; pairs of async GetKey calls in flight at once with replies of different lengths delivered in PRNG segments (NDR64 GetKey stubs are always 4-aligned, so K % 4 != 0 only arises from a lenient server: there a "
            "raised error is tolerated, a wrong envelope never is); a security provider that, before the context is complete, refuses the size query or reports another mechanism's signature size; server trailers whose reserved octet is not 0; 2..3 caller threads making the first GetKey calls of a new interpreter at once (one child process per case; the reference DC decodes sealing, padding and verification trailer of every request). Non-trivial = every case (each has a distinct length residue/knob combination); distinct = "
            "distinct parameter tuple.")
    components = {"client": "real (RpcClient._create_request/_prepare_pdu/_process_response, AuthenticationProvider.wrap/unwrap, "
                            "_process_get_key_result, GetKey.unpack_response)",
                  "receiver": "model (ref.rpce + StubAcceptor)", "security context": "stub (StubCtx records the buffers it is handed)",
                  "DC": "model (RefDC)", "transport": "simulated"}
    assumptions = ["the quantifier is a parameter grid; what the simulation contributes is the second party (independent receiver, recording context)",
                   "alloc_hint is recorded, not judged"]
    required_fired = tuple(f"reply_pad_{k}" for k in range(16)) + ("hs_1_auth_1", "hs_0_auth_1", "hs_0_auth_0", "hs_2_auth_1", "hs_3_auth_1", "hs_4_auth_1", "requests_on_one_connection", "seq_connections", "concurrent_replies", "alloc_hint_unpadded", "alloc_hint_zero", "sig_sizes_differ", "first_calls_from_threads_in_new_process", "auth_reserved_nonzero")

    def exhaustive(self, tier):
        return True

    exhaustive_note = "the request grid is enumerated completely; reply-path cases are a structured sweep"

    def cases(self, tier, seed):
        out = []
        # the process's first GetKey calls, made by 2..3 caller threads at once (one child interpreter per case)
        rngf = prng.stream(seed, "C13", "first-use")
        for k in range(160 if tier == "quick" else 4000):
            pol = {"mode": "prob", "p": (0.05, 0.15, 0.3, 0.5)[k % 4]} if k % 3 else {"mode": "marks", "q": (0.3, 0.7)[(k // 3) % 2], "p": (0.02, 0.1)[(k // 6) % 2]}
            out.append(["fresh", ["tfirst", rngf.getrandbits(30), pol]])
        nmax = 320 if tier == "quick" else 1200
        for fl in ("sync", "async"):
            for n in range(0, nmax + 1):
                for vtv in (0, 1, 2):
                    if vtv == 2 and n % 5 and tier == "quick":
                        continue
                    for sig in (16, 28, 60, 76):
                        for hs in (1, 0):
                            out.append(["req", fl, n, vtv, sig, hs, 1])
                    if vtv < 2:
                        out.append(["req", fl, n, vtv, 16, 0, 0])
        for fl in ("sync", "async"):
            # the server's alter_context_resp carries flag bit 0x04 although its bind_ack did not advertise header signing
            for n in range(0, 48):
                for sig in (16, 60):
                    out.append(["req", fl, n, n % 2, sig, 2, 1])
                    out.append(["req", fl, n, n % 2, sig, 3 + n % 2, 1])
            # several requests on ONE connection: every pair of stub-length residues mod 16, then back to the first length
            for n1 in range(0, 16):
                for n2 in range(0, 16):
                    out.append(["req", fl, n1, (n1 + n2) % 2, (16, 28, 60, 76)[(n1 + n2) % 4], (n1 + n2) % 2, 1, [16 + n2, n1 + 32]])
        for fl in ("sync", "async"):
            for a in (16, 28, 60, 76):
                for b_ in (16, 28, 60, 76):
                    if a != b_:
                        for n in (0, 5, 16, 33):
                            out.append(["seq", fl, [a, b_, a], n, 1])
        for i in range(600 if tier == "quick" else 20000):
            out.append(["reply2", i, 5 + i % 8, 5 + (i * 3 + 1) % 8, ("min16", "min4", "1")[i % 3]])
        for fl in ("sync", "async"):
            for kl in range(5, 13):
                for dlen in range(0, 8 if tier == "thorough" else 4):
                    for flen in (0, 1, 2, 3):
                        for pad_mode in ("min16", "min4", "1", "5") + tuple(f"k:{(kl * 5 + dlen + flen + j) % 16}" for j in (0, 7)):
                            for member in (0, 1):
                                sig = (16, 28, 60, 76)[(kl + dlen + flen) % 4]
                                out.append(["reply", fl, kl, dlen, flen, pad_mode, sig, member])
                                if pad_mode in ("min16", "min4") and flen < 2:
                                    out.append(["reply", fl, kl, dlen, flen, pad_mode, sig, member, ("unpadded", "zero")[member], sig])
                                    out.append(["reply", fl, kl, dlen, flen, pad_mode, sig, member, "padded", (76, 60, 28, 16)[(kl + dlen) % 4]])
        return out

    def run_case(self, case):
        if case[0] == "tfirst":
            return run_first_use_threads(case)
        if case[0] == "fresh":
            v = common.run_case_fresh("C13", case[1])
            if v:
                v = {"sig": v["sig"] + "/new-process", "detail": "first calls of a new process: " + v["detail"]}
            return {"viol": v, "digest": "fresh:" + (v["sig"] if v else "ok"), "key": common.key_hash(case), "fired": {}, "probes": {"first_calls_from_threads_in_new_process": 1}, "vtime_ns": 0}
        if case[0] == "req":
            return run_request_case(case)
        if case[0] == "seq":
            return run_seq_case(case)
        if case[0] == "reply2":
            return run_reply_concurrent(case)
        return run_reply_case(case)

    def shrink(self, case):
        if case[0] in ("fresh", "tfirst"):
            return
        if case[0] == "req" and len(case) > 7:
            if len(case[7]) > 1:
                yield case[:7] + [case[7][:1]]
            return
        if case[0] == "req":
            _, fl, n, vtv, sig, hs, auth = case
            for m in sorted({0, 1, n % 16, n % 4, n // 2} - {n}):
                yield ["req", fl, m, vtv, sig, hs, auth]
            if vtv:
                yield ["req", fl, n, 0, sig, hs, auth]
            if sig != 16:
                yield ["req", fl, n, vtv, 16, hs, auth]
            if fl == "async":
                yield ["req", "sync", n, vtv, sig, hs, auth]
        elif case[0] == "reply2":
            return
        elif case[0] == "seq":
            if len(case[2]) > 2:
                yield ["seq", case[1], case[2][:2], case[3], case[4]]
        else:
            _, fl, kl, dlen, flen, pad_mode, sig, member = case[:8]
            if len(case) > 8:
                return
            if fl == "async":
                yield ["reply", "sync", kl, dlen, flen, pad_mode, sig, member]
            if dlen:
                yield ["reply", fl, kl, 0, flen, pad_mode, sig, member]
            if flen:
                yield ["reply", fl, kl, dlen, 0, pad_mode, sig, member]

    def sample_repr(self, case, res):
        if case[0] in ("fresh", "tfirst"):
            return {"kind": "first GetKey calls of a new process from caller threads", "case": case}
        if case[0] == "req":
            return dict(zip(("kind", "flavour", "stub_len", "vt_variant", "sig_size", "header_sign", "authenticated", "further_requests_on_the_connection"), case))
        if case[0] == "seq":
            return dict(zip(("kind", "flavour", "sig_sizes_of_consecutive_connections", "stub_len", "vt_variant"), case))
        if case[0] == "reply2":
            return dict(zip(("kind", "seed", "dh_key_length_a", "dh_key_length_b", "pad_mode"), case))
        return dict(zip(("kind", "flavour", "dh_key_length", "domain_len", "forest_len", "pad_mode", "sig_size", "member", "alloc_hint_policy", "server_sig_size"), case))


CHECK = C13()
