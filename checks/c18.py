"""C18 - endpoint-mapper replies: right port if well-formed, bounded work for any reply.

The EPM connection is unauthenticated, so its peer is fully Byzantine.  The real
first hop of _sync_get_key / _async_get_key talks to a reference (or scripted)
endpoint mapper; which port the client dials next is observed at the SimNet
seam; traced line events and traced allocations bound the work.
"""
from __future__ import annotations

import random
import struct
import typing as t

from checks import common, drive, offline
from ref import dtyp, refdc, rpce
from simworld import prng, world as W

DC = offline.DC
LINE_A, LINE_B = 60_000, 300
MEM_C, MEM_D = 64 << 20, 4_000  # address-space growth (kernel high-water mark), bytes: C + D * len(reply)


def wellformed_towers(rng) -> t.Tuple[list, t.Optional[int]]:
    """-> (towers, expected port or None)"""
    n = rng.choice((0, 1, 1, 2, 3, 4, 5, 6))
    towers = []
    expect = None
    for i in range(n):
        nfl = rng.randint(2, 7)
        floors = []
        tcp_at = rng.choice((None, None, 0, nfl - 1, rng.randrange(nfl))) if rng.random() < 0.8 else None
        port = rng.randrange(1, 65536)
        for j in range(nfl):
            if tcp_at is not None and j == tcp_at:
                floors.append((0x07, b"", struct.pack(">H", port)))
            else:
                # (known identifiers, a handful of recurring unknown ones, and any other one-octet identifier: a long-lived process sees many)
                proto = rng.choice((0x0D, 0x0B, 0x09, 0x08, 0x0F, 0x1F, 0x20, 0x21, 0x00, 0xFE)) if rng.random() < 0.7 else rng.randrange(0x22, 0x100)
                if proto == 0x0D:
                    lhs, rhs = rpce.ISD_KEY_IF[0].bytes_le + b"\x01\x00", b"\x00\x00"
                elif proto == 0x0B:
                    lhs, rhs = b"", b"\x00\x00"
                elif proto == 0x09:
                    lhs, rhs = b"", bytes(4)
                else:
                    lhs, rhs = bytes(rng.randrange(256) for _ in range(rng.randrange(0, 9))), bytes(rng.randrange(256) for _ in range(rng.randrange(0, 12)))
                if proto in (0x0D, 0x0B, 0x09) and rng.random() < 0.25:
                    # the same protocol identifiers with payloads of another size (a 16-byte address, a 4-byte minor version, extra lhs bytes)
                    lhs, rhs = lhs + bytes(rng.randrange(0, 3)), bytes(rng.randrange(256) for _ in range(rng.choice((0, 1, 3, 4, 6, 16))))
                    if proto == 0x0D and len(lhs) < 18:
                        lhs = lhs.ljust(18, b"\x01")
                floors.append((proto, lhs, rhs))
        towers.append(floors)
        if expect is None and tcp_at is not None:
            expect = port
    return towers, expect


def hostile_reply(rng) -> t.Tuple[bytes, str]:
    towers, _ = wellformed_towers(rng)
    if not towers:
        towers = [rpce.std_tower(rpce.ISD_KEY_IF, rpce.NDR20, 49667)]
    base = bytearray(rpce.ndr64_ept_map_response(towers, 0))
    big = rng.choice((2**16, 2**32, 2**40, 2**63, 2**64 - 1, 2**20, 10**6))
    mode = rng.choice(("actual", "actual-short", "max", "num", "tower-len", "floor-count", "floor-len", "trunc", "zeros", "random", "overlap"))
    if mode == "overlap":
        # many towers with tiny declared lengths whose floor counts reach to the end of the reply (superlinear if the tail is re-read per tower)
        from checks import epmstub

        shape = rng.choice(sorted(epmstub.SHAPES))
        return epmstub.SHAPES[shape](rng.choice((1, 2, 4, 8, 12))), "overlap"
    if mode == "actual":
        base[40:48] = struct.pack("<Q", big)
    elif mode == "actual-short":
        base[40:48] = struct.pack("<Q", big)
        del base[48 + rng.randrange(0, 8) :]
        base += struct.pack("<I", 0)
    elif mode == "max":
        base[24:32] = struct.pack("<Q", big)
    elif mode == "num":
        base[20:24] = struct.pack("<I", big & 0xFFFFFFFF)
    elif mode == "tower-len":
        off = 48 + 8 * len(towers)
        base[off : off + 8] = struct.pack("<Q", big)
        if rng.random() < 0.5:
            base[off + 8 : off + 12] = struct.pack("<I", big & 0xFFFFFFFF)
    elif mode == "floor-count":
        off = 48 + 8 * len(towers) + 12
        base[off : off + 2] = struct.pack("<H", 0xFFFF)
    elif mode == "floor-len":
        off = 48 + 8 * len(towers) + 14
        base[off : off + 2] = struct.pack("<H", rng.choice((0, 1, 0xFFFF, 0x8000)))
    elif mode == "trunc":
        del base[rng.randrange(0, len(base)) :]
    elif mode == "zeros":
        base = bytearray(rng.choice((0, 4, 20, 48, 52, 56, 100, 5000)))
        if len(base) >= 48 and rng.random() < 0.7:
            base[40:48] = struct.pack("<Q", big)
    else:
        base = bytearray(rng.randrange(256) for _ in range(rng.choice((0, 3, 24, 47, 48, 52, 60, 200))))
    return bytes(base), mode


def run_seq(case) -> dict:
    """["seq", flavour, seed, [status1, status2, ...]]: several lookups against the same server in one process; the mapper's
    answer changes between them (endpoint moved, service unregistered).  Each lookup is judged on its own reply."""
    import dpapi_ng._client as dclient

    _, fl, seed, statuses = case
    rng = random.Random(seed)
    world = W.World(seed)
    sd = dtyp.target_sd(offline.SID_A)
    dc = refdc.RefDC(world, [], host=DC)
    world.routes.pop((DC, dc.gkdi_port), None)
    viol = None
    probes = {"kind_seq": 1}
    with world.installed():
        for k, status in enumerate(statuses):
            towers, expect = wellformed_towers(rng)
            if expect is None:
                towers = [rpce.std_tower(rpce.ISD_KEY_IF, rpce.NDR20, 20000 + rng.randrange(40000))] + towers
                expect = rpce.tower_tcp_port(towers[0])
            dc.epm_knobs["raw_reply"] = rpce.ndr64_ept_map_response(towers, status)
            n0 = len(world.connect_attempts)
            if fl == "sync":
                out = drive.classify(lambda: dclient._sync_get_key(DC, sd, None, 1, 2, 3, auth_protocol="negotiate"))
            else:
                out = drive.classify(lambda: drive.run_async(world, lambda: dclient._async_get_key(DC, sd, None, 1, 2, 3), random.Random(seed + k)))
            att = world.connect_attempts[n0:]
            dialled = [a[1] for a in att if a[1] != 135]
            asked = [a for a in att if a[1] == 135]
            detail = f"lookup #{k + 1} of statuses {[hex(s) for s in statuses]}: mapper said status=0x{status:08X} port={expect}, client asked the mapper {len(asked)}x and dialled {dialled}; outcome {out.brief()}"
            if status != 0:
                probes["seq_error_after_success"] = int(k > 0)
                if dialled or out.kind != "raise":
                    viol = common.violation("C18", "port", fl, "dialled-despite-error", "", "sequence", detail)
                    break
            else:
                if dialled != [expect]:
                    viol = common.violation("C18", "port", fl, "wrong-port", "", "sequence", detail)
                    break
    return {"viol": viol, "digest": world.digest(), "key": common.key_hash(case), "fired": {"script": len(statuses)}, "probes": probes,
            "vtime_ns": world.stats.get("vtime_ns", 0)}


def run_threads(case) -> dict:
    """["threads", seed, n, policy]: n caller threads of one process look the endpoint up at the same time (sync API); the mapper
    announces a different port to each request and delivers its replies in several segments; simworld.threads decides every
    pre-emption.  Every announced port must be dialled exactly once (nobody acts on somebody else's answer)."""
    import dpapi_ng._client as dclient

    from checks import plan as P
    from simworld import threads as simthreads

    _, seed, n, policy = case
    rng = random.Random(seed)
    world = W.World(seed)
    sd = dtyp.target_sd(offline.SID_A)
    ports = rng.sample(range(20000, 60000), n)
    replies = []
    for k_, p in enumerate(ports):
        towers, _e = wellformed_towers(rng)
        towers = [rpce.std_tower(rpce.ISD_KEY_IF, rpce.NDR20, p)] + [tw for tw in towers if rpce.tower_tcp_port(tw) is None]
        if policy.get("mode") in ("points", "marks") and k_ == n - 1:
            # one lookup meets a mapper with a very long list of endpoints (150 floors nobody has seen before) while the other lookups,
            # pre-empted once or twice at a PRNG-chosen line, decode the usual ones
            towers += [[(0x22 + (seed + 7 * j + i) % 0xDD, bytes([j, i, seed & 0xFF]), bytes([i, j])) for i in range(6)] for j in range(25)]
        replies.append(rpce.ndr64_ept_map_response(towers, 0))
    dc = refdc.RefDC(world, [], host=DC, epm={"raw_replies": replies})
    world.routes.pop((DC, dc.gkdi_port), None)
    world.default_delivery = {"mode": "rand", "seed": seed & 0xFFFF, "bias": rng.choice(("small", "header", "geo"))}
    tsim = simthreads.ThreadSim(random.Random(seed ^ 0xC18), P.SRC_PREFIX(), policy, on_switch=lambda s_, a, b_: world.log("thread.switch", s_, a, b_))
    with world.installed():
        try:
            res = tsim.run([(lambda: drive.classify(lambda: dclient._sync_get_key(DC, sd, None, 1, 2, 3, auth_protocol="negotiate"))) for _ in range(n)])
        except simthreads.Wedged as e:
            raise common.HarnessError(str(e))
    dialled = sorted(a[1] for a in world.connect_attempts if a[1] != 135)
    viol = None
    if dialled != sorted(ports):
        outs = [(o.brief() if o is not None else repr(exc)) for o, exc in res]
        viol = common.violation("C18", "port", "threads", "wrong-port", "", "",
                                f"the mapper announced ports {sorted(ports)} (one per lookup) but the {n} concurrent lookups dialled {dialled}; outcomes {outs}; "
                                f"{len(tsim.switches)} pre-emptions, schedule={tsim.script()['switches'][:6]}")
    return {"viol": viol, "digest": world.digest() + str(dialled), "key": common.key_hash(case), "sched_key": common.key_hash(tsim.switches) if tsim.switches else None,
            "fired": {"thread_preemptions": len(tsim.switches), "seg": world.stats.get("seg", 0)}, "probes": {"kind_threads": 1, "thread_overlap": tsim.overlap},
            "vtime_ns": 0, "_script": tsim.script()}


def run(case) -> dict:
    """["wf", flavour, seed, status] | ["hostile", flavour, seed] | ["trunc", flavour, seed, k]"""
    import dpapi_ng._client as dclient

    if case[0] == "seq":
        return run_seq(case)
    if case[0] == "threads":
        return run_threads(case)
    if case[0] == "fresh":
        v = common.run_case_fresh("C18", case[1])
        if v:
            v = {"sig": v["sig"] + "/new-process", "detail": "first lookups of a new process: " + v["detail"]}
        return {"viol": v, "digest": "fresh:" + (v["sig"] if v else "ok"), "key": common.key_hash(case), "fired": {}, "probes": {"first_lookups_from_threads_in_new_process": 1}, "vtime_ns": 0}
    kind, fl, seed = case[0], case[1], case[2]
    rng = random.Random(seed)
    world = W.World(seed)
    sd = dtyp.target_sd(offline.SID_A)
    expect = None
    status = 0
    label = ""
    if kind == "wf":
        towers, expect = wellformed_towers(rng)
        status = case[3]
        # the [in, out] lookup handle of the reply: NULL, or a live handle (the mapper has more entries); what the reply means is the same
        handle = b"\x00" * 20 if (seed // 3) % 3 else struct.pack("<I", (0, 1, 0xFFFFFFFF)[seed % 3]) + bytes((seed * 7 + j) & 0xFF or 1 for j in range(16))
        reply = rpce.ndr64_ept_map_response(towers, status, handle=handle)
        dc = refdc.RefDC(world, [], host=DC, epm={"raw_reply": reply})
        # alloc_hint of the Response PDU is advisory: smaller than the stub, zero, or exact - the answer is the same
        hint = (None, None, 4, 8, 1, "zero", 20)[seed % 7]
        dc.epm_server.knobs["alloc_hint_unsealed"] = hint
        label = f"towers={len(towers)} alloc_hint={'exact' if hint is None else ('0' if hint == 'zero' else 'len-%d' % hint)} lookup-handle={'null' if not any(handle) else 'live'}"
    elif kind == "hostile":
        reply, label = hostile_reply(rng)
        dc = refdc.RefDC(world, [], host=DC, epm={"raw_reply": reply})
    else:
        towers, expect = wellformed_towers(rng)
        full = rpce.ndr64_ept_map_response(towers or [rpce.std_tower(rpce.ISD_KEY_IF, rpce.NDR20, 4711)], 0)
        reply = full[: case[3] % (len(full) + 1)]
        dc = refdc.RefDC(world, [], host=DC, epm={"raw_reply": reply})
        label = f"trunc@{len(reply)}/{len(full)}"
    world.routes.pop((DC, dc.gkdi_port), None)  # nothing listens behind the mapper: only the dialled port is observed
    if kind == "wf":
        # how the mapper's bytes travel: in one piece, in PRNG segments with a pause before the last part, or complete and followed
        # at once by a reset of the connection (the mapper closes hard after answering) - the answer is the same
        how = (seed // 7) % 5
        if how == 1:
            world.default_delivery = {"mode": "rand", "seed": seed & 0xFFFF, "bias": ("small", "header", "geo")[seed % 3]}
        elif how == 2:
            world.default_delivery = {"mode": "cuts", "cuts": {"1": [16 + seed % max(1, len(reply))]}, "gaps": [[1, 1, (0.01, 0.5, 3.0, 6.0, 40.0)[seed % 5]]]}
        elif how == 3:
            world.default_delivery = {"rst_at": [1, 24 + len(reply)]}
        elif how == 4:
            # three or more segments, and the wall clock steps (NTP correction, VM resume) while the rest of the reply is pending
            c1 = 1 + seed % 23
            world.default_delivery = {"mode": "cuts", "cuts": {"1": [c1, c1 + 1 + (seed // 5) % 20]},
                                      "clock_jumps": [[1, 1 + seed % 2, (61.0, 3600.0, -3600.0, 86400.0 * 400)[(seed // 11) % 4]]]}
        label += f" delivery={('whole', 'segments', 'pause', 'reset-after-reply', 'clock-step-between-segments')[how]}"
        probes_delivery = how
    vmw = common.VmWatch()
    vmw.__enter__()
    with world.installed():
        with common.LineBudget(LINE_A + LINE_B * (len(reply) + 500)) as lb:
            if fl == "sync":
                out = drive.classify(lambda: dclient._sync_get_key(DC, sd, None, 1, 2, 3, auth_protocol="negotiate"))
            else:
                out = drive.classify(lambda: drive.run_async(world, lambda: dclient._async_get_key(DC, sd, None, 1, 2, 3), random.Random(seed)))
    vmw.__exit__(None, None, None)
    peak = vmw.growth
    att = world.connect_attempts
    dialled = att[1][1] if len(att) > 1 else None
    viol = None
    probes: t.Dict[str, int] = {"kind_" + kind: 1}
    if kind == "wf" and "alloc_hint=len-" in label:
        probes["alloc_hint_short"] = 1
    if kind == "wf":
        probes["delivery_" + ("whole", "segments", "pause", "reset_after_reply", "clock_step")[probes_delivery]] = 1
        if "lookup-handle=live" in label:
            probes["live_lookup_handle"] = 1
            if expect is None and status == 0:
                probes["live_lookup_handle_without_tcp_floor"] = 1

    def V(clause, cond, detail):
        et, frame = drive.exc_sig(out)
        return common.violation("C18", clause, fl, cond, frame if out.kind in ("budget", "raise") and clause != "port" else "", "",
                                f"{detail}; reply {len(reply)} bytes [{label}] outcome={out.brief()} {str(out.exc)[:120]} lines={lb.count} peak={peak}")

    if out.kind in ("budget", "spin", "blocks"):
        viol = V("bounded-work", out.kind, "processing the mapper's reply did not end within the line budget")
    elif world.stats.get("peer_gave_up"):
        # the client went on sending requests on the mapper connection until the simulated peer cut it off after 64 PDUs: how much work
        # one reply causes was decided by the peer, not by the reply's size
        viol = V("bounded-work", "endless-conversation", f"the client sent {len(dc.epm_log)} ept_map requests on one connection and only stopped when the peer reset it")
    elif peak > MEM_C + MEM_D * len(reply):
        viol = V("bounded-work", "memory", f"address space grew by {peak} bytes for a {len(reply)}-byte reply")
    elif kind == "wf":
        if status != 0 or expect is None:
            probes["must_raise"] = 1
            if dialled is not None:
                viol = V("port", "dialled-despite-error", f"status=0x{status:08X} expected-port={expect}: client went on to dial port {dialled}")
            elif out.kind != "raise":
                viol = V("port", "no-error", "non-zero status / no TCP floor did not surface as an error")
        else:
            probes["port_expected"] = 1
            if dialled != expect:
                viol = V("port", "wrong-port", f"first tower with a TCP floor names port {expect} but the client dialled {dialled}")
    if kind != "wf" and out.kind == "ok":
        viol = V("port", "returned", "call returned although nothing listens behind the mapper")
    return {"viol": viol, "digest": world.digest() + out.brief() + str(dialled), "key": common.key_hash(case), "fired": {"script": 1},
            "probes": probes | ({"hostile_" + label: 1} if kind == "hostile" else {}), "vtime_ns": world.stats.get("vtime_ns", 0)}


class C18(common.Check):
    id = "C18"
    level = "exploration"
    rule = ("case = ept_map reply served to the real first hop of _sync_get_key/_async_get_key. Well-formed (reference-encoded): 0..6 towers, 2..7 "
            "floors of known and unknown protocols with payloads 0..11 bytes (every tower-length residue mod 8), TCP floor first / last / "
            "anywhere / absent, status 0 and error codes: the port dialled next (observed at the network seam) must be the TCP port of the first "
            "tower with a TCP floor; error status or no TCP floor must raise without dialling; the reply's lookup handle is NULL or live (the mapper then answers every further request the same way); the Response PDU's advisory alloc_hint is exact, zero or smaller than the stub; the reply arrives whole, in PRNG segments, after a pause of 10 ms .. 40 s, in three segments with a wall-clock step of +61 s .. +400 d / -1 h in between, or complete and followed at once by a connection reset; the hint is exact, "
            "zero or smaller than the stub; sequences of lookups in one process whose answers change; 2..3 caller threads looking the endpoint "
            "up at the same time (sync API, deterministic thread scheduler, segmented replies) while the mapper announces a different port "
            "to each: every announced port must be dialled exactly once (also as the first lookups of a new interpreter, one child process per case). Hostile: many towers with tiny declared lengths whose floor counts "
            "reach to the end of the reply; tower / max / actual counts and tower "
            "lengths rewritten to {2^16..2^64-1} over short bodies, floor counts 0xFFFF, floor lengths past the end, truncation at every "
            "offset, zeros, PRNG bytes: traced lines <= 60000+300*(len+500), address-space growth <= 64MiB+4000*len. Non-trivial = every case; "
            "distinct = distinct (kind, seed, flavour).")
    components = {"client": "real (_sync_get_key/_async_get_key first hop, _process_ept_map_result, EptMapResult.unpack, Floor.unpack)",
                  "endpoint mapper": "Byzantine scripted peer / reference encoder (ref.rpce)", "network seam": "simulated: the dialled port is an observation",
                  "budgets": "sys.settrace line counter (dpapi_ng frames) and address-space high-water mark"}
    assumptions = ["budgets are affine in the reply length with constants > 20x the maximum observed on well-formed replies"]
    required_fired = ("port_expected", "must_raise", "kind_hostile", "kind_trunc", "kind_seq", "seq_error_after_success", "hostile_actual", "hostile_floor-count", "hostile_tower-len", "hostile_overlap", "kind_threads", "thread_overlap", "alloc_hint_short", "delivery_segments", "delivery_pause", "delivery_reset_after_reply", "delivery_clock_step", "first_lookups_from_threads_in_new_process", "live_lookup_handle", "live_lookup_handle_without_tcp_floor")

    def cases(self, tier, seed):
        rng = prng.stream(seed, "C18")
        out = []
        n = 4000 if tier == "quick" else 200000
        for i in range(n):
            st = 0 if i % 6 else rng.choice((0x16C9A0D6, 1, 0x80000000, 0xFFFFFFFF))
            out.append(["wf", "sync" if i % 2 else "async", rng.getrandbits(30), st])
        for i in range(n):
            out.append(["hostile", "sync" if i % 2 else "async", rng.getrandbits(30)])
        for i in range(300 if tier == "quick" else 10000):
            out.append(["seq", "sync" if i % 2 else "async", rng.getrandbits(30), [rng.choice((0, 0, 0x16C9A0D6, 1)) for _ in range(rng.randint(2, 4))]])
        from checks import threadpure

        for k in range(700 if tier == "quick" else 20000):
            # (single pre-emptions at PRNG-chosen lines as well: a check-then-use on shared state has no write to mark the window)
            pol = threadpure.policy_for(k) if k % 3 == 0 else ({"mode": "points", "n": 1 + k % 2, "horizon": (150, 400, 900, 2500)[k % 4]} if k % 3 == 1 else {"mode": "marks", "q": (0.1, 0.3, 0.7, 1.0)[(k // 3) % 4], "p": (0.0, 0.02)[(k // 12) % 2]})
            out.append(["threads", rng.getrandbits(30), 2 + k % 2, pol])
        # ... and as the first lookups a new interpreter makes (one child process per case)
        for k in range(96 if tier == "quick" else 3000):
            pol = {"mode": "marks", "q": (0.2, 0.4, 0.7, 1.0)[k % 4], "p": (0.0, 0.02, 0.1)[(k // 4) % 3]} if k % 4 else {"mode": "prob", "p": (0.05, 0.3)[(k // 4) % 2]}
            if k % 2:
                pol = {"mode": "marks", "q": (0.1, 0.2, 0.3, 0.45)[(k // 2) % 4], "p": 0.0, "hold": (14, 40, 80)[(k // 8) % 3]}
                pol["kinds"] = "shared"  # (only at process-wide state: the second thread catches up with the first inside whatever is built on first use)
            out.append(["fresh", ["threads", rng.getrandbits(30), 2 + k % 2, pol]])
        for s in range(6 if tier == "quick" else 60):
            sd_ = rng.getrandbits(30)
            for k in range(0, 600):
                out.append(["trunc", "sync" if k % 2 else "async", sd_, k])
        return out

    def run_case(self, case):
        return run(case)

    def warmup(self, cases):
        seen = set()
        for c in cases:
            if c[0] == "fresh":
                continue  # (runs in a child interpreter: nothing to warm up here)
            k = (c[0], c[1] if isinstance(c[1], str) else None)  # (one case per kind and flavour; c[1] of a thread case is its seed)
            if k not in seen:
                seen.add(k)
                try:
                    self.run_case(c)
                except Exception:  # noqa: BLE001 - reported by the workers
                    pass

    def shrink_threads(self, case):
        from checks import threadpure

        yield from threadpure.shrinks(case, 3, None, run_threads)

    def shrink(self, case):
        if case[0] == "threads":
            yield from self.shrink_threads(case)
            return
        if case[0] == "fresh":
            return
        if case[1] == "async":
            yield [case[0], "sync"] + case[2:]

    def sample_repr(self, case, res):
        if case[0] == "fresh":
            return {"kind": "first lookups of a new process from caller threads", "case": case[1]}
        return {"kind": case[0], "flavour": case[1], "seed": case[2], "extra": case[3:]}


CHECK = C18()
