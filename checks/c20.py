"""C20 - DC discovery asks the right SRV name and picks the best record.

The resolver is a simulated node behind dns.resolver.resolve /
dns.asyncresolver.resolve; the injected nondeterminism is the order of the
answer RRset (rotation/permutation is real DNS behaviour) and the spelling of
targets (absolute with trailing dot, relative without).  Records are real
dnspython SRV rdata objects.
"""
from __future__ import annotations

import itertools
import random
import typing as t

from checks import common, drive
from simworld import prng, world as W

RECORD_TYPES = [(p, w, sp) for p in (0, 1, 2) for w in (0, 1, 2) for sp in (0, 1)]  # 18


class Resolver:
    def __init__(self, world, records):
        self.world = world
        self.records = records
        self.calls: t.List[tuple] = []

    def _answer(self, qname, rdtype, args, kw):
        import dns.name
        import dns.rdataclass
        import dns.rdatatype
        import dns.rdtypes.IN.SRV

        self.calls.append((str(qname), str(rdtype), args, dict(kw)))
        self.world.log("dns.query", str(qname), str(rdtype))
        out = []
        for i, (prio, weight, spelling) in enumerate(self.records):
            name = f"dc{i}.domain.test"
            target = dns.name.from_text(name + ".") if spelling == 0 else dns.name.from_text(name, origin=None)
            out.append(dns.rdtypes.IN.SRV.SRV(dns.rdataclass.IN, dns.rdatatype.SRV, prio, weight, 1000 + i, target))
        self.world.stats["dns"] += 1
        return out

    def resolve(self, qname, rdtype="A", *a, **kw):
        return self._answer(qname, rdtype, a, kw)

    async def aresolve(self, qname, rdtype="A", *a, **kw):
        return self._answer(qname, rdtype, a, kw)


def run(case) -> dict:
    """case: [records as indices into RECORD_TYPES, domain or None]"""
    import dpapi_ng._dns as ddns

    idxs, domain = case
    records = [RECORD_TYPES[i] for i in idxs]
    outs = {}
    calls = {}
    world = W.World(len(idxs))
    for fl in ("sync", "async"):
        res = Resolver(world, records)
        with world.installed(resolver=res, patch_entropy=False):
            if fl == "sync":
                outs[fl] = drive.classify(lambda: ddns.lookup_dc(domain))
            else:
                outs[fl] = drive.classify(lambda: drive.run_async(world, lambda: ddns.async_lookup_dc(domain)))
        calls[fl] = res.calls
    viol = None

    def V(fl, cond, detail):
        return common.violation("C20", cond, fl, "", "", "", f"{detail}; records(priority,weight,spelling)={records} domain={domain!r}")

    want_q = f"_ldap._tcp.dc._msdcs.{domain}" if domain else "_ldap._tcp.dc._msdcs"
    best_prio = min(r[0] for r in records)
    best_weight = max(r[1] for r in records if r[0] == best_prio)
    for fl in ("sync", "async"):
        o = outs[fl]
        if o.kind != "ok":
            viol = V(fl, "lookup-failed", f"{o.brief()} {o.exc!r}")
            break
        c = calls[fl]
        if len(c) != 1 or c[0][0] != want_q or c[0][1].upper() != "SRV" or c[0][3].get("search") is not True:
            viol = V(fl, "query", f"resolver was asked {c}, expected one SRV query for {want_q} with search=True")
            break
        r = o.value
        if (r.priority, r.weight) != (best_prio, best_weight):
            viol = V(fl, "selection", f"returned priority {r.priority} weight {r.weight}, best is priority {best_prio} weight {best_weight}")
            break
        i = r.port - 1000
        if not (0 <= i < len(records)) or records[i][0] != r.priority or records[i][1] != r.weight:
            viol = V(fl, "fields", f"port/weight/priority {r.port}/{r.weight}/{r.priority} do not belong to one record of the answer")
            break
        if r.target != f"dc{i}.domain.test":
            viol = V(fl, "target", f"target {r.target!r} (expected 'dc{i}.domain.test' without trailing dot)")
            break
    if not viol and outs["sync"].value != outs["async"].value:
        viol = V("sync-vs-async", "disagree", f"sync {outs['sync'].value} async {outs['async'].value}")
    spell = {r[2] for r in records}
    nontrivial = len(records) > 1 or 0 in spell
    return {"viol": viol, "digest": world.digest(), "key": common.key_hash(case) if nontrivial else None, "fired": {"dns": world.stats.get("dns", 0), "dns_reorder": int(len(records) > 1)},
            "probes": {"trailing_dot": int(0 in spell), "relative_target": int(1 in spell), "ties": int(sum(1 for r in records if (r[0], r[1]) == (best_prio, best_weight)) > 1)},
            "vtime_ns": world.stats.get("vtime_ns", 0)}


class C20(common.Check):
    id = "C20"
    level = "fault_enumeration"
    rule = ("case = (answer sequence, domain given or not). All sequences (= all multisets in every order) of 1..4 SRV records over "
            "priority {0,1,2} x weight {0,1,2} x target spelling {absolute with trailing dot, relative} are enumerated (111150 sequences; "
            "length 5 = 1.9 M exhaustively in thorough, sampled in quick), each through lookup_dc and async_lookup_dc. Non-trivial = more than "
            "one record or a trailing-dot target; distinct = distinct (sequence, domain).")
    components = {"selection code": "real (dpapi_ng._dns lookup_dc / async_lookup_dc / _get_highest_answer)", "resolver": "stub node returning real dnspython SRV rdata",
                  "async runtime": "simulated loop"}
    assumptions = ["no DNS wire format is simulated: dnspython is a dependency, not the system under test", "ties between equal (priority, weight) records are not judged beyond sync == async"]
    required_fired = ("trailing_dot", "relative_target", "ties", "dns_reorder")

    def exhaustive(self, tier):
        return True

    exhaustive_note = "all answer sequences of length <= 4 (quick) / <= 5 (thorough) over the stated record alphabet"

    def cases(self, tier, seed):
        out = []
        n = len(RECORD_TYPES)
        k = 0
        for ln in (1, 2, 3, 4) + ((5,) if tier == "thorough" else ()):
            for seq in itertools.product(range(n), repeat=ln):
                k += 1
                out.append([list(seq), ("corp.example", None, "a.b.c.d.test", "")[k % 4]])  # "" = the domain of a blob whose key identifier has none
        if tier == "quick":
            rng = prng.stream(seed, "C20")
            for _ in range(20000):
                out.append([[rng.randrange(n) for _ in range(rng.choice((5, 5, 6, 8)))], rng.choice(("corp.example", None, ""))])
        return out

    def run_case(self, case):
        return run(case)

    def shrink(self, case):
        idxs, dom = case
        for i in range(len(idxs)):
            if len(idxs) > 1:
                yield [idxs[:i] + idxs[i + 1 :], dom]
        if dom:
            yield [idxs, None]
            yield [idxs, ""]

    def sample_repr(self, case, res):
        return {"records_priority_weight_spelling": [RECORD_TYPES[i] for i in case[0]], "domain": case[1]}


CHECK = C20()
