"""C20 - DC discovery asks the right SRV name and picks the best record.

The resolver is a simulated node behind dns.resolver.resolve /
dns.asyncresolver.resolve; the injected nondeterminism is the order of the
answer RRset (rotation/permutation is real DNS behaviour) and the spelling of
targets (absolute with trailing dot, relative without).  Records are real
dnspython SRV rdata objects.
"""
from __future__ import annotations

import itertools
import random
import typing as t

from checks import common, drive
from simworld import prng, world as W

RECORD_TYPES = [(p, w, sp) for p in (0, 1, 2) for w in (0, 1, 2) for sp in (0, 1)]  # 18


class Resolver:
    def __init__(self, world, records, fail_first: int = 0, fail_kind: int = 0):
        self.world = world
        self.records = records
        self.fail_first, self.fail_kind = fail_first, fail_kind
        self.calls: t.List[tuple] = []

    def _answer(self, qname, rdtype, args, kw):
        import dns.name
        import dns.rdataclass
        import dns.rdatatype
        import dns.rdtypes.IN.SRV

        self.calls.append((str(qname), str(rdtype), args, dict(kw)))
        self.world.log("dns.query", str(qname), str(rdtype))
        out = []
        if self.fail_first > 0 and self.fail_kind < 2:
            # resolver fault: the first queries time out / find nothing, later ones are answered
            self.fail_first -= 1
            self.world.stats["dns_fault"] += 1
            import dns.exception
            import dns.resolver as _r

            raise (dns.exception.Timeout() if self.fail_kind == 0 else _r.NXDOMAIN())
        for i, rec in enumerate(self.records):
            prio, weight, spelling = rec[:3]
            host = rec[3] if len(rec) > 3 else i  # several records may name the same (multi-homed) host
            name = target_name(host)
            target = dns.name.from_text(name + ".") if spelling == 0 else dns.name.from_text(name, origin=None)
            out.append(dns.rdtypes.IN.SRV.SRV(dns.rdataclass.IN, dns.rdatatype.SRV, prio, weight, 1000 + i, target))
        self.world.stats["dns"] += 1
        # a real dnspython Answer (with the TTL-derived expiration a caching layer would look at), not just a list of records
        import dns.message
        import dns.resolver
        import dns.rrset

        qn = dns.name.from_text(str(qname).rstrip(".") + ".")
        resp = dns.message.make_response(dns.message.make_query(qn, dns.rdatatype.SRV))
        rr = resp.find_rrset(resp.answer, qn, dns.rdataclass.IN, dns.rdatatype.SRV, create=True)
        for rd in out:
            rr.add(rd, self.ttl)
        ans = dns.resolver.Answer(qn, dns.rdatatype.SRV, dns.rdataclass.IN, resp)
        if len(list(ans)) != len(out):  # (identical records would collapse in an RRset: fall back to the plain list)
            return out
        return ans

    def resolve(self, qname, rdtype="A", *a, **kw):
        return self._answer(qname, rdtype, a, kw)

    latency_s = 0.0
    ttl = 300

    async def aresolve(self, qname, rdtype="A", *a, **kw):
        if self.fail_kind >= 2 and self.fail_first > 0:
            # fault on the asynchronous path only: this event loop cannot give dnspython a datagram endpoint (an exotic loop
            # implementation, a sandbox); the blocking resolver would work
            self.fail_first -= 1
            self.calls.append((str(qname), str(rdtype), a, dict(kw)))
            self.world.stats["dns_fault"] += 1
            self.world.stats["dns_async_backend_fault"] += 1
            import dns.asyncbackend

            raise NotImplementedError("no datagram endpoint on this event loop") if self.fail_kind == 2 else dns.asyncbackend.AsyncLibraryNotFoundError("no async library detected")
        if self.latency_s:
            import asyncio

            await asyncio.sleep(self.latency_s)  # (virtual time: lookups issued together are in flight together)
        return self._answer(qname, rdtype, a, kw)


def run_threads(case) -> dict:
    """["threads", record indices, [domains...], seed, policy]: caller threads look up different domains at the same time (sync API);
    simworld.threads decides every pre-emption.  Each lookup must ask for ITS domain's SRV name and return a best record."""
    import random as _r

    import dpapi_ng._dns as ddns
    from checks import plan as P
    from simworld import threads as simthreads

    _, idxs, domains, seed, policy = case
    records = [RECORD_TYPES[i] for i in idxs]
    world = W.World(seed)
    res = Resolver(world, records)
    asked: t.Dict[int, list] = {}

    def job(k, dom):
        def run():
            n0 = len(res.calls)
            out = ddns.lookup_dc(dom)
            asked[k] = [c for c in res.calls[n0:]]
            return out

        return run

    with world.installed(resolver=res, patch_entropy=False):
        tsim = simthreads.ThreadSim(_r.Random(seed ^ 0xC20), P.SRC_PREFIX(), policy)
        try:
            results = tsim.run([job(k, d) for k, d in enumerate(domains)])
        except simthreads.Wedged as e:
            raise common.HarnessError(str(e))
    viol = None
    best_prio = min(r[0] for r in records)
    best_weight = max(r[1] for r in records if r[0] == best_prio)
    all_calls = [c[0] for c in res.calls]
    for k, (dom, (val, exc)) in enumerate(zip(domains, results)):
        want_q = f"_ldap._tcp.dc._msdcs.{dom}" if dom else "_ldap._tcp.dc._msdcs"
        if exc is not None:
            viol = common.violation("C20", "lookup-failed", "threads", type(exc).__name__, "", "", f"thread {k} looking up {dom!r} while other threads look up {domains}: {exc!r}")
            break
        if (val.priority, val.weight) != (best_prio, best_weight):
            viol = common.violation("C20", "selection", "threads", "", "", "", f"thread {k} ({dom!r}) got priority {val.priority} weight {val.weight}, best is {best_prio}/{best_weight}")
            break
    if viol is None and sorted(all_calls) != sorted((f"_ldap._tcp.dc._msdcs.{d}" if d else "_ldap._tcp.dc._msdcs") for d in domains):
        viol = common.violation("C20", "query", "threads", "", "", "", f"threads looked up {domains} at the same time but the resolver was asked {all_calls}; {len(tsim.switches)} pre-emptions")
    return {"viol": viol, "digest": world.digest() + str(all_calls), "key": common.key_hash(case), "sched_key": common.key_hash(tsim.switches) if tsim.switches else None,
            "fired": {"dns": world.stats.get("dns", 0), "thread_preemptions": len(tsim.switches)}, "probes": {"thread_lookups": 1, "thread_overlap": tsim.overlap}, "vtime_ns": 0, "_script": tsim.script()}


def run_burst(case) -> dict:
    """["burst", record indices, domain, n1, n2]: n1 async lookups in flight at once on one event loop, then n2 more on a NEW event
    loop of the same process (a second asyncio.run); every one of them must return the best record."""
    import asyncio

    import dpapi_ng._dns as ddns

    _, idxs, domain, n1, n2 = case
    records = [RECORD_TYPES[i] for i in idxs]
    world = W.World(len(idxs) + n1)
    res = Resolver(world, records)
    res.latency_s = 0.01
    best_prio = min(r[0] for r in records)
    best_weight = max(r[1] for r in records if r[0] == best_prio)
    viol = None
    with world.installed(resolver=res, patch_entropy=False):
        for burst, n in enumerate((n1, n2)):
            async def many(n=n):
                return await asyncio.gather(*(ddns.async_lookup_dc(domain) for _ in range(n)), return_exceptions=True)

            out = drive.classify(lambda: drive.run_async(world, many))
            vals = out.value if out.kind == "ok" else [out.exc] * n
            for k, v in enumerate(vals):
                if isinstance(v, BaseException) or (v.priority, v.weight) != (best_prio, best_weight):
                    viol = common.violation("C20", "lookup-failed" if isinstance(v, BaseException) else "selection", "async-burst", "second-event-loop" if burst else "", "", "",
                                            f"lookup {k + 1} of {n} concurrent lookups in event loop #{burst + 1} of the process gave {v!r}; records={records} domain={domain!r}")
                    break
            if viol:
                break
    return {"viol": viol, "digest": world.digest(), "key": common.key_hash(case), "fired": {"dns": world.stats.get("dns", 0)},
            "probes": {"async_bursts": 1}, "vtime_ns": world.stats.get("vtime_ns", 0)}


def run_unreachable(case) -> dict:
    """["unreach", record indices, domain]: a protect call with no server given finds the DC through DNS, and the connection to that DC is
    refused (it is down).  A later lookup in the same process - same answer set - must still return the best record: what a
    connection attempt experienced is not part of the selection rule."""
    import dpapi_ng
    import dpapi_ng._dns as ddns

    _, idxs, domain = case
    records = [RECORD_TYPES[i] for i in idxs]
    world = W.World(len(idxs))
    res = Resolver(world, records)
    best_prio = min(r[0] for r in records)
    best_weight = max(r[1] for r in records if r[0] == best_prio)
    viol = None
    outs = {}
    with world.installed(resolver=res, patch_entropy=False):
        for fl in ("sync", "async"):
            # nothing listens anywhere: whichever DC is chosen refuses the connection
            if fl == "sync":
                first = drive.classify(lambda: dpapi_ng.ncrypt_protect_secret(b"x", "S-1-5-21-1-2-3-500", domain_name=domain or None))
                outs[fl] = drive.classify(lambda: ddns.lookup_dc(domain))
            else:
                first = drive.classify(lambda: drive.run_async(world, lambda: dpapi_ng.async_ncrypt_protect_secret(b"x", "S-1-5-21-1-2-3-500", domain_name=domain or None)))
                outs[fl] = drive.classify(lambda: drive.run_async(world, lambda: ddns.async_lookup_dc(domain)))
            if first.kind != "raise":
                raise common.HarnessError(f"protect with no reachable DC returned {first.brief()}")
            o = outs[fl]
            if o.kind != "ok" or (o.value.priority, o.value.weight) != (best_prio, best_weight):
                viol = common.violation("C20", "selection" if o.kind == "ok" else "lookup-failed", fl, "after-connection-failure", "", "",
                                        f"after a call whose connection to the selected DC was refused, the lookup gave {o.value if o.kind == 'ok' else o.exc!r}; best is priority {best_prio} "
                                        f"weight {best_weight}; records={records} domain={domain!r}")
                break
    return {"viol": viol, "digest": world.digest(), "key": common.key_hash(case), "fired": {"dns": world.stats.get("dns", 0), "noconn": world.stats.get("noconn", 0)},
            "probes": {"after_connection_failure": 1}, "vtime_ns": world.stats.get("vtime_ns", 0)}


def target_name(host: int) -> str:
    """Host name of DC number ``host`` as its SRV record spells it (the answer's spelling is what callers get back: case kept,
    IDNA A-labels left as they are)."""
    return ("dc{h}.domain.test", "DC{h}.Domain.TEST", "dc{h}.xn--bcher-kva.example", "xn--mnchen-3ya.dc{h}.domain.test")[host % 4].format(h=host)


def run(case) -> dict:
    """case: [records as indices into RECORD_TYPES, domain or None]"""
    import dpapi_ng._dns as ddns

    if case[0] == "burst":
        return run_burst(case)
    if case[0] == "threads":
        return run_threads(case)
    if case[0] == "unreach":
        return run_unreachable(case)

    idxs, domain = case[:2]
    hosts = case[2] if len(case) > 2 and case[2] else None      # host id per record (repeated targets)
    fails = case[3] if len(case) > 3 else 0                     # number of failing queries before the answered one
    earlier = case[4] if len(case) > 4 else None                # answer set of an earlier lookup of the same name in this process
    earlier_dom = case[5] if len(case) > 5 else "same"            # ... or of ANOTHER name: "fqdn" (absolute, trailing dot), "none", "other"
    records = [RECORD_TYPES[i] + ((hosts[k],) if hosts else ()) for k, i in enumerate(idxs)]
    outs = {}
    calls = {}
    probes_extra: t.Dict[str, int] = {}
    world = W.World(len(idxs))
    for fl in ("sync", "async"):
        res = Resolver(world, records, fail_first=fails, fail_kind=(case[6] if len(case) > 6 else len(idxs) % 2))
        with world.installed(resolver=res, patch_entropy=False):
            if earlier:
                # the DNS data changed since an earlier lookup (weights / priorities were re-balanced)
                res.records = [RECORD_TYPES[i] for i in earlier]
                edom = {"same": domain, "fqdn": (domain or "domain.test") + ".", "none": None, "other": "elsewhere.example"}[earlier_dom]
                if fl == "sync":
                    drive.classify(lambda: ddns.lookup_dc(edom))
                else:
                    drive.classify(lambda: drive.run_async(world, lambda: ddns.async_lookup_dc(edom)))
                if earlier_dom != "same":
                    probes_extra["after_lookup_of_another_name"] = 1
                res.records = records
                # ... and the records' TTL has run out in the meantime
                world.clock.advance_ns((res.ttl + 5 + len(idxs)) * 1_000_000_000)
                probes_extra["after_earlier_lookup"] = 1
            for attempt in range(fails + 1):
                # a lookup that failed (resolver fault) is simply repeated by the caller, in the same process
                if fl == "sync":
                    outs[fl] = drive.classify(lambda: ddns.lookup_dc(domain))
                else:
                    outs[fl] = drive.classify(lambda: drive.run_async(world, lambda: ddns.async_lookup_dc(domain)))
                if attempt < fails and outs[fl].kind != "raise":
                    break
        calls[fl] = res.calls[-1:]
    viol = None

    def V(fl, cond, detail):
        return common.violation("C20", cond, fl, "after-resolver-fault" if fails else ("after-earlier-lookup" if earlier else ""), "", "",
                                f"{detail}; records(priority,weight,spelling[,host])={records} domain={domain!r} failing queries before={fails}")

    want_q = f"_ldap._tcp.dc._msdcs.{domain}" if domain else "_ldap._tcp.dc._msdcs"
    best_prio = min(r[0] for r in records)
    best_weight = max(r[1] for r in records if r[0] == best_prio)
    for fl in ("sync", "async"):
        o = outs[fl]
        if o.kind != "ok":
            viol = V(fl, "lookup-failed", f"{o.brief()} {o.exc!r}")
            break
        c = calls[fl]
        if fails:
            probes_extra["after_resolver_fault"] = 1
            if len(case) > 6:
                probes_extra["async_backend_fault"] = 1
        if len(c) != 1 or c[0][0] != want_q or c[0][1].upper() != "SRV" or c[0][3].get("search") is not True:
            viol = V(fl, "query", f"resolver was asked {c}, expected one SRV query for {want_q} with search=True")
            break
        r = o.value
        if (r.priority, r.weight) != (best_prio, best_weight):
            viol = V(fl, "selection", f"returned priority {r.priority} weight {r.weight}, best is priority {best_prio} weight {best_weight}")
            break
        i = r.port - 1000
        if not (0 <= i < len(records)) or records[i][0] != r.priority or records[i][1] != r.weight:
            viol = V(fl, "fields", f"port/weight/priority {r.port}/{r.weight}/{r.priority} do not belong to one record of the answer")
            break
        exp_t = target_name(records[i][3] if len(records[i]) > 3 else i)
        if "xn--" in exp_t:
            probes_extra["idna_a_label_target"] = 1
        if exp_t != exp_t.lower():
            probes_extra["mixed_case_target"] = 1
        if r.target != exp_t:
            viol = V(fl, "target", f"target {r.target!r} (expected {exp_t!r} without trailing dot)")
            break
    if not viol and outs["sync"].value != outs["async"].value:
        viol = V("sync-vs-async", "disagree", f"sync {outs['sync'].value} async {outs['async'].value}")
    spell = {r[2] for r in records}
    nontrivial = len(records) > 1 or 0 in spell
    return {"viol": viol, "digest": world.digest(), "key": common.key_hash(case) if nontrivial else None,
            "fired": {"dns": world.stats.get("dns", 0), "dns_reorder": int(len(records) > 1), "dns_fault": world.stats.get("dns_fault", 0)},
            "probes": probes_extra | {"repeated_target": int(bool(hosts) and len(set(hosts)) < len(hosts)), "trailing_dot": int(0 in spell), "relative_target": int(1 in spell), "ties": int(sum(1 for r in records if (r[0], r[1]) == (best_prio, best_weight)) > 1)},
            "vtime_ns": world.stats.get("vtime_ns", 0)}


class C20(common.Check):
    id = "C20"
    level = "fault_enumeration"
    rule = ("case = (answer sequence, domain given or not). All sequences (= all multisets in every order) of 1..4 SRV records over "
            "priority {0,1,2} x weight {0,1,2} x target spelling {absolute with trailing dot, relative} are enumerated (111150 sequences; "
            "length 5 = 1.9 M exhaustively in thorough, sampled in quick), each through lookup_dc and async_lookup_dc; answers of 2..3 records in which "
            "several records name the same host (all host assignments); resolver faults (the first 1..2 queries time out or return NXDOMAIN and "
            "the caller repeats the lookup in the same process); the same name looked up twice while the answer set changed in between; bursts of 2..9 async lookups in flight at once on one "
            "event loop and then again on a second event loop of the same process; 2..3 caller threads looking up different domains (single-label ones included) at the same time, pre-empted at PRNG-chosen line events; a fault of the asynchronous resolver backend only (NotImplementedError / no async library) before the caller's retry; a lookup after the lookup of another name (an absolute one with trailing dot, none, another domain); a lookup after a call whose connection to the selected DC was refused; target host names in lower case, mixed case and with IDNA A-labels (xn--) must come back as the record spells them; records are real dnspython Answer objects whose TTL runs out between two lookups; the client host's own DNS suffix differs from the AD domain. Non-trivial = more than "
            "one record or a trailing-dot target; distinct = distinct (sequence, domain).")
    components = {"selection code": "real (dpapi_ng._dns lookup_dc / async_lookup_dc / _get_highest_answer)", "resolver": "stub node returning real dnspython SRV rdata",
                  "async runtime": "simulated loop"}
    assumptions = ["no DNS wire format is simulated: dnspython is a dependency, not the system under test", "ties between equal (priority, weight) records are not judged beyond sync == async"]
    required_fired = ("trailing_dot", "relative_target", "ties", "dns_reorder", "repeated_target", "after_resolver_fault", "dns_fault", "after_earlier_lookup", "async_bursts", "after_connection_failure", "idna_a_label_target", "mixed_case_target", "after_lookup_of_another_name", "async_backend_fault", "thread_lookups", "thread_overlap")

    def exhaustive(self, tier):
        return True

    exhaustive_note = "all answer sequences of length <= 4 (quick) / <= 5 (thorough) over the stated record alphabet"

    def cases(self, tier, seed):
        out = []
        n = len(RECORD_TYPES)
        k = 0
        for ln in (1, 2, 3, 4) + ((5,) if tier == "thorough" else ()):
            for seq in itertools.product(range(n), repeat=ln):
                k += 1
                out.append([list(seq), ("corp.example", None, "a.b.c.d.test", "", "corp", "LOCAL", "corp.example.", "gone.test.")[k % 8]])  # "" = the domain of a blob whose key identifier has none
        # answers in which several records name the same host (multi-homed DC listed twice): all host assignments for length <= 3
        for ln in (2, 3):
            for seq in itertools.product(range(0, n, 2), repeat=ln):
                for hosts in itertools.product((0, 1), repeat=ln):
                    if len(set(hosts)) < ln:
                        k += 1
                        out.append([list(seq), ("corp.example", None)[k % 2], list(hosts), 0])
        # resolver faults: the first 1-2 queries fail (timeout / NXDOMAIN), the caller retries in the same process
        rng0 = prng.stream(seed, "C20", "faults")
        for _ in range(3000 if tier == "quick" else 60000):
            out.append([[rng0.randrange(n) for _ in range(rng0.randint(1, 4))], rng0.choice(("corp.example", None, "")), None, rng0.randint(1, 2)])
        # ... or only the asynchronous resolver path is broken (no datagram endpoint / no async library): the sync flavour is unaffected,
        # the async one fails until the caller's retry finds the path working again
        for _ in range(600 if tier == "quick" else 12000):
            out.append([[rng0.randrange(n) for _ in range(rng0.randint(1, 4))], rng0.choice(("corp.example", None, "")), None, rng0.randint(1, 2), None, "same", rng0.choice((2, 3))])
        # the same name looked up twice in one process while the answer set changed in between
        for _ in range(4000 if tier == "quick" else 80000):
            a = [rng0.randrange(n) for _ in range(rng0.randint(1, 4))]
            b_ = [rng0.randrange(n) for _ in range(len(a))] if rng0.random() < 0.7 else [rng0.randrange(n) for _ in range(rng0.randint(1, 4))]
            out.append([b_, rng0.choice(("corp.example", None)), None, 0, a])
            if rng0.random() < 0.4:
                # ... or another name was looked up before (an absolute one with its trailing dot, none at all, another domain)
                out[-1].append(rng0.choice(("fqdn", "fqdn", "none", "other")))
        # a call that found its DC through DNS could not connect to it; then the same name is looked up again
        for _ in range(300 if tier == "quick" else 8000):
            out.append(["unreach", [rng0.randrange(n) for _ in range(rng0.randint(2, 4))], rng0.choice(("corp.example", None))])
        # bursts of concurrent async lookups on one event loop, then again on a second event loop of the same process
        for _ in range(200 if tier == "quick" else 5000):
            out.append(["burst", [rng0.randrange(n) for _ in range(rng0.randint(1, 4))], rng0.choice(("corp.example", None)), rng0.randint(2, 9), rng0.randint(2, 9)])
        # caller threads looking up different domains at the same time
        from checks import threadpure

        for k_ in range(600 if tier == "quick" else 20000):
            doms = rng0.sample(["a.test", "b.test", "corp.example", None, "c.d.e.test", "corp", "LOCAL"], 2 + k_ % 2)
            pol = {"mode": "marks", "q": (0.3, 0.6, 0.9, 1.0)[k_ % 4], "p": (0.0, 0.05)[(k_ // 4) % 2]} if k_ % 3 else threadpure.policy_for(k_ // 3, seams=False)
            out.append(["threads", [rng0.randrange(n) for _ in range(rng0.randint(1, 3))], doms, rng0.getrandbits(30), pol])
        if tier == "quick":
            rng = prng.stream(seed, "C20")
            for _ in range(20000):
                out.append([[rng.randrange(n) for _ in range(rng.choice((5, 5, 6, 8)))], rng.choice(("corp.example", None, ""))])
        return out

    def run_case(self, case):
        return run(case)

    def shrink(self, case):
        if case[0] == "threads":
            from checks import threadpure

            yield from threadpure.shrinks(case, 4, None, run_threads)
            return
        if case[0] in ("burst", "unreach"):
            return
        idxs, dom = case[:2]
        if len(case) > 2:
            return
        for i in range(len(idxs)):
            if len(idxs) > 1:
                yield [idxs[:i] + idxs[i + 1 :], dom]
        if dom:
            yield [idxs, None]
            yield [idxs, ""]

    def sample_repr(self, case, res):
        if case[0] == "threads":
            return dict(zip(("kind", "records", "domains_looked_up_by_the_threads", "seed", "thread_policy"), case))
        if case[0] == "burst":
            return dict(zip(("kind", "records", "domain", "concurrent_lookups_loop_1", "concurrent_lookups_loop_2"), case))
        if case[0] == "unreach":
            return dict(zip(("kind", "records", "domain"), case))
        return {"records_priority_weight_spelling": [RECORD_TYPES[i] for i in case[0]], "domain": case[1], "host_per_record": case[2] if len(case) > 2 else None,
                "failing_queries_before": case[3] if len(case) > 3 else 0, "earlier_answer_set": [RECORD_TYPES[i] for i in case[4]] if len(case) > 4 else None}


CHECK = C20()
