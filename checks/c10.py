"""C10 - KeyCache is transparent under any history / interleaving and avoids repeat RPCs.

One KeyCache shared by every operation of a plan: root-key loads, unprotects of
reference-made blobs (two root keys, two SIDs, two L0 epochs, many positions),
protects, each offline or online, sync or async; consecutive async operations
run concurrently on the simulated loop (PRNG latencies decide the completion
order), clock advances and partitions in between.

Reference model ("what a fresh cache would do", computed analytically from the
world state at invocation) gives the set of acceptable outcomes; the DC's
request log gives the RPC count.
"""
from __future__ import annotations

import random
import typing as t

from checks import common, drive, offline, plan as P
from ref import cms, dtyp, gkdi
from simworld import prng

B = gkdi.B
SIDS = (offline.SID_A, offline.SID_B)  # caller is a member of SID_A only


def gen_plan(rng, i: int, tier: str) -> dict:
    l0 = rng.randrange(340, 470)
    now_pos = (rng.randrange(2, 31), rng.randrange(0, 32))
    now = ((l0 * 32 + now_pos[0]) * 32 + now_pos[1]) * B + rng.randrange(B)
    hashes = [offline.HASHES[i % 4], offline.HASHES[(i // 4) % 4]]
    plan = {"seed": rng.getrandbits(31), "clock_ft": now, "root_keys": [[20 + i % 3, hashes[0], "DH"], [30 + i % 3, hashes[1], rng.choice(("DH", "ECDH_P256"))]],
            "caller_sids": [offline.SID_A], "ctx": {"kind": "stub", "legs": 2, "sig": 16},
            "dc": {"omit_l2_at_31": rng.random() < 0.5},
            "delivery": rng.choice((None, None, {"mode": "rand", "seed": rng.getrandbits(16), "bias": "small"})),
            "latency_us": [1, rng.choice((50, 5000, 200000))], "ops": []}
    ops = plan["ops"]

    def pos_choice(same_l0: bool):
        r = rng.random()
        if not same_l0:
            return [l0 - 1, rng.choice((0, 31, rng.randrange(32))), rng.choice((0, 31, rng.randrange(32)))]
        if r < 0.15:
            return [l0, now_pos[0], now_pos[1]]
        if r < 0.25:  # in the DC's future
            return [l0, min(31, now_pos[0] + rng.randint(0, 2)), rng.randrange(32)] if rng.random() < 0.5 else [l0, now_pos[0], min(31, now_pos[1] + 1)]
        a = rng.randrange(0, now_pos[0] + 1)
        b_ = rng.choice((0, 31, rng.randrange(32)))
        if a == now_pos[0]:
            b_ = rng.randrange(0, now_pos[1] + 1)
        return [l0, a, b_]

    if i % 25 == 24:
        # long offline history over many L0 epochs on one cache (cache growth / eviction paths)
        ops.append({"op": "load_key", "rk": 0})
        for k in range(rng.randint(17, 24)):
            ops.append({"op": "unprotect", "fl": "sync" if k % 3 else "async", "net": "offline", "group": None,
                        "blob": {"rk": 0, "sid": offline.SID_A, "pos": [l0 - k, rng.randrange(32), rng.randrange(32)], "mode": "nonce", "data": 3}})
        plan["family"] = "many-l0"
        return plan
    if i % 25 == 12:
        # several L0 epochs of one (root key, SD) fetched at the same time by caller threads (or async tasks), then each position again
        fl = "thread" if i % 50 == 12 else "async"
        poss = [[l0 - k, rng.randrange(32), rng.randrange(32)] for k in range(1, rng.randint(3, 4))]
        for p in poss:
            ops.append({"op": "unprotect", "fl": fl, "net": "online", "group": 1, "blob": {"rk": 0, "sid": offline.SID_A, "pos": p, "mode": "nonce", "data": 4}})
        for p in poss:
            ops.append({"op": "unprotect", "fl": rng.choice(("sync", "async")), "net": "online", "group": None,
                        "blob": {"rk": 0, "sid": offline.SID_A, "pos": [p[0], rng.randrange(0, p[1] + 1), 0], "mode": "nonce", "data": 4}})
        plan["family"] = "epochs-at-once"
        if fl == "thread":
            r = random.Random(plan["seed"])
            # lockstep at the world's seams (so that the stores of the threads fall together) plus line-level pre-emption in between
            plan["threads"] = {"mode": "marks", "q": r.choice((0.7, 0.9, 1.0)), "p": r.choice((0.02, 0.1, 0.3))} if r.random() < 0.7 else {"mode": "prob", "p": r.choice((0.05, 0.3))}
        return plan
    if i % 25 == 3:
        # the wall clock keeps moving (a few ticks per reading) and an interval boundary passes during cache-served protects; every blob
        # must be one the reference can open, and the unprotects that follow (DC unreachable) must work from the same cache
        r_ = random.Random(plan["seed"])
        l1_, l2_ = r_.choice(((31, 31), (31, 31), (5, 31), (5, 7)))
        bnd = gkdi.interval_start_filetime(l0, l1_, l2_) + B
        tick = r_.choice((100, 100, 300, 900))
        plan["clock_ft"] = bnd - r_.randrange(1, 14) * (tick // 100)
        plan["clock_tick_ns"] = tick
        plan["family"] = "moving-clock"
        ops.append({"op": "load_key", "rk": 0})
        for _ in range(r_.randint(2, 4)):
            ops.append({"op": "protect", "fl": r_.choice(("sync", "async")), "net": "offline", "group": None, "sid": offline.SID_A, "rk": 0, "data": 6})
        return plan
    if i % 25 == 18:
        # a ladder on one triple: fetch at a low position, hit it, fetch at a higher position, then positions in between and below
        # (whatever the cache remembers about its last answer, the newer, more covering material must serve them)
        lo_ = [l0, rng.randrange(0, max(1, now_pos[0] - 1)), rng.randrange(32)]
        hi_ = [l0, rng.randrange(lo_[1] + 1, now_pos[0] + 1), rng.randrange(32)] if lo_[1] + 1 <= now_pos[0] else [l0, now_pos[0], now_pos[1]]
        if tuple(hi_) > (l0,) + now_pos:
            hi_ = [l0, now_pos[0], now_pos[1]]
        mk = lambda p_, net="online": {"op": "unprotect", "fl": rng.choice(("sync", "async")), "net": net, "group": None,  # noqa: E731
                                      "blob": {"rk": 0, "sid": offline.SID_A, "pos": list(p_), "mode": rng.choice(("nonce", "pub")), "data": 4}}
        ops.append(mk(lo_))
        ops.append(mk([l0, lo_[1], rng.randrange(0, lo_[2] + 1)]))
        if rng.random() < 0.5:
            ops.append({"op": "protect", "fl": rng.choice(("sync", "async")), "net": "online", "group": None, "sid": offline.SID_A, "rk": 0, "data": 5})
        ops.append(mk(hi_))
        for _ in range(rng.randint(1, 3)):
            between = [l0, rng.randrange(lo_[1], hi_[1] + 1), rng.randrange(32)]
            if tuple(between) > tuple(hi_):
                between = list(hi_)
            ops.append(mk(between, rng.choice(("online", "online", "offline"))))
        ops.append(mk([l0, lo_[1], 0]))
        plan["family"] = "ladder"
        return plan
    if i % 25 == 6:
        # the DC found through DNS serves a first call, then goes away for good while another one (same keys, another name) takes
        # over and the SRV record follows; later calls on the same cache that need the DC must find the new one
        plan["use_dns"] = True
        plan["family"] = "dc-failover"
        fls = lambda: rng.choice(("sync", "async"))  # noqa: E731
        first = pos_choice(True)
        if tuple(first) > (l0,) + now_pos:
            first = [l0, now_pos[0], 0]
        ops.append({"op": "unprotect", "fl": fls(), "net": "online", "group": None, "blob": {"rk": 0, "sid": offline.SID_A, "pos": first, "mode": "nonce", "data": 4}})
        if rng.random() < 0.5:
            ops.append({"op": "protect", "fl": fls(), "net": "online", "group": None, "sid": offline.SID_A, "rk": rng.choice((None, 0)), "data": 5})
        ops.append({"op": "dc_failover", "host": rng.choice(("dc02.domain.test", "dc-b.sub.domain.test"))})
        for _ in range(rng.randint(1, 3)):
            r = rng.random()
            if r < 0.4:  # another epoch of the same key: not covered
                p_ = [l0 - rng.randint(1, 2), rng.randrange(32), rng.randrange(32)]
                rk_ = 0
            elif r < 0.6:  # the other root key
                p_, rk_ = pos_choice(True), 1
            elif r < 0.8:  # covered by what the first call obtained: no DC at all
                p_, rk_ = [l0, rng.randrange(0, first[1] + 1), 0], 0
            else:
                p_, rk_ = [l0, now_pos[0], now_pos[1]], 0
            ops.append({"op": "unprotect", "fl": fls(), "net": "online", "group": None, "blob": {"rk": rk_, "sid": offline.SID_A, "pos": p_, "mode": rng.choice(("nonce", "pub")), "data": 4}})
        if rng.random() < 0.4:
            ops.append({"op": "protect", "fl": fls(), "net": "online", "group": None, "sid": rng.choice(SIDS), "rk": rng.choice((None, 1)), "data": 5})
        return plan
    n = rng.randint(2, 10 if tier == "thorough" else 7)
    focus_rk, focus_sid = rng.randrange(2), rng.choice(SIDS[:1] * 3 + SIDS[1:])
    g = 0
    for k in range(n):
        r = rng.random()
        net = "online" if rng.random() < 0.75 else rng.choice(("offline", "offline", "slow"))
        fl = rng.choice(("sync", "async", "async"))
        grp = None
        if fl == "async":
            if ops and ops[-1].get("fl") == "async" and ops[-1].get("group") is not None and rng.random() < 0.7:
                grp = ops[-1]["group"]
                net = ops[-1]["net"]
            else:
                g += 1
                grp = g
        if r < 0.14:
            ops.append({"op": "load_key", "rk": focus_rk if rng.random() < 0.8 else 1 - focus_rk})
        elif r < 0.19:
            ops.append({"op": "clock", "advance_ticks": rng.choice((1, B, 3 * B, 32 * B, -B, -2 * B))})  # the wall clock may also step back
        elif r < 0.22:
            ops.append({"op": "identity", "sids": rng.choice(([offline.SID_A], [offline.SID_A, offline.SID_B], [offline.SID_B], []))})
        elif r < 0.75:
            rk = focus_rk if rng.random() < 0.8 else 1 - focus_rk
            cancel = rng.choice((None,) * 9 + (rng.choice((1, 300, 3000, 20000)),)) if fl == "async" and grp is not None else None
            sid = focus_sid if rng.random() < 0.8 else rng.choice(SIDS)
            ops.append({"op": "unprotect", "fl": fl, "net": net, "group": grp,
                        "blob": {"rk": rk, "sid": sid, "pos": pos_choice(rng.random() < 0.8), "mode": rng.choice(("nonce", "nonce", "pub")),
                                 "trailing": rng.random() < 0.2, "data": rng.choice((1, 20))}})
            if cancel is not None:
                ops[-1]["cancel_after_us"] = cancel
            if random.Random(plan["seed"] + k).random() < 0.12:
                # the stored record is damaged (last tag bit flipped): the call fails after the key was fetched; a later call for the same
                # position on the same cache finds the key
                ops[-1]["blob"]["faults"] = [["tagflip"]]
                again = dict(ops[-1], blob={kk: vv for kk, vv in ops[-1]["blob"].items() if kk != "faults"}, group=None, fl=rng.choice(("sync", "async")))
                again.pop("cancel_after_us", None)
                plan.setdefault("_append_later", []).append(again)
        else:
            ops.append({"op": "protect", "fl": fl, "net": net, "group": grp, "sid": focus_sid if rng.random() < 0.8 else rng.choice(SIDS),
                        "rk": rng.choice((None, focus_rk, focus_rk)), "data": 12})
    for extra in plan.pop("_append_later", []):
        if extra.get("fl") == "async":
            extra["group"] = 1000 + len(ops)
        ops.append(extra)
    if i % 4 == 1:
        threadify(plan)
    return plan


def threadify(plan: dict) -> None:
    """The plan's concurrent groups become caller threads using the sync API (simworld.threads decides every pre-emption)."""
    r = random.Random(plan["seed"])
    for o in plan["ops"]:
        if o.get("fl") == "async":
            o["fl"] = "thread"
            o.pop("cancel_after_us", None)
    k = r.random()
    if k < 0.25:
        plan["threads"] = {"mode": "marks", "q": r.choice((0.2, 0.5, 0.9)), "p": r.choice((0.0, 0.002))}
    elif k < 0.5:
        plan["threads"] = {"mode": "prob", "p": r.choice((0.002, 0.02, 0.2))}
    else:
        plan["threads"] = {"mode": "points", "n": r.choice((1, 2, 3, 6)), "horizon": r.choice((400, 4000, 20000))}
    plan["threads"]["gran"] = "line"  # (opcode events are not repeatable under CPython 3.12.1: the first execution of a code object misses them)
    plan["family"] = "threads"


def judge(plan, tr: P.Trace):
    probes: t.Dict[str, int] = {}
    dc = tr.dc
    if dc.all_violations:
        return common.violation("C10", "dc-rejected-request", "", "", "", "", f"{dc.all_violations[:2]}"), probes
    loaded: t.Dict[int, int] = {}  # rk index -> seq at which load completed
    covered: t.Dict[tuple, t.List[t.Tuple[tuple, int]]] = {}  # (rk idx, sd, l0) -> [(position, return_seq of the obtaining op)]
    rk_index = {rk.root_key_id: i for i, rk in enumerate(tr.root_keys)}
    member_sids = set(plan["caller_sids"])
    pending: t.Dict[t.Any, t.Dict[tuple, t.List[tuple]]] = {}  # thread group -> triple -> positions obtained inside it
    for ot in tr.ops:
        op = ot.op
        kind = op["op"]
        for gid in [g_ for g_ in pending if g_ != op.get("group") or op.get("fl") != "thread"]:
            end = max(o_.return_seq for o_ in tr.ops if o_.op.get("fl") == "thread" and o_.op.get("group") == gid)
            for triple_, poss in pending.pop(gid).items():
                covered.setdefault(triple_, []).append((min(poss), end))
        if kind == "identity":
            member_sids = set(op["sids"])
            probes["identity_change"] = 1
            continue
        if kind == "load_key":
            loaded[op["rk"]] = ot.return_seq
            continue
        if kind not in ("protect", "unprotect"):
            continue
        fl = op["fl"] + ("-concurrent" if op.get("group") is not None and sum(1 for o in plan["ops"] if o.get("group") == op.get("group")) > 1 else "")
        out = ot.outcome
        now = gkdi.interval_of_filetime(ot.clock_ft)
        online = op.get("net") == "online"
        if out.kind == "cancelled":
            if op.get("cancel_after_us") is None:
                return common.violation("C10", "termination", op["fl"] + "-concurrent", "cancelled-though-nobody-cancelled-it", "", "",
                                        f"op {ot.idx} {kind} ended with CancelledError although only another call of the group was cancelled by its caller"), probes
            probes["cancelled_by_caller"] = probes.get("cancelled_by_caller", 0) + 1
            continue  # the caller gave up on this call; the others are judged as usual
        # ---- (1) termination -------------------------------------------------
        if out.kind in ("budget", "blocks", "spin"):
            et, frame = drive.exc_sig(out)
            hist = "root-key-after-rpc" if any(o["op"] == "load_key" for o in plan["ops"]) else ""
            return common.violation("C10", "termination", fl, out.kind, frame, hist,
                                    f"op {ot.idx} {kind} did not terminate: {out.exc}; history={[o['op'] for o in plan['ops']]}"), probes
        # ---- (2) outcome vs the fresh-cache model ------------------------------
        damaged = kind == "unprotect" and bool((ot.blob_spec or {}).get("faults"))
        if kind == "unprotect":
            spec = ot.blob_spec
            rki, sid, pos = spec["rk"], spec["sid"], tuple(spec["pos"])
            sd = dtyp.target_sd(sid)
            rk_loaded_before = rki in loaded and loaded[rki] <= ot.invoke_seq
            if damaged:
                fresh_ok = False  # (a fresh cache cannot open a record whose tag is damaged either)
                probes["damaged_record"] = probes.get("damaged_record", 0) + 1
            elif rk_loaded_before:
                fresh_ok = True
            elif not online:
                fresh_ok = False
            else:
                fresh_ok = pos <= now and sid in member_sids
            triple = (rki, sd, pos[0])
            want_args = (sd, tr.root_keys[rki].root_key_id, *pos)
        else:
            sid = op["sid"]
            sd = dtyp.target_sd(sid)
            rki = op.get("rk")
            rk_loaded_before = rki is not None and rki in loaded and loaded[rki] <= ot.invoke_seq
            fresh_ok = rk_loaded_before or online
            pos = now
            triple = (rki, sd, now[0]) if rki is not None else None
            want_args = (sd, tr.root_keys[rki].root_key_id if rki is not None else None, -1, -1, -1)
        if out.kind == "ok" and damaged:
            return common.violation("C10", "wrong-result", fl, "damaged-record-opened", "", "", f"op {ot.idx}: a record with a flipped tag bit was unprotected"), probes
        if out.kind == "ok":
            if kind == "unprotect":
                if out.value != ot.plaintext:
                    return common.violation("C10", "wrong-result", fl, "plaintext", "", "", f"op {ot.idx} unprotect returned different bytes with the shared cache"), probes
            else:
                try:
                    p = cms.parse_blob(out.value)
                    rk = tr.root_keys[rk_index[p["key_identifier"]["root_key_id"]]]
                    pt = cms.unprotect_parsed(p, rk)[0]
                except Exception as e:  # noqa: BLE001
                    return common.violation("C10", "wrong-result", fl, "blob-undecryptable", "", "", f"op {ot.idx} protect blob cannot be opened by the reference: {e!r}"), probes
                if pt != ot.plaintext:
                    return common.violation("C10", "wrong-result", fl, "blob-plaintext", "", "", f"op {ot.idx} protect blob decrypts to other bytes"), probes
                kid = p["key_identifier"]
                now_end = gkdi.interval_of_filetime(ot.clock_ft_end) if ot.clock_ft_end else now  # (the clock may move while the call runs)
                if triple is not None and rki is not None and not (now <= (kid["l0"], kid["l1"], kid["l2"]) <= now_end) and not any(g.get("mode") == "current" for g in ot.getkeys):
                    return common.violation("C10", "wrong-result", fl, "blob-interval", "", "", f"op {ot.idx} cached protect names {(kid['l0'], kid['l1'], kid['l2'])} at {now}"), probes
            probes["ok_" + kind] = probes.get("ok_" + kind, 0) + 1
            if not fresh_ok:
                probes["cache_made_it_possible"] = probes.get("cache_made_it_possible", 0) + 1
        else:
            if fresh_ok:
                et, frame = drive.exc_sig(out)
                return common.violation("C10", "transparency", fl, et, frame, kind,
                                        f"op {ot.idx} {kind} failed with the shared cache ({out.exc!r}) but succeeds with a fresh cache; "
                                        f"history={[(o['op'], (o.get('blob') or {}).get('pos'), o.get('net')) for o in plan['ops'][: ot.idx + 1]]}"), probes
            probes["legit_failure"] = probes.get("legit_failure", 0) + 1
        # ---- (3) RPC economy ----------------------------------------------------
        mine = [g for g in ot.getkeys if (g.get("sd"), g.get("root_key_id"), g.get("l0"), g.get("l1"), g.get("l2")) == want_args]
        if triple is not None:
            cov = [(p_, seq) for (p_, seq) in covered.get(triple, []) if seq <= ot.invoke_seq]
            rk_cov = rki in loaded and loaded[rki] <= ot.invoke_seq
            is_cov = rk_cov or any(p_ >= pos for p_, _s in cov)
            if is_cov:
                probes["covered_op"] = probes.get("covered_op", 0) + 1
                if mine:
                    why = "root key loaded" if rk_cov else f"seed for {max(p_ for p_, _ in cov)} obtained earlier"
                    return common.violation("C10", "rpc-economy", fl, kind, "", "",
                                            f"op {ot.idx} {kind} at {pos} contacted the DC {len(mine)}x although covering material was in the cache ({why}); "
                                            f"history={[(o['op'], (o.get('blob') or {}).get('pos'), o.get('net'), o.get('rk')) for o in plan['ops'][: ot.idx + 1]]}"), probes
                probes["cache_hit_no_rpc"] = probes.get("cache_hit_no_rpc", 0) + 1
        # ---- bookkeeping: what this op obtained (key material fetched from the DC counts even when the call then failed on
        # a damaged record: "obtained" is about the GetKey exchange, not about the record) -----------------------------------
        if out.kind == "ok" or (damaged and out.kind == "raise"):
            for g in mine:
                if g.get("kind") == "seed" and g.get("hresult") == 0:
                    rid = rk_index[g["envelope_fields"]["root_key_id"]]
                    if op["fl"] == "thread" and fl.endswith("-concurrent"):
                        # KeyCache._store_key is read-compare-write and the library does not claim thread safety: of two threads storing
                        # for one triple either envelope may stay.  What the group leaves behind is credited when the whole group has
                        # returned, at the lowest position any of its threads obtained (earlier material is never replaced by a lower one).
                        pending.setdefault(op["group"], {}).setdefault((rid, g["sd"], g["position"][0]), []).append(tuple(g["position"]))
                        probes["thread_obtained"] = probes.get("thread_obtained", 0) + 1
                    else:
                        covered.setdefault((rid, g["sd"], g["position"][0]), []).append((tuple(g["position"]), ot.return_seq))
    return None, probes


class C10(common.Check):
    id = "C10"
    level = "exploration"
    rule = ("case = plan of 2..10 operations on ONE shared KeyCache over {load_key, unprotect of a reference-made blob (2 root keys x 2 SIDs x "
            "current/previous L0 x positions incl. corners and DC-future), protect (root key id named or not), clock advance or step back, change of "
            "the caller's group membership, unprotect of a record whose tag bit is flipped followed later by the intact one}, plus long offline "
            "histories over 17..24 L0 epochs, plus cache-served protects under a wall clock that moves with every reading while an interval boundary passes, plus ladders on one triple (fetch low, hit, fetch higher, then positions in between), plus histories in which the DC found through DNS serves a first call and then goes away for good while another one takes over under another name (calls that need a DC must reach the new one, covered calls none), plus several L0 epochs of one (root key, SD) fetched at once by caller threads / async tasks and then used again, each offline or "
            "online, sync or async; consecutive async operations of a group run concurrently under the PRNG scheduler (latencies up to 200 ms "
            "decide completion order; a caller may cancel its call at a PRNG-chosen virtual instant; connects slower than the 5 s timeout), PRNG "
            "segmentation. Oracle: termination within 300 KDF calls; outcome in the set a fresh cache (with the "
            "root keys loaded so far) allows; zero GetKey at the DC for operations started after covering material was obtained. "
            "Non-trivial = plan with >= 2 API operations on the same cache; distinct = distinct plan (the schedule is a function of the seed).")
    components = {"client": "real (public API both flavours, KeyCache, key derivation)", "DC": "model (RefDC) with request log",
                  "scheduler / transport / clock": "simulated (SimLoop external-completion order from the PRNG, ready queue FIFO)",
                  "security context": "stub (StubCtx)", "reference model": "analytic fresh-cache model + ref.cms/ref.gkdi"}
    assumptions = ["'fresh cache' = a new KeyCache holding the root keys loaded so far", "two overlapping operations may both fetch: RPC economy is judged only for operations invoked after the covering one returned (global event sequence numbers)"]
    required_fired = ("cache_hit_no_rpc", "cache_made_it_possible", "legit_failure", "concurrent_groups", "covered_op", "identity_change", "many_l0", "slowconn", "cancelled_by_caller",
                      "thread_groups", "thread_overlap", "thread_obtained", "damaged_record", "epochs_at_once", "dc_failover", "ladder_histories", "moving_clock_histories")

    def cases(self, tier, seed):
        rng = prng.stream(seed, "C10")
        n = 3000 if tier == "quick" else 150000
        return [gen_plan(rng, i, tier) for i in range(n)]

    def run_case(self, case):
        tr = P.execute_plan(case)
        viol, probes = judge(case, tr)
        st = tr.world.stats
        groups = {}
        for o in case["ops"]:
            if o.get("group") is not None:
                groups[o["group"]] = groups.get(o["group"], 0) + 1
        conc = sum(1 for v in groups.values() if v > 1)
        probes["concurrent_groups"] = conc
        probes["many_l0"] = int(case.get("family") == "many-l0")
        probes["epochs_at_once"] = int(case.get("family") == "epochs-at-once")
        probes["dc_failover"] = st.get("dc_failover", 0)
        probes["ladder_histories"] = int(case.get("family") == "ladder")
        probes["moving_clock_histories"] = int(case.get("family") == "moving-clock")
        probes["thread_groups"] = sum(1 for g_, v in groups.items() if v > 1 and any(o.get("group") == g_ and o.get("fl") == "thread" for o in case["ops"]))
        probes["thread_overlap"] = st.get("toverlap", 0)
        sched = common.key_hash(tr.schedule)
        n_api = sum(1 for o in case["ops"] if o["op"] in ("protect", "unprotect"))
        return {"viol": viol, "digest": tr.world.digest(), "key": common.key_hash([case, sched]) if n_api >= 2 else None, "sched_key": sched if tr.schedule else None,
                "replay_pref": conc >= 2,  # several concurrent groups = several event loops / thread groups inside one case
                "fired": {"sched_choice_points": st.get("choice_points", 0), "seg": st.get("seg", 0), "clk": st.get("clk", 0), "noconn": st.get("noconn", 0),
                          "slowconn": st.get("slowconn", 0), "cancel": st.get("cancel", 0), "thread_preemptions": st.get("tswitch", 0)},
                "probes": probes, "vtime_ns": st.get("vtime_ns", 0)}

    def shrink(self, case):
        ops = case["ops"]
        for i in range(len(ops)):
            if len(ops) > 1:
                yield dict(case, ops=ops[:i] + ops[i + 1 :])
        for i, o in enumerate(ops):
            if o.get("fl") == "thread":
                yield dict(case, ops=ops[:i] + [dict(o, fl="sync", group=None)] + ops[i + 1 :])
            if o.get("fl") == "async":
                yield dict(case, ops=ops[:i] + [dict(o, fl="sync", group=None)] + ops[i + 1 :])
            if o.get("op") == "unprotect" and o["blob"].get("mode") == "pub":
                yield dict(case, ops=ops[:i] + [dict(o, blob=dict(o["blob"], mode="nonce"))] + ops[i + 1 :])
        if case.get("delivery"):
            yield dict(case, delivery=None)
        if case["dc"].get("omit_l2_at_31"):
            yield dict(case, dc={"omit_l2_at_31": False})
        yield from P.thread_shrinks(case)

    def sample_repr(self, case, res):
        return {"clock_interval": gkdi.interval_of_filetime(case["clock_ft"]), "root_keys": case["root_keys"], "latency_us": case["latency_us"],
                "ops": [(o["op"], o.get("fl"), o.get("net"), o.get("group"), o.get("rk"), (o.get("blob") or {}).get("rk"), (o.get("blob") or {}).get("sid", "")[-4:],
                         (o.get("blob") or {}).get("pos")) for o in case["ops"]]}


CHECK = C10()
