"""Self-tests of the machinery: sensitivity (mutants), determinism (fresh interpreters)."""
from __future__ import annotations

import glob
import os
import shutil
import subprocess
import sys
import tempfile

VERIF = os.path.dirname(os.path.dirname(os.path.abspath(__file__)))


_SNAP = None


def _snapshot() -> str:
    """A long sensitivity run executes a frozen copy of the machinery, so that /verif may be edited meanwhile."""
    global _SNAP
    if _SNAP is None:
        import atexit

        _SNAP = tempfile.mkdtemp(prefix="verif-snap-")
        for d in ("checks", "simworld", "ref", "tables"):
            shutil.copytree(os.path.join(VERIF, d), os.path.join(_SNAP, d), ignore=shutil.ignore_patterns("__pycache__"))
        for f in ("known_findings.json", "properties.jsonl"):
            shutil.copy(os.path.join(VERIF, f), _SNAP)
        snap, pid = _SNAP, os.getpid()
        atexit.register(lambda: os.getpid() == pid and shutil.rmtree(snap, ignore_errors=True))
    return _SNAP


def _run_check(check_id: str, src: str, extra=(), hashseed="0", workers=None):
    root = _snapshot() if os.environ.get("VERIF_SNAPSHOT") else VERIF
    env = dict(os.environ, PYTHONHASHSEED=hashseed, PYTHONPATH=root, VERIF_REPO_SRC=src)
    if workers:
        env["VERIF_WORKERS"] = str(workers)
    cmd = [sys.executable, "-u", os.path.join(root, "checks", "main.py"), check_id, "--tier", "quick", "--no-evidence", *extra]
    return subprocess.run(cmd, capture_output=True, text=True, env=env, timeout=3000)


def sensitivity(argv) -> int:
    """Apply each mutants/<CHECK>-<name>.patch to a scratch copy of /repo/src; the named check must report a VIOLATION."""
    pats = argv or ["*"]
    patches = sorted(p for pat in pats for p in glob.glob(os.path.join(VERIF, "mutants", pat + ".patch")) + glob.glob(os.path.join(VERIF, "seeded", pat, "patch.diff")))
    missed = 0
    for patch in patches:
        if patch.endswith("patch.diff"):
            name = os.path.basename(os.path.dirname(patch))
        else:
            name = os.path.basename(patch)[: -len(".patch")]
        check_ids = name.split("-")[0].split("+")
        scratch = tempfile.mkdtemp(prefix="verif-mutant-")
        try:
            shutil.copytree("/repo/src", os.path.join(scratch, "src"))
            p = subprocess.run(["patch", "-p1", "-s", "-d", scratch, "-i", patch], capture_output=True, text=True)
            if p.returncode != 0:
                print(f"{name}: PATCH DOES NOT APPLY ({p.stdout.strip()[:200]} {p.stderr.strip()[:200]})")
                missed += 1
                continue
            caught_by = []
            tails = []
            for cid in check_ids:
                r = _run_check(cid, os.path.join(scratch, "src"))
                sigs = [l.strip() for l in r.stdout.splitlines() if l.strip().startswith("signature:")]
                really = r.returncode == 1 and f"VIOLATION property={cid}" in r.stdout  # (exit 1 alone could be a crashed interpreter)
                verdict = "caught" if really else {0: "MISSED", 1: "exit 1 without a VIOLATION line", 2: "harness-error"}.get(r.returncode, f"exit {r.returncode}")
                print(f"{name}: {cid} {verdict} {sigs[:2]}")
                if really:
                    caught_by.append(cid)
                else:
                    tails.append(r.stdout[-600:] + "\n--- stderr head ---\n" + r.stderr[:1500] + "\n--- stderr tail ---\n" + r.stderr[-800:])
            if not caught_by:  # a change named for several checks counts as caught when at least one of them reports it
                missed += 1
                print("\n".join(tails))
        finally:
            shutil.rmtree(scratch, ignore_errors=True)
    print(f"sensitivity: {len(patches)} mutants, {missed} not caught")
    return 1 if missed else 0


def determinism(argv) -> int:
    """Same seed in fresh interpreters: other PYTHONHASHSEED, other worker count -> identical DIGEST."""
    ids = argv or ["C14"]
    bad = 0
    for cid in ids:
        outs = []
        for hs, limit in (("0", "1500"), ("12345", "1500")):
            # (evenly spaced over the whole case list: every family of the check is in the sample)
            r = _run_check(cid, "/repo/src", ("--digest-only", "--limit", limit, "--spread"), hashseed=hs)
            d = [l for l in r.stdout.splitlines() if l.startswith("DIGEST")]
            outs.append(d[0] if d else r.stdout[-300:] + r.stderr[-300:])
        ok = len(set(outs)) == 1 and outs[0].startswith("DIGEST")
        print(f"{cid}: {'deterministic' if ok else 'DIVERGES'} {outs[0][:30]}")
        bad += not ok
    return 2 if bad else 0


def history(argv) -> int:
    """The driver's fallback for failures that depend on earlier cases of the same process: the synthetic check C99 fails only
    after two other cases ran; the run must end with a VIOLATION whose replay file carries a minimised history that reproduces
    in a fresh interpreter."""
    import json
    import re

    r = _run_check("C99", "/repo/src")
    m = re.search(r"VIOLATION property=C99 replay=(\S+)", r.stdout)
    if r.returncode != 1 or not m:
        print("history self-test FAILED: no VIOLATION\n" + r.stdout[-800:])
        return 1
    doc = json.load(open(m.group(1)))
    ok = bool(doc.get("history")) and len(doc["history"]) <= 4
    rr = subprocess.run([sys.executable, os.path.join(VERIF, "checks", "main.py"), "C99", "--replay", m.group(1)], capture_output=True, text=True,
                        env=dict(os.environ, PYTHONHASHSEED="0", PYTHONPATH=VERIF))
    ok = ok and rr.returncode == 1 and "REPLAY-REPRODUCED" in rr.stdout
    print(f"history self-test: minimised history {doc.get('history')} replays: {ok}")
    return 0 if ok else 1


def main(argv) -> int:
    if not argv:
        print("usage: check selftest sensitivity [patterns] | determinism [ids] | history")
        return 2
    return {"sensitivity": sensitivity, "determinism": determinism, "history": history}[argv[0]](argv[1:])
