"""C99 - NOT a property check: a synthetic check used by ``./check selftest history`` to exercise the driver's fallback for
failures that depend on what the same process ran before (history replay + history minimisation)."""
from __future__ import annotations

from checks import common

_STATE = {"seen": set()}


class C99(common.Check):
    id = "C99"
    level = "exploration"
    rule = "synthetic"
    components = {"everything": "synthetic"}
    assumptions = []
    required_fired = ()

    def cases(self, tier, seed):
        return [["n", k] for k in range(400)]

    def run_case(self, case):
        k = case[1]
        _STATE["seen"].add(3 if k % 7 == 3 else (7 if k % 5 == 2 else -1))
        viol = None
        # fails only when this process has already run a case with k % 7 == 3 and one with k % 5 == 2, and k % 11 == 10
        if k % 11 == 10 and k % 7 != 3 and k % 5 != 2 and {3, 7} <= _STATE["seen"]:
            viol = common.violation("C99", "state-dependent", "sync", "synthetic", "", "", f"case {k} fails because of earlier cases")
        return {"viol": viol, "digest": str(k), "key": k, "fired": {}, "probes": {}, "vtime_ns": 0}


CHECK = C99()
