"""Driving the real client inside the simulated world and classifying outcomes."""
from __future__ import annotations

import hashlib
import random
import typing as t
import uuid

from simworld import loop as simloop
from simworld import net, secctx, world as simworld_world
from checks import common

SECRET = b"simulated-session-secret-0123456"


class Outcome(t.NamedTuple):
    kind: str  # ok | raise | blocks | spin | budget | deadlock
    value: t.Any = None
    exc: t.Optional[BaseException] = None

    def brief(self) -> str:
        if self.kind == "ok":
            return "ok"
        if self.kind == "raise":
            return f"raise:{type(self.exc).__name__}"
        return self.kind

    def same_as(self, other: "Outcome") -> bool:
        if self.kind != other.kind:
            return False
        if self.kind == "ok":
            return self.value == other.value
        if self.kind == "raise":
            return type(self.exc) is type(other.exc) and str(self.exc) == str(other.exc)
        return True


def classify(fn: t.Callable[[], t.Any]) -> Outcome:
    try:
        return Outcome("ok", fn())
    except net.Blocks as e:
        return Outcome("blocks", exc=e)
    except net.Spin as e:
        return Outcome("spin", exc=e)
    except simloop.Deadlock as e:
        return Outcome("blocks", exc=e)
    except common.BudgetExceeded as e:
        return Outcome("budget", exc=e)
    except (KeyboardInterrupt, SystemExit):
        raise
    except Exception as e:  # noqa: BLE001
        return Outcome("raise", exc=e)


def run_async(world, coro_fn: t.Callable[[], t.Awaitable], rng: t.Optional[random.Random] = None, latency_us=(50, 4000)):
    """Run an async workload on a fresh virtual-time loop; returns its result (exceptions propagate)."""
    lp = simloop.SimLoop(world, rng or random.Random(world.seed), latency_us)
    try:
        return lp.run(coro_fn())
    finally:
        world.stats["vtime_ns"] += lp._vt
        world.stats["choice_points"] += lp.choice_points
        world.last_schedule = lp.schedule_trace
        lp.shutdown()


def stub_ctx_factory(cfg: dict, record: list, made: t.Optional[list] = None):
    def factory(username=None, password=None, hostname="unspecified", service="host", protocol="negotiate", **kw):
        record.append(("new", username, hostname, service, protocol))
        ctx = secctx.StubCtx(cfg, SECRET, record)
        if made is not None:
            made.append(ctx)
        return ctx

    return factory


def stub_acceptor_factory(cfg: dict, made: t.Optional[list] = None):
    def factory(auth_type):
        a = secctx.StubAcceptor(cfg, SECRET)
        if made is not None:
            made.append(a)
        return a

    return factory


def exc_sig(o: Outcome) -> t.Tuple[str, str]:
    """(outcome class, innermost dpapi_ng frame) for signatures."""
    if o.kind == "raise":
        return type(o.exc).__name__, common.innermost_repo_frame(o.exc)
    if o.exc is not None:
        return o.kind, common.innermost_repo_frame(o.exc)
    return o.kind, ""
