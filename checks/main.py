"""Entry point: ``/verif/check <ID> [--tier quick|thorough] [--replay file]``."""
from __future__ import annotations

import importlib
import os
import sys

VERIF = os.path.dirname(os.path.dirname(os.path.abspath(__file__)))
if VERIF not in sys.path:
    sys.path.insert(0, VERIF)
# the repository's *current working tree* is what runs (VERIF_REPO_SRC points the sensitivity
# self-test at a scratch copy with a mutant applied; registered commands never set it)
REPO_SRC = os.environ.get("VERIF_REPO_SRC") or "/repo/src"
sys.path[:] = [p for p in sys.path if p != "/repo/src"]
sys.path.insert(1, REPO_SRC)


def main() -> int:
    from checks import common

    common.reexec_if_needed()
    # locks created by library code are simulated from the first import on (see simworld/locks.py)
    from simworld import locks

    locks.install_globally(os.path.join(REPO_SRC, "dpapi_ng") + os.sep)
    if len(sys.argv) < 2:
        print("usage: check <property id | selftest ...> [options]")
        return 2
    name = sys.argv[1]
    if name == "selftest":
        from checks import selftest

        return selftest.main(sys.argv[2:])
    mod = importlib.import_module(f"checks.{name.lower()}")
    return common.run_check(mod.CHECK, sys.argv[2:])


if __name__ == "__main__":
    try:
        code = main()
    except SystemExit:
        raise
    except BaseException:  # noqa: BLE001 - anything that escapes (an import error in a check, a typo) is a harness error, never a verdict
        import traceback

        traceback.print_exc()
        print("HARNESS-ERROR: the driver itself failed")
        code = 2
    sys.exit(code)
