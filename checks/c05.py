"""C05 - decrypting untrusted bytes ends promptly with a deliberate error type.

Same storage-fault kinds as C04 plus structure-aware DER corruption, boundary
values in every key-identifier field, whole-record garbage; the oracle is the
allowed outcome set and two deterministic step budgets (KDF invocations, traced
interpreter lines inside dpapi_ng) that turn "hangs" into replayable verdicts.
"""
from __future__ import annotations

import struct
import typing as t

from checks import blobs, common, drive
from ref import der
from simworld import blobstore, prng, world as W

LINE_A, LINE_B = 150_000, 400  # budget = A + B * len(input); max observed on valid input ~4k lines for ~1 KiB
CPU_S = 5.0  # CPU seconds per call (a normal call needs about a millisecond): backstop for work outside the line / KDF counters
MEM_C, MEM_D = 64 << 20, 64  # address-space growth budget (bytes) = C + D * len(input); valid input stays below a few MiB


def allowed_exception(e: BaseException) -> bool:
    from cryptography.exceptions import InvalidTag
    from cryptography.hazmat.primitives.keywrap import InvalidUnwrap
    from dpapi_ng._asn1 import NotEnougData

    return isinstance(e, (ValueError, NotImplementedError, NotEnougData, InvalidTag, InvalidUnwrap))


# ---- DER tree rebuild -------------------------------------------------------------
def _tree(buf: bytes, pos: int = 0, end: t.Optional[int] = None) -> list:
    """-> list of [first_octet_bytes(tag), children|None, content] for TLVs in buf[pos:end]."""
    end = len(buf) if end is None else end
    out = []
    while pos < end:
        n = der.read_tlv(buf[:end], pos)
        tag_bytes = buf[pos : pos + n.hlen - len(der.enc_len(n.length))]
        kids = None
        if n.constructed:
            try:
                kids = _tree(n.content)
            except der.DerError:
                kids = None
        out.append([tag_bytes, kids, n.content])
        pos += n.hlen + n.length
    return out


def _ser(nodes: list) -> bytes:
    out = b""
    for tag, kids, content in nodes:
        c = _ser(kids) if kids is not None else content
        out += tag + der.enc_len(len(c)) + c
    return out


def _paths(nodes: list, prefix=()) -> t.List[tuple]:
    out = []
    for i, (tag, kids, content) in enumerate(nodes):
        out.append(prefix + (i,))
        if kids is not None:
            out += _paths(kids, prefix + (i,))
    return out


def _get(nodes, path):
    node = None
    for i in path:
        node = nodes[i]
        nodes = node[1]
    return node


def der_mutations(blob: bytes, ci_end: int) -> t.List[t.Tuple[str, bytes]]:
    """Structure-aware mutants of the ContentInfo part (trailing bytes kept)."""
    import copy

    head, tail = blob[:ci_end], blob[ci_end:]
    base = _tree(head)
    out = []
    for path in _paths(base):
        node = _get(base, path)
        label = "/".join(map(str, path)) + ":" + node[0].hex()
        for kind in ("empty", "drop", "dup", "tagclass", "constructed", "hightag", "tag+1"):
            tr = copy.deepcopy(base)
            nd = _get(tr, path)
            if kind == "empty":
                nd[1], nd[2] = None, b""
            elif kind == "drop":
                parent = _get(tr, path[:-1])[1] if len(path) > 1 else tr
                del parent[path[-1]]
            elif kind == "dup":
                parent = _get(tr, path[:-1])[1] if len(path) > 1 else tr
                parent.insert(path[-1], copy.deepcopy(nd))
            elif kind == "tagclass":
                nd[0] = bytes([nd[0][0] ^ 0x40]) + nd[0][1:]
            elif kind == "constructed":
                nd[0] = bytes([nd[0][0] ^ 0x20]) + nd[0][1:]
            elif kind == "hightag":
                nd[0] = bytes([nd[0][0] | 0x1F, 0x87, 0xFF, 0x7F])
            elif kind == "tag+1":
                nd[0] = bytes([(nd[0][0] & 0xE0) | ((nd[0][0] + 1) & 0x1F)]) + nd[0][1:]
            out.append((f"der/{kind}@{label}", _ser(tr) + tail))
    # content of a primitive node shortened / lengthened with all enclosing lengths kept consistent (a well-formed DER tree whose
    # leaf holds a structure cut at every offset: key identifier, wrapped key, nonce, OIDs, strings, ciphertext)
    for path in _paths(base):
        node = _get(base, path)
        if node[1] is not None:
            continue
        ln = len(node[2])
        label = "/".join(map(str, path)) + ":" + node[0].hex()
        lens = range(ln) if ln <= 160 else sorted(set(list(range(0, 64)) + list(range(64, ln, max(1, ln // 24)))))
        for k in lens:
            tr = copy.deepcopy(base)
            _get(tr, path)[2] = node[2][:k]
            out.append((f"der/shorten{k}@{label}", _ser(tr) + tail))
        for extra in (1, 2, 64):
            tr = copy.deepcopy(base)
            _get(tr, path)[2] = node[2] + b"\x00" * extra
            out.append((f"der/extend{extra}@{label}", _ser(tr) + tail))
    # a primitive leaf replaced by a constructed (BER, X.690 8.7.3 style) string whose segments nest: depth 2, 50, 400, 1500, 5000.
    # Every level is well-formed; a decoder that follows the nesting recursively must not run out of stack, one that rejects
    # constructed strings (the unchanged one) is fine
    from ref import der as _der

    for path in _paths(base):
        node = _get(base, path)
        if node[1] is not None or (node[0][0] & 0x1F) not in (4, 0) or len(node[2]) < 4:  # OCTET STRING leaves and [0] IMPLICIT content
            continue
        label = "/".join(map(str, path)) + ":" + node[0].hex()
        for depth in (2, 50, 400, 1500, 5000):
            inner = b"\x04" + _der.enc_len(len(node[2])) + node[2]
            for _ in range(depth - 1):
                inner = b"\x24" + _der.enc_len(len(inner)) + inner
            tr = copy.deepcopy(base)
            nd = _get(tr, path)
            nd[0] = bytes([nd[0][0] | 0x20]) + nd[0][1:]
            nd[2] = inner
            out.append((f"der/nested{depth}@{label}", _ser(tr) + tail))
    # raw length-octet corruption (parents not fixed)
    pos_list = []

    def walk(buf, pos, end, base_off):
        while pos < end:
            n = der.read_tlv(buf[:end], pos)
            ll = len(der.enc_len(n.length))
            pos_list.append((base_off + pos + n.hlen - ll, ll, n.length))
            if n.constructed:
                try:
                    walk(n.content, 0, len(n.content), base_off + pos + n.hlen)
                except der.DerError:
                    pass
            pos += n.hlen + n.length

    walk(head, 0, len(head), 0)
    for off, ll, ln in pos_list:
        for name, newlen in (("indef", b"\x80"), ("len0", b"\x00"), ("len+1", der.enc_len(ln + 1)), ("len-1", der.enc_len(max(ln - 1, 0))),
                             ("len2^32", b"\x84\xff\xff\xff\xff"), ("len2^64", b"\x88" + b"\xff" * 8), ("len2^63", b"\x88\x80" + b"\x00" * 7),
                             ("len127long", b"\x81\x7f"), ("lenhuge-form", b"\xff" + b"\x7f" * 127)):
            out.append((f"derlen/{name}@{off}", blob[:off] + newlen + blob[off + ll :]))
    return out


FIELD_VALUES = {
    "kid.l0": (0x7FFFFFFF, 0x80000000, 0xFFFFFFFF, 0, 1),
    "kid.l1": (31, 32, 33, 0x7FFFFFFF, 0x80000000, 0xFFFFFFFF, 0),
    "kid.l2": (31, 32, 33, 0x7FFFFFFF, 0x80000000, 0xFFFFFFFF, 0),
    "kid.flags": (0, 1, 2, 3, 0xFFFFFFFF),
    "kid.version": (0, 2, 0xFFFFFFFF),
    "kid.len_key_info": (0, 1, 2, -1, +1, 0xFFFFFFFF, 0x7FFFFFFF),
    "kid.len_domain": (0, 1, 2, 3, -1, +1, 0xFFFFFFFF),
    "kid.len_forest": (0, 1, 2, 3, -1, +1, 0xFFFFFFFF),
    # public-key mode only: fields of the FFC DH key / ECDH key structure inside key_info
    "ki.key_length": (0, 1, 2, 3, 8, 31, 33, 47, 49, 255, 257, -1, +1, 0x10000, 0x7FFFFFFF, 0xFFFFFFFF),
    "ki.magic": (0, 0x4D504844, 0x42504844, 0x314B4345, 0x334B4345, 0x354B4345, 0x324B4345),
}


def run_thread_reload(case) -> dict:
    """[0, 1, ["threload", seed, policy]]: caller threads unprotect valid records (several L0 epochs, offline root key) while another
    thread loads the same root key again into the shared cache; the outcome of every call must stay inside the allowed set
    (here: success)."""
    from checks import offline, plan as P
    from ref import gkdi

    _, seed, policy = case[2][:3]
    first_use = len(case[2]) > 3 and case[2][3] == "first"  # run in an interpreter in which nothing of the library has run yet (see "fresh" below)
    unknown = len(case[2]) > 3 and case[2][3] == "unknown"  # the records name a root key the cache does not hold: every call must go looking for a DC
    import random

    r = random.Random(seed)
    l0 = r.randrange(340, 470)
    mk = lambda k: {"rk": 0, "sid": offline.SID_A, "pos": [l0 - k, r.randrange(32), r.randrange(32)], "mode": r.choice(("nonce", "pub")), "data": 6}  # noqa: E731
    ops = [{"op": "load_key", "rk": 0}]
    grp = [{"op": "unprotect", "fl": "thread", "group": 1, "net": "offline", "blob": mk(0)},
           {"op": "load_key", "rk": 0, "fl": "thread", "group": 1},
           {"op": "unprotect", "fl": "thread", "group": 1, "net": "offline", "blob": mk(1)}]
    if seed % 2:
        grp.append({"op": "load_key", "rk": 0, "fl": "thread", "group": 1})
    r.shuffle(grp)
    if first_use:
        # the process's very first decryptions of public-key records, all at the same time
        pub = lambda k: dict(mk(k), mode="pub")  # noqa: E731
        grp = [{"op": "unprotect", "fl": "thread", "group": 1, "net": "offline", "blob": pub(k)} for k in range(2 + seed % 2)]
    if unknown:
        unk = lambda k: dict(mk(k), rk=1, pos=[l0, 3, 3] if seed % 2 else mk(k)["pos"])  # noqa: E731
        grp = [{"op": "unprotect", "fl": "thread", "group": 1, "net": "offline", "blob": unk(k)} for k in range(2 + seed % 2)]
    ops += grp + [{"op": "unprotect", "fl": "sync", "net": "offline", "blob": mk(2)}]
    plan = {"seed": seed, "clock_ft": gkdi.interval_start_filetime(l0, 5, 5), "root_keys": [[9, offline.HASHES[seed % 4], (offline.SECRETS[(seed // 2) % 3] if seed % 5 < 2 else "ECDH_P384") if first_use else offline.SECRETS[seed % 3]]],
            "caller_sids": [offline.SID_A], "ctx": {"kind": "stub", "legs": 2, "sig": 16}, "ops": ops, "threads": policy}
    if unknown:
        plan["root_keys"].append([10, offline.HASHES[(seed + 1) % 4], "DH"])  # (never loaded into the cache)
    tr = P.execute_plan(plan)
    viol = None
    for ot in tr.ops:
        out = ot.outcome
        if unknown and ot.op["op"] == "unprotect" and ot.op.get("fl") == "thread":
            # no key material for that root key and no reachable DC: the call ends with the connection error of its attempt
            if out.kind != "raise" or not isinstance(out.exc, (OSError, W.NeedsNetwork)):
                et, frame = drive.exc_sig(out)
                viol = common.violation("C05", "error-type" if out.kind == "raise" else "does-not-end", "threads", et, frame, "unknown-root-key",
                                        f"op {ot.idx}: a record naming a root key the cache does not hold, unprotected while other threads do the same, gave {out.brief()} {out.exc!r}")
                break
            continue
        if ot.op["op"] == "unprotect" and (out.kind != "ok" or out.value != ot.plaintext):
            et, frame = drive.exc_sig(out)
            viol = common.violation("C05", "error-type" if out.kind == "raise" else "does-not-end", "threads", et, frame, "reload-while-unprotecting",
                                    f"op {ot.idx}: a valid record gave {out.brief()} {out.exc!r} while " + ("other threads made the process's first public-key decryptions" if first_use else "another thread loaded the same root key again"))
            break
        if ot.op["op"] == "load_key" and out.kind != "ok":
            viol = common.violation("C05", "error-type", "threads", drive.exc_sig(out)[0], drive.exc_sig(out)[1], "load-key", f"load_key failed: {out.exc!r}")
            break
    return {"viol": viol, "digest": tr.world.digest(), "key": common.key_hash(case), "sched_key": common.key_hash(tr.schedule) if tr.schedule else None,
            "fired": {"thread_preemptions": tr.world.stats.get("tswitch", 0)}, "probes": {"reload_while_unprotecting": 1, "thread_overlap": tr.world.stats.get("toverlap", 0)},
            "vtime_ns": 0, "_scripts": tr.thread_scripts}


def gkdi_pack(hash_name: str) -> str:
    from ref import gkdi

    return gkdi.pack_kdf_params(hash_name).hex()


class C05(common.Check):
    id = "C05"
    level = "fault_enumeration"
    rule = ("case = (base blob, key material offline|none, mutation). Mutations: every truncation and every single-bit flip of the enumerated "
            "base blobs; every key-identifier field set to boundary values (L0 >= 2^31, L1/L2 in {31,32,33,2^31,2^32-1}, lengths "
            "0/1/2/true+-1/2^32-1); structure-aware DER mutants of every TLV node (emptied, dropped, duplicated, class/constructed bit "
            "flipped, high-tag form, leaf content shortened to every length / extended with consistent enclosing lengths, raw length octets: "
            "indefinite, 0, +-1, 2^32, 2^63, 2^64, non-minimal); whole-record garbage and PRNG byte "
            "strings; well-formed records with long / odd domain and forest names; records under another self-consistent kind of protection descriptor (SDDL, LOCAL, KEY_FILE ...); a cache on which an earlier load_key with unusable KDF parameters failed; valid records unprotected from caller threads while another thread loads the same root key again; records naming a root key the shared cache does not hold, from 2..3 threads at once; 2..3 caller threads unprotecting public-key records as the first thing a new interpreter does with the library (sub-process per case); a sample of the field / DER mutations in a child interpreter with assertions compiled out. Oracle: returns | needs-network | ValueError/NotImplementedError/NotEnougData/InvalidTag/InvalidUnwrap; <= 300 KDF "
            "calls; <= 150000 + 400*len traced lines; <= 5 s of CPU time (backstop for work outside the interpreter: regular expressions, big numbers); address-space growth during the call <= 64 MiB + 64*len (kernel high-water mark); for the field mutations and a quarter of the others the undamaged blob is unprotected afterwards on the same "
            "cache and must still return its plaintext (locks created by the library are simulated: an acquire nobody can satisfy is the "
            "outcome 'blocks'). Non-trivial = stored bytes differ from a valid blob; distinct = distinct (blob, mutation).")
    components = {"client": "real (ncrypt_unprotect_secret and everything below it)", "blob store": "simulated fault injection",
                  "step budgets": "deterministic counters (KDF wrapper, sys.settrace restricted to dpapi_ng frames, address-space high-water mark)",
                  "network": "simulated, none reachable; attempts classified at the seam"}
    assumptions = ["budgets are 4x (KDF) and >20x (lines) the maxima observed on valid input and affine in input length",
                   "PRNG byte strings are a weak generator and stated as such"]
    required_fired = ("rot", "tear", "field", "der", "garbage", "outcome_needs-network", "outcome_raise", "outcome_ok", "valid_blob_after_damaged_one", "names", "bad_load_key", "reload_while_unprotecting", "thread_overlap", "first_use_in_new_process", "mutations_with_assertions_compiled_out", "descriptor")

    def exhaustive(self, tier):
        return tier == "thorough"

    exhaustive_note = "thorough: all truncations / single-bit flips / field values / DER node mutants of all base blobs"

    def setup(self, tier, seed):
        blobs.catalogue(tier)

    def cases(self, tier, seed):
        cat = blobs.catalogue(tier)
        rng = prng.stream(seed, "C05")
        out = []
        chosen = list(range(len(cat))) if tier == "thorough" else [i for i in range(len(cat)) if i % 7 == seed % 7]
        for bi in chosen:
            n = len(cat[bi].blob)
            for k in range(n):
                out.append([bi, 1, ["trunc", k]])
            bit_step = 1 if tier == "thorough" else (2 if n < 600 else 5)
            for bit in range(0, n * 8, bit_step):
                out.append([bi, 1, ["flip", bit]])
        # field boundary values on every base blob
        for bi, b in enumerate(cat):
            for name, vals in FIELD_VALUES.items():
                if name not in b.offsets:
                    continue
                s, e = b.offsets[name]
                cur = int.from_bytes(b.blob[s:e], "little")
                for v in vals:
                    if (name.startswith("kid.len") or name == "ki.key_length") and v in (-1, 1):
                        v = cur + v
                    out.append([bi, 1, ["field", name, struct.pack("<I", v & 0xFFFFFFFF).hex()]])
                    if name.startswith("ki."):
                        out.append([bi, 2, ["field", name, struct.pack("<I", v & 0xFFFFFFFF).hex()]])  # root key loaded without secret agreement parameters
                    if tier == "thorough" or bi % 4 == 0:
                        out.append([bi, 0, ["field", name, struct.pack("<I", v & 0xFFFFFFFF).hex()]])
        # structure-aware DER mutants
        der_from = range(len(cat)) if tier == "thorough" else [0, 1, 6, 7, 33, 34]
        from ref import cms

        for bi in der_from:
            b = cat[bi]
            ci_end = cms.parse_blob(b.blob)["ci_end"]
            for label, data in der_mutations(b.blob, ci_end):
                out.append([bi, 1, ["garbage", data.hex(), label]])
        # well-formed records whose (unauthenticated) domain / forest names are long, odd or hostile to a validating pattern
        NAMES = ["a" * 48 + "!", "a" * 30 + "\u00e9", "a." * 40 + "!", "-" * 60 + " ", "a" * 200, "x" * 31 + "." + "y" * 31 + "!", ".", "..", "a" * 63 + ".b" * 40 + "$",
                 "0" * 40 + "\u200b", " " * 50, "a-" * 40 + "_"]
        for bi in ([0, 1, 6] if tier == "quick" else range(0, len(cat), 2)):
            if cat[bi].origin != "ref":
                continue
            for k, nm in enumerate(NAMES):
                out.append([bi, 1, ["names", nm, "forest.test" if k % 2 else nm]])
                if k % 3 == 0:
                    out.append([bi, 0, ["names", "domain.test", nm]])
        # an earlier load_key with unusable KDF parameters (it raises) on the cache that is used afterwards
        BAD = [{"kdf_parameters": "00"}, {"kdf_parameters": ""}, {"kdf_parameters": gkdi_pack("MD5")}, {"kdf_parameters": gkdi_pack("SHA3_256")},
               {"kdf_parameters": gkdi_pack("SHA256")[:-3]}, {"kdf_algorithm": "SP800_56A", "kdf_parameters": gkdi_pack("SHA256")}]
        for bi in ([0, 7, 33] if tier == "quick" else range(0, len(cat), 3)):
            for k, bad in enumerate(BAD):
                for then_good in (False, True):
                    out.append([bi, 1, ["badload", dict(bad, then_good=then_good)]])
        # records under another, self-consistent kind of protection descriptor (OID and type string changed together)
        for bi in ([0, 7, 33] if tier == "quick" else range(0, len(cat), 3)):
            for oid, ts, val in (("1.3.6.1.4.1.311.74.1.5", "SDDL", "O:SYG:SYD:(A;;CCDC;;;SY)"), ("1.3.6.1.4.1.311.74.1.8", "LOCAL", "user"), ("1.3.6.1.4.1.311.74.1.8", "LOCAL", "machine"),
                                 ("1.3.6.1.4.1.311.74.1.2", "KEY_FILE", "C:\\keys\\k.bin"), ("1.3.6.1.4.1.311.74.1.1", "SDDL", "S-1-5-18"), ("1.3.6.1.4.1.311.74.1.5", "SID", "S-1-5-18"),
                                 ("1.3.6.1.4.1.311.74.1.3", "WEBCREDENTIALS", "x,y"), ("1.3.6.1.4.1.311.74.1.1", "sid", "S-1-5-18")):
                out.append([bi, 1, ["descriptor", oid, ts, val]])
        # valid records unprotected from caller threads while another thread loads the root key again
        from checks import threadpure

        for k in range(240 if tier == "quick" else 10000):
            pol = {"mode": "marks", "q": (0.3, 0.6, 0.9)[k % 3], "p": (0.0, 0.02)[(k // 3) % 2]} if k % 2 else threadpure.policy_for(k // 2, seams=False)
            out.append([0, 1, ["threload", rng.getrandbits(30), pol]])
        for k in range(240 if tier == "quick" else 8000):
            # ... or the records name a root key the shared cache does not hold (every thread ends up looking for a DC)
            pol = {"mode": "marks", "q": (0.3, 0.6, 0.9)[k % 3], "p": (0.0, 0.02, 0.1)[(k // 3) % 3]} if k % 2 else threadpure.policy_for(k // 2, seams=False)
            out.append([0, 1, ["threload", rng.getrandbits(30), pol, "unknown"]])
        for k in range(176 if tier == "quick" else 4000):
            # ... and as the FIRST thing a new process does with the library (first-use initialisation shared by the threads)
            pol = {"mode": "marks", "q": (0.2, 0.35, 0.5, 0.8)[k % 4], "p": (0.0, 0.0, 0.02)[(k // 4) % 3]} if k % 8 else {"mode": "prob", "p": (0.05, 0.2)[(k // 8) % 2]}
            out.append([0, 1, ["fresh", ["threload", rng.getrandbits(30), pol, "first"]]])
        # a sample of the field / DER mutations in a child interpreter with assertions compiled out (PYTHONOPTIMIZE=1)
        pool = [c for c in out if c[2][0] in ("field", "garbage") and c[1] == 1]
        for c in pool[:: max(1, len(pool) // (48 if tier == "quick" else 1500))]:
            out.append([c[0], c[1], ["optimized", c[2]]])
        # garbage / PRNG byte strings
        n_rand = 3000 if tier == "quick" else 200000
        for i in range(n_rand):
            ln = rng.choice((0, 1, 2, 3, 4, 8, 16, 64, 300, 2000))
            r = rng.random()
            if r < 0.5:
                data = bytes(rng.randrange(256) for _ in range(ln))
            elif r < 0.75:
                data = b"\x30" + der.enc_len(ln) + bytes(rng.randrange(256) for _ in range(ln))
            else:
                b = cat[rng.randrange(len(cat))].blob
                k = rng.randrange(len(b))
                data = b[:k] + bytes(rng.randrange(256) for _ in range(rng.randint(1, 8))) + b[k + rng.randint(0, 8) :]
            out.append([0, rng.randint(0, 1), ["garbage", data.hex(), "prng"]])
        return out

    def run_case(self, case):
        bi, with_key, fault = case
        if fault[0] == "threload":
            return run_thread_reload(case)
        if fault[0] == "optimized":
            v = common.run_case_fresh("C05", [bi, with_key, fault[1]], env={"PYTHONOPTIMIZE": "1"}, pristine=False)
            if v:
                v = {"sig": v["sig"] + "/python-O", "detail": "interpreter with assertions compiled out (PYTHONOPTIMIZE=1): " + v["detail"]}
            return {"viol": v, "digest": "opt:" + (v["sig"] if v else "ok"), "key": common.key_hash(case), "fired": {}, "probes": {"mutations_with_assertions_compiled_out": 1}, "vtime_ns": 0}
        if fault[0] == "fresh":
            v = common.run_case_fresh("C05", [bi, with_key, fault[1]])
            if v:
                v = {"sig": v["sig"] + "/first-use-in-process", "detail": "in a new process: " + v["detail"]}
            return {"viol": v, "digest": "fresh:" + (v["sig"] if v else "ok"), "key": common.key_hash(case), "fired": {}, "probes": {"first_use_in_new_process": 1}, "vtime_ns": 0}
        b = blobs.catalogue(next(iter(blobs._CAT)))[bi]
        bad_load = None
        if fault[0] == "names":
            stored = blobs.with_names(b, fault[1], fault[2])
        elif fault[0] == "descriptor":
            stored = blobs.with_descriptor(b, fault[1], fault[2], fault[3])
        elif fault[0] == "badload":
            stored, bad_load = b.blob, fault[1]
        else:
            stored = blobstore.apply_fault(b.blob, fault[:2] if fault[0] == "garbage" else fault, b.offsets)
        kind = {"flip": "rot", "trunc": "tear", "field": "field", "names": "names", "descriptor": "descriptor", "badload": "bad_load_key",
                "garbage": "der" if (len(fault) > 2 and fault[2].startswith("der")) else "garbage"}[fault[0]]
        fired = {kind: 1}
        limit = LINE_A + LINE_B * len(stored)
        follow = with_key == 1 and not bad_load and (fault[0] == "field" or len(stored) % 4 == 1)  # the undamaged blob afterwards, on the same cache
        with common.VmWatch() as vm:
            out, world, cnt = blobs.unprotect_stored(b, stored, with_key=(2 if with_key == 2 else bool(with_key)), line_limit=limit, then_valid=follow, bad_load_first=bad_load, cpu_limit=CPU_S)
        peak = vm.growth
        probes = {"outcome_" + out.kind: 1}
        viol = None
        where = fault[1] if fault[0] == "field" else (fault[2].split("@")[0] if fault[0] == "garbage" and len(fault) > 2 else fault[0])
        if out.kind == "raise" and not allowed_exception(out.exc):
            et, frame = drive.exc_sig(out)
            viol = common.violation("C05", "error-type", "sync", et, frame, "",
                                    f"blob {b.name} mutation {fault[:1] + [str(fault[1])[:80]] + fault[2:]} (key material {'offline' if with_key else 'none'}): {out.exc!r}")
        elif out.kind == "budget":
            et, frame = drive.exc_sig(out)
            which = "kdf" if "KDF" in str(out.exc) else ("cpu" if "CPU" in str(out.exc) else "lines")
            viol = common.violation("C05", "unbounded-work", "sync", which, frame, "",
                                    f"blob {b.name} mutation {fault[:1] + [str(fault[1])[:80]] + fault[2:]}: {out.exc} (kdf={cnt['kdf']} lines={cnt['lines']} len={len(stored)})")
        elif out.kind in ("blocks", "spin"):
            viol = common.violation("C05", "does-not-end", "sync", out.kind, "", "", f"{b.name} {fault[:1]}")
        elif peak > MEM_C + MEM_D * len(stored):
            et, frame = drive.exc_sig(out)
            viol = common.violation("C05", "unbounded-work", "sync", "memory", frame, str(where),
                                    f"blob {b.name} ({len(stored)} bytes) mutation {fault[:1] + [str(fault[1])[:80]] + fault[2:]}: address space grew by "
                                    f"{peak} bytes ({peak >> 20} MiB), outcome {out.brief()}")
        if viol is None and follow:
            after = cnt["after"]
            probes["valid_blob_after_damaged_one"] = 1
            if after.kind != "ok" or after.value != b.plaintext:
                et, frame = drive.exc_sig(after)
                viol = common.violation("C05", "valid-blob-after-damaged-one", "sync", et if after.kind != "ok" else "other-bytes", frame, str(where),
                                        f"after blob {b.name} mutation {fault[:1] + [str(fault[1])[:80]] + fault[2:]} ended with {out.brief()}, the undamaged blob on the "
                                        f"same cache gave {after.brief()} {after.exc!r}")
        probes["max_lines_per_byte_x100"] = 0
        return {"viol": viol, "digest": out.brief() + str(cnt["kdf"]), "key": common.key_hash([bi, with_key, fault[:2]]) if (stored != b.blob or bad_load) else None,
                "fired": fired, "probes": probes, "vtime_ns": 0}

    def warmup(self, cases):
        seen = set()
        for c in cases:  # one case of every mutation kind, so that nothing is imported for the first time under the memory watch
            k = (c[1], c[2][0])
            if k not in seen and c[2][0] not in ("threload", "fresh", "optimized"):
                seen.add(k)
                try:
                    self.run_case(c)
                except Exception:  # noqa: BLE001 - reported by the workers
                    pass

    def shrink(self, case):
        bi, with_key, fault = case
        if fault[0] == "threload":
            from checks import threadpure

            for cand in threadpure.shrinks(list(fault), 2, None, lambda f: {"_script": (run_thread_reload([0, 1, f]).get("_scripts") or {}).get("1")}):
                yield [bi, with_key, cand]
            return
        if fault[0] == "garbage":
            data = bytes.fromhex(fault[1])
            # classic ddmin on bytes: drop halves / chunks
            n = len(data)
            chunk = n // 2
            while chunk >= 1:
                for s in range(0, n, chunk):
                    yield [bi, with_key, ["garbage", (data[:s] + data[s + chunk :]).hex(), "min"]]
                chunk //= 2
        if bi != 0 and fault[0] != "garbage":
            yield [0, with_key, fault]

    def sample_repr(self, case, res):
        b = blobs.catalogue(next(iter(blobs._CAT)))[case[0]]
        f = case[2]
        return {"blob": b.name, "key_material": "offline" if case[1] else "none", "mutation": [f[0], str(f[1])[:60]] + f[2:]}


CHECK = C05()
