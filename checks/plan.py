"""Plan executor: runs a JSON-able history of operations (root-key loads,
protect / unprotect in either flavour, online or offline, clock changes,
partitions) against one simulated world with a reference DC and one shared
KeyCache, and returns a trace the oracles can judge.

plan = {
  "seed": int, "clock_ft": int, "clock_tick_ns": int (time passing per reading of the clock; 0 = frozen during a call),
  "root_keys": [[idx, hash, secret], ...],          # known to the DC; index = position in this list
  "dc": {"omit_l2_at_31": bool, "skew_ticks": int, "domain": str, "forest": str, "pad_mode": str, "header_sign": bool, "after_response": "rst"|"eof", "byz": {}},
  "ctx": {"kind": "stub", "legs": 2, "sig": 16} | {"kind": "ntlm"} | {"kind": "negotiate"},
  "caller_sids": [sid, ...],
  "delivery": {...} | None, "latency_us": [lo, hi], "use_dns": bool, "short_writes": {"max": n} (socket.send() takes at most n bytes per call), "conn_flap": n (the first n connects of every operation to the key service port are refused), "cred_fault": "stub-raise"|"ntlm-unknown-user"|"kerberos-not-installed" (credential acquisition fails),
  "ops": [ {"op": "load_key", "rk": i},
           {"op": "protect", "fl": "sync"|"async", "sid": s, "rk": i|None, "net": "online"|"offline", "data": n, "group": g|None},
           {"op": "unprotect", "fl": .., "net": .., "blob": {"rk": i, "sid": s, "pos": [l0,l1,l2], "mode": "nonce"|"pub", "trailing": bool, "data": n}
                                                   | {"from_op": k, "relayout": bool}, "group": g|None, "cache": "shared"|"fresh"|<name of another shared cache>},
           {"op": "clock", "advance_ticks": n} | {"op": "clock", "set_ft": n},
           {"op": "identity", "sids": [...]}          # the authenticated caller's group memberships from now on
           {"op": "partition", "on": bool},
           {"op": "app_random_seed", "value": n},     # the application calls random.seed(n)
           # async group members: "chain": c = operations with the same c run sequentially inside one task; "inner": "sync" = the
           # blocking API is called from inside that coroutine,
           {"op": "dc_failover", "host": h}  (the DC goes away, another one with the same keys answers under the name h; DNS follows),
           # fl "thread" + group g: the group's operations are sync calls made by caller threads that share the process, interleaved at
           # line (or opcode) events inside dpapi_ng by simworld.threads (policy: plan["threads"], explicit per group: plan["thread_scripts"])
         ] }
"""
from __future__ import annotations

import asyncio
import hashlib
import os
import random
import tempfile
import typing as t

from checks import common, drive, offline
from ref import cms, dtyp, gkdi, refdc
from simworld import loop as simloop
from simworld import secctx, world as W
from simworld import threads as simthreads

NTLM_USER, NTLM_PASS, NTLM_DOMAIN = "simuser", "S1mPassw0rd!", "SIMDOM"
_ntlm_dir: t.Optional[str] = None


def ensure_ntlm_env() -> None:
    """pyspnego's NTLM acceptor looks credentials up in $NTLM_USER_FILE (Heimdal format DOMAIN:user:password)."""
    global _ntlm_dir
    if _ntlm_dir is None or not os.path.exists(_ntlm_dir):
        import atexit
        import shutil

        _ntlm_dir = tempfile.mkdtemp(prefix="verif-ntlm-")
        with open(os.path.join(_ntlm_dir, "users"), "w") as f:
            f.write(f"{NTLM_DOMAIN}:{NTLM_USER}:{NTLM_PASS}\n")
        d = _ntlm_dir
        pid = os.getpid()
        atexit.register(lambda: os.getpid() == pid and shutil.rmtree(d, ignore_errors=True))
        # (a forked pool worker leaves through os._exit: atexit does not run there, multiprocessing's finalizers do)
        import multiprocessing.util as _mpu

        _mpu.Finalize(None, lambda: os.getpid() == pid and shutil.rmtree(d, ignore_errors=True), exitpriority=0)
    os.environ["NTLM_USER_FILE"] = os.path.join(_ntlm_dir, "users")


def SRC_PREFIX() -> str:
    """Directory of the code under test (pre-emption points of the thread scheduler are the line events below it)."""
    import dpapi_ng

    return os.path.dirname(os.path.abspath(dpapi_ng.__file__)) + os.sep


def data_bytes(n: int, salt: int = 0) -> bytes:
    # (same bytes as the original block-by-block concatenation, built in linear time)
    parts = [hashlib.sha256(b"%d/%d" % (salt, i)).digest() for i in range((n + 31) // 32)]
    return b"".join(parts)[:n]


class OpTrace:
    def __init__(self, idx: int, op: dict):
        self.idx = idx
        self.op = op
        self.invoke_seq = 0
        self.return_seq = 0
        self.outcome: t.Optional[drive.Outcome] = None
        self.getkeys: t.List[dict] = []
        self.draws: t.List[tuple] = []
        self.blob_in: t.Optional[bytes] = None
        self.plaintext: t.Optional[bytes] = None
        self.kdf_calls = 0
        self.connects = 0
        self.clock_ft = 0
        self.clock_ft_end = 0  # the wall clock when the call returned (it may move while a call runs)
        self.blob_spec: t.Optional[dict] = None


class Trace:
    def __init__(self):
        self.ops: t.List[OpTrace] = []
        self.world: t.Optional[W.World] = None
        self.dc: t.Optional[refdc.RefDC] = None
        self.root_keys: t.List[cms.RootKey] = []
        self.record: list = []
        self.cache = None
        self.schedule: t.List[str] = []
        self.thread_scripts: t.Dict[str, dict] = {}
        self.is_child = False
        self.child_pid = 0
        self.child_rfd = -1
        self.child_wfd = -1


class _Resolver:
    def __init__(self, world, target: str):
        self.world, self.target = world, target

    def _answer(self, qname, rdtype, kw):
        import dns.name
        import dns.rdata
        import dns.rdataclass
        import dns.rdatatype

        self.world.dns_queries.append((str(qname), str(rdtype), kw.get("search")))
        self.world.log("dns.query", str(qname))
        if self.world.partitioned:
            raise W.NeedsNetwork("DNS unreachable")
        return [dns.rdata.from_text(dns.rdataclass.IN, dns.rdatatype.SRV, f"0 100 389 {self.target}.")]

    def resolve(self, qname, rdtype="A", *a, **kw):
        return self._answer(qname, rdtype, kw)

    async def aresolve(self, qname, rdtype="A", *a, **kw):
        return self._answer(qname, rdtype, kw)


def make_blob(spec: dict, rks: t.Sequence[cms.RootKey], salt: int) -> t.Tuple[bytes, bytes]:
    """Reference-made blob for an unprotect operation -> (blob, plaintext)."""
    rk = rks[spec["rk"]]
    salt = spec.get("salt", salt)
    pt = data_bytes(spec.get("data", 24), salt)
    h = hashlib.sha512(b"blob/%d/" % salt + repr(sorted((k, v) for k, v in spec.items() if k != "faults")).encode()).digest()
    pub = spec.get("mode", "nonce") == "pub"
    if pub:
        n = (rk.private_key_length + 7) // 8
        seedb = (h * 2)[:n]
        if rk.secret_alg != "DH":
            c = gkdi.curve_of(rk.secret_alg)
            seedb = ((int.from_bytes(seedb, "big") % (c.n - 1)) + 1).to_bytes(n, "big")
    else:
        seedb = h[:32]
    blob = cms.protect(pt, spec["sid"], rk, tuple(spec["pos"]), cek=hashlib.sha256(h).digest(), gcm_nonce=h[32:44], key_info_seed=seedb,
                       public_key_mode=pub, in_envelope=not spec.get("trailing", False),
                       domain=spec.get("domain", "domain.test"), forest=spec.get("forest", "domain.test"))
    if spec.get("faults"):  # the stored record was damaged / altered at rest
        from simworld import blobstore

        blob = blobstore.apply_faults(blob, spec["faults"], cms.parse_blob(blob)["offsets"])
    return blob, pt


def execute_plan(plan: dict, kdf_limit: int = 300, keep_events: bool = False) -> Trace:
    import dpapi_ng

    tr = Trace()
    seed = plan.get("seed", 0)
    world = W.World(seed)
    world.keep_events = keep_events
    tr.world = world
    world.clock.set_filetime(plan.get("clock_ft", 133_400_000_000_000_000))
    world.clock.tick_per_read_ns = int(plan.get("clock_tick_ns", 0))  # the wall clock moves between two readings (also inside one call)
    rks = [offline.synth_root_key(*spec) for spec in plan.get("root_keys", [[0, "SHA512", "DH"]])]
    tr.root_keys = rks
    ctxcfg = plan.get("ctx") or {"kind": "stub", "legs": 2, "sig": 16}
    dcc = plan.get("dc") or {}
    record: list = []
    tr.record = record
    if ctxcfg["kind"] == "stub":
        acc_factory = drive.stub_acceptor_factory(ctxcfg)
        ctx_factory = drive.stub_ctx_factory(ctxcfg, record)
        creds = {}
        ap = "negotiate"
    else:
        ensure_ntlm_env()
        proto = "ntlm" if ctxcfg["kind"] == "ntlm" else "negotiate"
        acc_factory = lambda auth_type: secctx.NtlmAcceptor("ntlm" if auth_type == 0x0A else "negotiate")  # noqa: E731
        ctx_factory = None
        creds = {"username": f"{NTLM_DOMAIN}\\{NTLM_USER}", "password": NTLM_PASS}
        ap = proto
    if plan.get("cred_fault"):
        # fault: the caller's credential cannot be acquired (no ticket / no password / provider not installed); the provider raises
        # when the security context is created
        cf = plan["cred_fault"]
        if cf == "stub-raise":
            import spnego.exceptions as _sx

            def ctx_factory(*a, **kw):  # noqa: F811
                world.stats["cred_fault"] += 1
                raise _sx.OperationNotAvailableError(context_msg="simulated: no usable credential for the requested provider")
        else:
            ctx_factory = None
            creds = {"username": "ELSEWHERE\\nobody"}
            ap = {"ntlm-unknown-user": "ntlm", "kerberos-not-installed": "kerberos"}[cf]
    rpc_knobs = {"pad_mode": dcc.get("pad_mode", "min16"), "header_sign": dcc.get("header_sign", True)}
    if dcc.get("after_response"):  # "rst" | "eof": the DC's services abort / close the connection right after every complete Response
        rpc_knobs["after_response"] = dcc["after_response"]
    dc = refdc.RefDC(world, rks, host=offline.DC, caller_sids=set(plan.get("caller_sids", [])), acceptor_factory=acc_factory,
                     domain=dcc.get("domain", "domain.test"), forest=dcc.get("forest", "domain.test"),
                     skew_ns=dcc.get("skew_ticks", 0) * 100, omit_l2_at_31=dcc.get("omit_l2_at_31", False), rpc_knobs=rpc_knobs,
                     byz=dcc.get("byz"), gkdi_port=dcc.get("gkdi_port", 49667), lib_codecs=bool(dcc.get("lib_codecs")))
    tr.dc = dc
    world.default_delivery = plan.get("delivery")
    if plan.get("short_writes"):
        world.short_writes = dict(plan["short_writes"])  # socket.send() takes at most that many bytes per call (sendall is unaffected)
    if plan.get("entropy_device"):
        world.entropy_device = dict(plan["entropy_device"])  # /dev/urandom opened as a file: "eof" | "short" reads (nothing in the unchanged library opens it)
    cache = dpapi_ng.KeyCache()
    tr.cache = cache
    named_caches: t.Dict[str, t.Any] = {}
    lat = tuple(plan.get("latency_us", (50, 4000)))
    use_dns = plan.get("use_dns", False)
    resolver = _Resolver(world, offline.DC)
    ops = plan["ops"]
    sched_rng = random.Random(seed ^ 0x5EED)

    def api_kwargs(op, the_cache):
        kw = dict(creds)
        kw["auth_protocol"] = ap
        kw["cache"] = the_cache
        if not use_dns:
            kw["server"] = offline.DC
        return kw

    def prepare(i: int, op: dict) -> t.Tuple[OpTrace, t.Callable]:
        ot = OpTrace(i, op)
        which = op.get("cache", "shared")
        if which == "shared":
            the_cache = cache
        elif which == "none":
            the_cache = None  # the caller passes no cache at all (the documented default)
        elif which == "fresh":
            the_cache = dpapi_ng.KeyCache()
        else:  # another named cache shared by the operations that name it (e.g. a second process-wide cache that starts empty)
            the_cache = named_caches.setdefault(which, dpapi_ng.KeyCache())
        kw = api_kwargs(op, the_cache)
        if plan.get("conn_flap") and op["op"] in ("protect", "unprotect"):
            # fault: the next n connection attempts to the key service port are refused (the service is restarting)
            world.flap_ports[dc.gkdi_port] = int(plan["conn_flap"])
        if op["op"] == "load_key":
            return ot, (lambda fl: ("load_key", (rks[op["rk"]],), {"cache": the_cache}))
        if op["op"] == "protect":
            pt = data_bytes(op.get("data", 16), i + 1000 * seed) if not op.get("same_data") else data_bytes(op.get("data", 16), 7)
            if op.get("data_from_op") is not None:
                # the secret to protect is itself the output of an earlier protect of this history (a value that gets wrapped again)
                src = tr.ops[op["data_from_op"]].outcome
                if src is not None and src.kind == "ok" and isinstance(src.value, (bytes, bytearray)):
                    pt = bytes(src.value)
            ot.plaintext = pt
            rkid = rks[op["rk"]].root_key_id if op.get("rk") is not None else None
            if use_dns:
                kw["domain_name"] = op.get("domain_name", "domain.test")
            args = (pt, op["sid"])
            kw["root_key_identifier"] = rkid
            name = "protect"
        else:
            b = op["blob"]
            if "from_op" in b:
                src = tr.ops[b["from_op"]]
                blob = src.outcome.value if src.outcome and src.outcome.kind == "ok" else None
                pt = src.plaintext
                if blob is not None and b.get("relayout") == "lib":
                    # what LAPS-style callers do: the library's own re-pack with the ciphertext trailing the envelope
                    from dpapi_ng._blob import DPAPINGBlob

                    try:
                        blob = bytes(DPAPINGBlob.unpack(blob).pack(blob_in_envelope=False))
                    except Exception as e:  # noqa: BLE001 - the library cannot re-pack a blob it made itself: that is the operation's outcome
                        blob = None
                        ot.prep_exc = e
                elif blob is not None and b.get("relayout"):
                    blob = cms.relayout(blob, in_envelope=False)
                if blob is not None and b.get("graft"):
                    # the stored record was altered at rest: named fields are overwritten with those of ANOTHER blob made in this history
                    from simworld import blobstore

                    other = tr.ops[b["graft"]["from_op"]].outcome
                    if other is not None and other.kind == "ok":
                        ob = bytes(other.value)
                        ooff = cms.parse_blob(ob)["offsets"]
                        faults = [["field", name, ob[ooff[name][0] : ooff[name][1]].hex()] for name in b["graft"]["fields"] if name in ooff]
                        blob = blobstore.apply_faults(bytes(blob), faults, cms.parse_blob(bytes(blob))["offsets"])
                ot.blob_spec = None
            else:
                blob, pt = make_blob(b, rks, i)
                ot.blob_spec = b
            ot.blob_in, ot.plaintext = blob, pt
            args = (blob,)
            name = "unprotect"
        return ot, (lambda fl: (name, args, kw))

    for e in plan.get("entropy_script", ()):
        world.entropy.scripted[(e["source"], e["n"])].append(bytes.fromhex(e["hex"]))
    with world.installed(ctx_factory=ctx_factory, resolver=resolver):
        with common.KdfBudget(10**9) as kb:
            i = 0
            while i < len(ops):
                op = ops[i]
                kind = op["op"]
                if kind == "load_key" and op.get("fl") != "thread":
                    ot = OpTrace(i, op)
                    ot.invoke_seq = world.seq
                    which_ = op.get("cache", "shared")  # (a named second cache may hold root keys too)
                    offline.load_into(cache if which_ == "shared" else named_caches.setdefault(which_, dpapi_ng.KeyCache()), rks[op["rk"]])
                    world.log("op.load_key", op["rk"])
                    ot.return_seq = world.seq
                    ot.outcome = drive.Outcome("ok", None)
                    tr.ops.append(ot)
                    i += 1
                    continue
                if kind == "clock":
                    ot = OpTrace(i, op)
                    if "set_ft" in op:
                        world.clock.set_filetime(op["set_ft"])
                    else:
                        world.clock.advance_ns(op["advance_ticks"] * 100)
                    world.stats["clk"] += 1
                    world.log("op.clock", world.clock.ns)
                    ot.outcome = drive.Outcome("ok", None)
                    tr.ops.append(ot)
                    i += 1
                    continue
                if kind == "identity":
                    ot = OpTrace(i, op)
                    dc.caller_sids = set(op["sids"])
                    ot.outcome = drive.Outcome("ok", None)
                    tr.ops.append(ot)
                    i += 1
                    continue
                if kind == "fork":
                    # the process forks (pre-fork server, multiprocessing): both halves go on with the remaining operations.
                    # The kernel gives parent and child different randomness, so the child's simulated entropy source is re-keyed;
                    # anything the library buffered before the fork is shared by both.
                    ot = OpTrace(i, op)
                    rfd, wfd = os.pipe()
                    pid = os.fork()
                    if pid == 0:
                        os.close(rfd)
                        tr.is_child = True
                        tr.child_wfd = wfd
                        world.entropy.seed = (world.entropy.seed * 1000003 + 0x5EED) & 0xFFFFFFFF
                    else:
                        os.close(wfd)
                        tr.child_pid = pid
                        tr.child_rfd = rfd
                    world.stats["fork"] += 1
                    ot.outcome = drive.Outcome("ok", None)
                    tr.ops.append(ot)
                    i += 1
                    continue
                if kind == "dc_restart":
                    # the key service restarts and registers another dynamic port with the endpoint mapper (same host, same keys)
                    ot = OpTrace(i, op)
                    old_port = dc.gkdi_port
                    peer = world.routes.pop((offline.DC, old_port), None)
                    dc.gkdi_port = int(op["port"])
                    if peer is not None:
                        world.add_route(offline.DC, dc.gkdi_port, peer)
                    world.stats["dc_restart"] += 1
                    world.log("op.dc_restart", old_port, dc.gkdi_port)
                    ot.outcome = drive.Outcome("ok", None)
                    tr.ops.append(ot)
                    i += 1
                    continue
                if kind == "dc_failover":
                    # the domain controller that served so far goes away (its address refuses connections from now on) and another
                    # one, holding the same keys, takes over under another name; the SRV lookup names the new one from now on
                    ot = OpTrace(i, op)
                    old_host = dc.host
                    for port in (135, dc.gkdi_port):
                        peer = world.routes.pop((old_host, port), None)
                        if peer is not None:
                            world.add_route(op["host"], port, peer)
                    dc.host = op["host"]
                    resolver.target = op["host"]
                    world.stats["dc_failover"] += 1
                    world.log("op.dc_failover", old_host, op["host"])
                    ot.outcome = drive.Outcome("ok", None)
                    tr.ops.append(ot)
                    i += 1
                    continue
                if kind == "entropy_fault":
                    ot = OpTrace(i, op)
                    world.entropy.fail_sources = set(op.get("sources", ()))
                    world.stats["entropy_fault"] += int(bool(op.get("sources")))
                    ot.outcome = drive.Outcome("ok", None)
                    tr.ops.append(ot)
                    i += 1
                    continue
                if kind == "app_random_seed":
                    # the application (a test runner, a job scheduler) re-seeds Python's global PRNG between two calls; the library's
                    # key material must not depend on that generator
                    import random as _global_random

                    ot = OpTrace(i, op)
                    _global_random.seed(op.get("value", 1234))
                    world.stats["app_reseed"] += 1
                    ot.outcome = drive.Outcome("ok", None)
                    tr.ops.append(ot)
                    i += 1
                    continue
                if kind == "partition":
                    ot = OpTrace(i, op)
                    world.partitioned = bool(op["on"])
                    world.stats["partition"] += int(bool(op["on"]))
                    ot.outcome = drive.Outcome("ok", None)
                    tr.ops.append(ot)
                    i += 1
                    continue
                # API operations: collect a concurrent group of async ops
                group = [i]
                if op.get("fl") in ("async", "thread") and op.get("group") is not None:
                    j = i + 1
                    while j < len(ops) and ops[j].get("op") in ("protect", "unprotect", "load_key") and ops[j].get("fl") == op["fl"] and ops[j].get("group") == op["group"]:
                        group.append(j)
                        j += 1
                prepared = []
                for k in group:
                    prepared.append(prepare(k, ops[k]))
                offline_now = any(ops[k].get("net") == "offline" for k in group)
                slow_now = any(ops[k].get("net") == "slow" for k in group)
                was_part = world.partitioned
                if offline_now:
                    world.partitioned = True
                if slow_now:  # the DC answers connects later than any client timeout (virtual time makes that free)
                    world.slow_connect.add(("*", 0))
                n_gk0 = len(dc.getkey_log)
                n_conn0 = len(world.connect_attempts)
                n_draw0 = len(world.entropy.ledger)
                try:
                    if len(group) == 1 and op.get("fl") == "sync":
                        ot, mk = prepared[0]
                        name, args, kw = mk("sync")
                        ot.clock_ft = world.clock.filetime()
                        ot.invoke_seq = world.seq
                        world.log("op.invoke", i, name)
                        kb.count = 0
                        kb.limit = kdf_limit
                        world.entropy.op = f"op{i}"
                        if name == "unprotect" and args[0] is None:
                            ot.outcome = drive.Outcome("raise", exc=getattr(ot, "prep_exc", None) or ValueError("source blob missing"))
                        else:
                            ot.outcome = drive.classify(lambda: offline.call_api(world, "sync", name, *args, **kw))
                        ot.kdf_calls = kb.count
                        ot.clock_ft_end = world.clock.filetime()
                        world.log("op.return", i, ot.outcome.brief())
                        ot.return_seq = world.seq
                        tr.ops.append(ot)
                    elif op.get("fl") == "thread":
                        # caller threads sharing the process (and the cache): the sync API under the deterministic thread scheduler
                        kb.count = 0
                        kb.limit = kdf_limit * len(group)

                        def body(ot, mk):
                            name, args, kw = mk("sync")

                            def run():
                                ot.clock_ft = world.clock.filetime()
                                ot.invoke_seq = world.seq
                                world.log("op.invoke", ot.idx, name)
                                if name == "load_key":
                                    ot.outcome = drive.classify(lambda: offline.load_into(kw["cache"], args[0]))
                                elif name == "unprotect" and args[0] is None:
                                    ot.outcome = drive.Outcome("raise", exc=getattr(ot, "prep_exc", None) or ValueError("source blob missing"))
                                else:
                                    ot.outcome = drive.classify(lambda: offline.call_api(world, "sync", name, *args, **kw))
                                ot.clock_ft_end = world.clock.filetime()
                                world.log("op.return", ot.idx, ot.outcome.brief())
                                ot.return_seq = world.seq

                            return run

                        world.entropy.op = "tgroup%d" % i
                        pol = (plan.get("thread_scripts") or {}).get(str(i)) or plan.get("threads") or {"mode": "prob", "p": 0.02}
                        tsim = simthreads.ThreadSim(random.Random(sched_rng.getrandbits(32)), SRC_PREFIX(), pol, granularity=pol.get("gran", "line"),
                                                    on_switch=lambda s, a, b_: world.log("thread.switch", s, a, b_))
                        try:
                            results = tsim.run([body(ot, mk) for ot, mk in prepared])
                        except simthreads.Wedged as e:
                            raise common.HarnessError(str(e))
                        world.stats["tswitch"] += len(tsim.switches)
                        world.stats["toverlap"] += tsim.overlap
                        world.stats["tsteps"] += tsim.steps
                        tr.thread_scripts[str(i)] = dict(tsim.script(), gran=pol.get("gran", "line"))
                        tr.schedule.append("T%d:%d:%s" % (i, tsim.first, ",".join("%d@%d>%d" % (a_, k_, to) for a_, k_, to in tsim.switches[:64])))
                        for (ot, _mk), (_res, exc) in zip(prepared, results):
                            if ot.outcome is None:
                                ot.outcome = drive.Outcome("budget", exc=exc) if isinstance(exc, simthreads.StepLimit) else drive.Outcome("raise", exc=exc if isinstance(exc, Exception) else RuntimeError(repr(exc)))
                                ot.return_seq = world.seq
                            ot.kdf_calls = kb.count
                            tr.ops.append(ot)
                    else:
                        kb.count = 0
                        kb.limit = kdf_limit * len(group)

                        async def one(ot, mk):
                            name, args, kw = mk("async")
                            ot.clock_ft = world.clock.filetime()
                            ot.invoke_seq = world.seq
                            world.log("op.invoke", ot.idx, name)
                            fn = dpapi_ng.async_ncrypt_protect_secret if name == "protect" else dpapi_ng.async_ncrypt_unprotect_secret
                            try:
                                if name == "unprotect" and args[0] is None:
                                    raise (getattr(ot, "prep_exc", None) or ValueError("source blob missing"))
                                if ot.op.get("inner") == "sync":
                                    # application code that calls the blocking API from inside a coroutine (same task, same context)
                                    val = (dpapi_ng.ncrypt_protect_secret if name == "protect" else dpapi_ng.ncrypt_unprotect_secret)(*args, **kw)
                                else:
                                    val = await fn(*args, **kw)
                                ot.outcome = drive.Outcome("ok", val)
                            except asyncio.CancelledError:
                                raise
                            except common.BudgetExceeded as e:
                                ot.outcome = drive.Outcome("budget", exc=e)
                            except Exception as e:  # noqa: BLE001
                                ot.outcome = drive.Outcome("raise", exc=e)
                            ot.clock_ft_end = world.clock.filetime()
                            world.log("op.return", ot.idx, ot.outcome.brief())
                            ot.return_seq = world.seq

                        async def main():
                            lp = asyncio.get_running_loop()
                            # operations that carry the same "chain" value run one after the other inside ONE task (one asyncio context)
                            chains: t.Dict[t.Any, list] = {}
                            for ot, mk in prepared:
                                chains.setdefault(ot.op.get("chain", ("solo", ot.idx)), []).append((ot, mk))

                            async def run_chain(items):
                                for ot_, mk_ in items:
                                    await one(ot_, mk_)

                            chain_task = {key: lp.create_task(run_chain(items), name=f"op{items[0][0].idx}") for key, items in chains.items()}
                            tasks = [chain_task[ot.op.get("chain", ("solo", ot.idx))] for ot, _mk in prepared]
                            for (ot, _mk), task in zip(prepared, tasks):
                                if ot.op.get("cancel_after_us") is not None:
                                    # the caller gives up on this call (its own timeout) while the others go on
                                    def cancel(task=task, ot=ot):
                                        if not task.done():
                                            world.stats["cancel"] += 1
                                            world.log("op.cancel", ot.idx)
                                            task.cancel()

                                    lp.call_later(ot.op["cancel_after_us"] / 1e6, cancel)
                            await asyncio.gather(*chain_task.values(), return_exceptions=True)
                            for (ot, _mk), task in zip(prepared, tasks):
                                if task.cancelled() and ot.outcome is None:
                                    ot.outcome = drive.Outcome("cancelled")
                                    ot.return_seq = world.seq

                        world.entropy.op = "group%d" % i
                        whole = drive.classify(lambda: drive.run_async(world, main, random.Random(sched_rng.getrandbits(32)), lat))
                        tr.schedule += getattr(world, "last_schedule", [])
                        for ot, _mk in prepared:
                            if ot.outcome is None:
                                ot.outcome = whole if whole.kind != "ok" else drive.Outcome("blocks")
                                ot.return_seq = world.seq
                            ot.kdf_calls = kb.count
                            tr.ops.append(ot)
                finally:
                    world.partitioned = was_part
                    world.slow_connect.discard(("*", 0))
                new_gk = dc.getkey_log[n_gk0:]
                for ot, _mk in prepared:
                    ot.connects = len(world.connect_attempts) - n_conn0
                    ot.draws = world.entropy.ledger[n_draw0:]
                    if len(prepared) == 1:
                        ot.getkeys = list(new_gk)
                    else:
                        ot.getkeys = list(new_gk)  # shared by the concurrent group (attributed by the oracle through SD / position)
                i = group[-1] + 1
    return tr


def thread_shrinks(case: dict) -> t.Iterable[dict]:
    """Minimise the interleaving of a plan with thread groups: pin the schedule actually taken as an explicit list of
    pre-emptions (replay then no longer depends on the PRNG), then drop pre-emptions while the violation stays."""
    if not any(o.get("fl") == "thread" for o in case.get("ops", ())):
        return
    ts = case.get("thread_scripts")
    if not ts:
        try:
            tr = execute_plan({k: v for k, v in case.items() if not k.startswith("_")})
        except Exception:  # noqa: BLE001
            return
        if tr.thread_scripts:
            yield dict(case, thread_scripts=tr.thread_scripts)
        return
    for gid, sc in ts.items():
        sw = sc["switches"]
        n = len(sw)
        parts = 2
        while parts <= 8 and n >= parts:  # ddmin: keep one part, then drop one part
            size = (n + parts - 1) // parts
            chunks = [sw[k : k + size] for k in range(0, n, size)]
            for ch in chunks:
                yield dict(case, thread_scripts=dict(ts, **{gid: dict(sc, switches=ch)}))
            if parts > 2:
                for k in range(len(chunks)):
                    yield dict(case, thread_scripts=dict(ts, **{gid: dict(sc, switches=[x for j, ch in enumerate(chunks) if j != k for x in ch])}))
            parts *= 2
        for k in range(min(n, 32)):
            yield dict(case, thread_scripts=dict(ts, **{gid: dict(sc, switches=sw[:k] + sw[k + 1 :])}))
