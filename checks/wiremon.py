"""Receive-side wire monitor: every PDU (and NDR stub) that crosses the simulated
wire is decoded by the library and by the independent codec, compared field by
field, and re-encoded by the library; the result must be the received bytes.

Returns (clause, detail) for the first disagreement, or None.
"""
from __future__ import annotations

import typing as t
import uuid

from ref import gkdi, rpce


class MonitorHarnessError(Exception):
    pass


def _syn(s):
    return (s.uuid, s.version, s.version_minor)


def check_pdu(raw: bytes, origin: str) -> t.Optional[t.Tuple[str, str]]:
    """origin: who encoded the message: client | libdc (library encoders) | ref (reference encoders)."""
    import dpapi_ng._rpc as rpc
    from dpapi_ng._rpc._pdu import PDU

    raw = bytes(raw)
    try:
        ref = rpce.parse_pdu(raw)
    except Exception as e:  # noqa: BLE001
        if origin == "ref":
            raise MonitorHarnessError(f"reference-encoded PDU rejected by the reference decoder: {e!r}")
        return ("lib-encoded-pdu-rejected", f"a PDU encoded by the library ({origin}) is not well-formed for the independent decoder: {e!r}; bytes={raw[:48].hex()}...")
    try:
        # the receiving node decodes from its receive buffer and then reuses that buffer for the next fragment
        rxbuf = bytearray(raw)
        lib = PDU.unpack(rxbuf)
        try:
            rxbuf[:] = b"\xEE" * len(rxbuf)
        except BufferError:
            return ("decoded-pdu-aliases-receive-buffer", f"{ref['name']}: the decoded object pins the caller's receive buffer (exported memoryview)")
    except Exception as e:  # noqa: BLE001
        return ("well-formed-pdu-not-decoded", f"library cannot decode a well-formed {ref['name']} from {origin}: {e!r}")
    h = lib.header
    got_h = (h.version, h.version_minor, int(h.packet_type), int(h.packet_flags), h.frag_len, h.auth_len, h.call_id, h.data_rep.pack())
    want_h = (ref["ver"], ref["ver_minor"], ref["ptype"], ref["flags"], ref["frag_len"], ref["auth_len"], ref["call_id"], ref["drep"])
    if got_h != want_h:
        return ("header-fields", f"{ref['name']}: header decoded as {got_h}, independent decoder says {want_h}")
    if ref["ptype"] != rpce.BIND_NAK:
        st = lib.sec_trailer
        got_a = None if st is None else (int(st.type), int(st.level), st.pad_length, st.context_id, st.auth_value)
        a = ref["auth"]
        want_a = None if a is None else (a["type"], a["level"], a["pad"], a["ctx"], a["value"])
        if got_a != want_a:
            return ("sec-trailer-fields", f"{ref['name']}: security trailer decoded as {str(got_a)[:120]}, independent decoder says {str(want_a)[:120]}")
    pt = ref["ptype"]
    if pt in (rpce.BIND, rpce.ALTER_CONTEXT):
        got = (lib.max_xmit_frag, lib.max_recv_frag, lib.assoc_group, [(c.context_id, _syn(c.abstract_syntax), [_syn(x) for x in c.transfer_syntaxes]) for c in lib.contexts])
        want = (ref["max_xmit"], ref["max_recv"], ref["assoc"], ref["contexts"])
    elif pt in (rpce.BIND_ACK, rpce.ALTER_CONTEXT_RESP):
        got = (lib.max_xmit_frag, lib.max_recv_frag, lib.assoc_group, lib.sec_addr,
               [(int(r.result), r.reason, (r.syntax, r.syntax_version & 0xFFFF, r.syntax_version >> 16)) for r in lib.results])
        want = (ref["max_xmit"], ref["max_recv"], ref["assoc"], ref["sec_addr"], ref["results"])
    elif pt == rpce.BIND_NAK:
        got = (lib.reject_reason, [tuple(v) for v in lib.versions])
        want = (ref["reason"], ref["versions"])
    elif pt == rpce.REQUEST:
        got = (lib.alloc_hint, lib.context_id, lib.opnum, lib.obj, lib.stub_data)
        want = (ref["alloc_hint"], ref["ctx_id"], ref["opnum"], ref["obj"], ref["stub"])
    elif pt == rpce.RESPONSE:
        got = (lib.alloc_hint, lib.context_id, lib.cancel_count, lib.stub_data)
        want = (ref["alloc_hint"], ref["ctx_id"], ref["cancel_count"], ref["stub"])
    elif pt == rpce.FAULT:
        got = (lib.alloc_hint, lib.context_id, lib.cancel_count, int(lib.flags), lib.status, lib.stub_data)
        want = (ref["alloc_hint"], ref["ctx_id"], ref["cancel_count"], ref["fault_flags"], ref["status"], ref["stub"])
    else:
        return None
    if got != want:
        return ("body-fields", f"{ref['name']} from {origin}: library decoded {str(got)[:300]} but the independent decoder says {str(want)[:300]}")
    # re-encode
    try:
        again = bytearray(lib.pack())
        again[8:10] = len(again).to_bytes(2, "little")
    except Exception as e:  # noqa: BLE001
        return ("re-encode-failed", f"{ref['name']}: decoded object cannot be packed: {e!r}")
    if bytes(again) != raw:
        k = next((i for i, (x, y) in enumerate(zip(again, raw)) if x != y), min(len(again), len(raw)))
        return ("re-encode-differs", f"{ref['name']} from {origin}: decode+encode changes the bytes at offset {k} (len {len(again)} vs {len(raw)}): {bytes(again[k:k+12]).hex()} vs {raw[k:k+12].hex()}")
    return None


def _floors_lib(tower) -> list:
    return [(int(f.protocol), bytes(f.lhs), bytes(f.rhs)) for f in tower]


def check_ept_map_request(stub: bytes, origin: str):
    from dpapi_ng import _epm

    try:
        ref = rpce.ndr64_parse_ept_map_request(stub)
    except Exception as e:  # noqa: BLE001
        if origin == "ref":
            raise MonitorHarnessError(repr(e))
        return ("lib-encoded-ept-map-rejected", f"ept_map request encoded by the library is not valid NDR64 for the independent decoder: {e!r}")
    if ref["consumed"] != len(stub):
        return ("ept-map-request-length", f"{len(stub) - ref['consumed']} trailing bytes after the ept_map arguments")
    try:
        m = _epm.EptMap.unpack(stub)
    except Exception as e:  # noqa: BLE001
        return ("well-formed-ept-map-not-decoded", repr(e))
    got = (m.obj, _floors_lib(m.tower), m.max_towers, m.entry_handle)
    want = (ref["obj"] if ref["obj"] and ref["obj"].int else None, ref["floors"], ref["max_towers"], None if ref["handle"] == b"\x00" * 20 else "set")
    if got[:3] != want[:3] or (got[3] is None) != (want[3] is None):
        return ("ept-map-request-fields", f"library decoded {str(got)[:200]}, reference {str(want)[:200]}")
    again = m.pack()
    try:
        r2 = rpce.ndr64_parse_ept_map_request(again)
    except Exception as e:  # noqa: BLE001
        return ("ept-map-request-re-encode", f"re-encoded ept_map request is not valid NDR64: {e!r}")
    if (r2["obj"], r2["floors"], r2["max_towers"], r2["handle"], r2["consumed"]) != (ref["obj"], ref["floors"], ref["max_towers"], ref["handle"], len(again)):
        return ("ept-map-request-re-encode", "re-encoded ept_map request decodes to different values")
    return None


def check_ept_map_response(stub: bytes, origin: str):
    from dpapi_ng import _epm

    try:
        ref = rpce.ndr64_parse_ept_map_response(stub)
    except Exception as e:  # noqa: BLE001
        if origin == "ref":
            raise MonitorHarnessError(repr(e))
        return ("lib-encoded-ept-map-result-rejected", f"ept_map result encoded by the library is not valid NDR64 for the independent decoder: {e!r}")
    try:
        m = _epm.EptMapResult.unpack(stub)
    except Exception as e:  # noqa: BLE001
        return ("well-formed-ept-map-result-not-decoded", f"{e!r}")
    got = ([_floors_lib(tw) for tw in m.towers], m.status)
    want = ([tw for tw in ref["towers"]], ref["status"])
    if got != want:
        return ("ept-map-result-fields", f"library decoded towers/status {str(got)[:300]} but the reference says {str(want)[:300]}")
    try:
        again = m.pack()
        r2 = rpce.ndr64_parse_ept_map_response(again)
    except Exception as e:  # noqa: BLE001
        lens = [len(rpce.tower_bytes(tw)) for tw in ref["towers"]]
        return ("ept-map-result-re-encode", f"re-encoding the decoded ept_map result gives bytes the independent NDR64 decoder rejects ({e!r}); tower lengths {lens}")
    if (r2["towers"], r2["status"]) != (ref["towers"], ref["status"]):
        return ("ept-map-result-re-encode", "re-encoded ept_map result decodes to different values")
    return None


def check_getkey_request(stub_args: bytes, origin: str):
    from dpapi_ng import _gkdi

    try:
        ref = rpce.ndr64_parse_getkey_request(stub_args)
    except Exception as e:  # noqa: BLE001
        if origin == "ref":
            raise MonitorHarnessError(repr(e))
        return ("lib-encoded-getkey-rejected", f"{e!r}")
    try:
        g = _gkdi.GetKey.unpack(stub_args)
    except Exception as e:  # noqa: BLE001
        return ("well-formed-getkey-not-decoded", repr(e))
    got = (g.target_sd, g.root_key_id, g.l0_key_id, g.l1_key_id, g.l2_key_id)
    want = (ref["sd"], ref["root_key_id"], ref["l0"], ref["l1"], ref["l2"])
    if got != want:
        return ("getkey-request-fields", f"library decoded {str(got)[:200]}, reference {str(want)[:200]}")
    again = g.pack()
    # the request object is a plain mutable dataclass: after changing an argument the stub must be the encoding of the new arguments
    try:
        g2 = _gkdi.GetKey.unpack(stub_args)
        g2.pack()
        g2.l0_key_id, g2.l1_key_id, g2.l2_key_id = 7, 8, 9
        g2.target_sd = g2.target_sd + b"\x01"
        r3 = rpce.ndr64_parse_getkey_request(g2.pack())
        if (r3["sd"], r3["l0"], r3["l1"], r3["l2"]) != (ref["sd"] + b"\x01", 7, 8, 9):
            return ("getkey-request-stale-encoding", "after changing the arguments of a GetKey object pack() still produced the encoding of the old arguments")
    except rpce.WireError as e:
        return ("getkey-request-stale-encoding", f"re-packed GetKey after an argument change is not valid NDR64: {e!r}")
    want_bytes = rpce.ndr64_getkey_request(ref["sd"], ref["root_key_id"], ref["l0"], ref["l1"], ref["l2"], referent=ref["referent"] or 0x20000)
    if again != want_bytes:
        # referent ids are free; compare through the decoder
        r2 = rpce.ndr64_parse_getkey_request(again)
        if (r2["sd"], r2["root_key_id"], r2["l0"], r2["l1"], r2["l2"], r2["consumed"]) != (*want, len(again)):
            return ("getkey-request-re-encode", "re-encoded GetKey request differs beyond referent ids")
    return None


def envelope_fields_lib(g) -> dict:
    return {"version": g.version, "flags": g.flags, "l0": g.l0, "l1": g.l1, "l2": g.l2, "root_key_id": g.root_key_identifier,
            "kdf_alg": g.kdf_algorithm, "kdf_params": g.kdf_parameters, "secret_alg": g.secret_algorithm, "secret_params": g.secret_parameters,
            "private_key_length": g.private_key_length, "public_key_length": g.public_key_length, "domain": g.domain_name,
            "forest": g.forest_name, "l1_key": g.l1_key, "l2_key": g.l2_key}


def check_getkey_response(stub: bytes, origin: str):
    from dpapi_ng import _gkdi

    try:
        ref = rpce.ndr64_parse_getkey_response(stub)
    except Exception as e:  # noqa: BLE001
        if origin == "ref":
            raise MonitorHarnessError(repr(e))
        return ("lib-encoded-getkey-reply-rejected", f"{e!r}")
    if ref["hresult"] != 0 or ref["envelope"] is None:
        return None
    try:
        want = gkdi.unpack_envelope(ref["envelope"])
    except Exception as e:  # noqa: BLE001
        if origin == "ref":
            raise MonitorHarnessError(repr(e))
        return ("lib-encoded-envelope-rejected", f"group key envelope encoded by the library is rejected by the independent decoder: {e!r}")
    try:
        rxbuf = bytearray(stub)  # decoded from a receive buffer that is reused afterwards
        g = _gkdi.GetKey.unpack_response(rxbuf)
        try:
            rxbuf[:] = b"\xEE" * len(rxbuf)
        except BufferError:
            return ("decoded-envelope-aliases-receive-buffer", "the decoded envelope pins the caller's receive buffer (exported memoryview)")
    except Exception as e:  # noqa: BLE001
        return ("well-formed-getkey-reply-not-decoded", repr(e))
    got = envelope_fields_lib(g)
    got = {k: (bytes(v) if isinstance(v, memoryview) else v) for k, v in got.items()}
    if got != want:
        diff = [k for k in want if got.get(k) != want[k]]
        return ("envelope-fields", f"library decoded the envelope differently in {diff} (envelope length {len(ref['envelope'])}, mod 8 = {len(ref['envelope']) % 8})")
    if g.pack() != ref["envelope"]:
        return ("envelope-re-encode", "decode+encode of the group key envelope changes the bytes")
    return None
