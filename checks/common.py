"""Shared driver for all checks: case generation -> parallel simulated runs ->
oracle verdicts -> known-findings filter -> minimisation -> replay file ->
fresh-interpreter replay verification -> evidence file -> exit code.

Exit codes: 0 property held on everything explored (or only listed known
findings), 1 VIOLATION (line ``VIOLATION property=<id> replay=<path>``),
2 harness error (never silently green, never a VIOLATION).
"""
from __future__ import annotations

import argparse
import collections
import concurrent.futures
import faulthandler
import hashlib
import json
import multiprocessing
import os
import subprocess
import sys
import time
import traceback
import typing as t
import warnings

VERIF = os.path.dirname(os.path.dirname(os.path.abspath(__file__)))
KNOWN_FINDINGS = os.path.join(VERIF, "known_findings.json")
EVIDENCE_DIR = os.path.join(VERIF, "evidence")
REPLAY_DIR = os.path.join(VERIF, "replays")

DEFAULT_SEED = {"quick": 20261003, "thorough": 20261004}


class HarnessError(Exception):
    pass


class BudgetExceeded(BaseException):
    """A deterministic step budget (KDF calls / traced lines) ran out."""


def jdump(obj) -> str:
    return json.dumps(obj, sort_keys=True, default=_jdefault)


def _jdefault(o):
    if isinstance(o, (bytes, bytearray)):
        return {"hex": bytes(o).hex()}
    if isinstance(o, (set, frozenset)):
        return sorted(o)
    return repr(o)


def unhex(o):
    """Inverse of the bytes encoding used in cases / replay files."""
    if isinstance(o, dict):
        if set(o) == {"hex"}:
            return bytes.fromhex(o["hex"])
        return {k: unhex(v) for k, v in o.items()}
    if isinstance(o, list):
        return [unhex(v) for v in o]
    return o


def key_hash(x) -> int:
    return int.from_bytes(hashlib.blake2b(jdump(x).encode(), digest_size=8).digest(), "big")


class Check:
    id = "C00"
    level = "exploration"
    title = ""
    rule = ""
    technique = "deterministic simulation with fault injection"
    components: t.Dict[str, str] = {}
    assumptions: t.List[str] = []
    required_fired: t.Sequence[str] = ()  # fault kinds / probes that must be > 0 (reach self-test)
    exhaustive_note: t.Optional[str] = None
    per_case_timeout = 120
    shrink_budget = 400
    workers = 16

    def setup(self, tier: str, seed: int) -> None:
        """Per-process preparation (called in the parent before fork)."""

    def cases(self, tier: str, seed: int) -> t.Sequence:
        raise NotImplementedError

    def run_case(self, case) -> dict:
        """-> {"viol": None | {"sig": str, "detail": str}, "digest": str, "key": hashable|None,
               "fired": {kind: n}, "probes": {name: n}, "vtime_ns": int}"""
        raise NotImplementedError

    def shrink(self, case) -> t.Iterable:
        return ()

    def warmup(self, cases) -> None:
        return None

    def exhaustive(self, tier: str) -> bool:
        return False

    def sample_repr(self, case, res) -> t.Any:
        return case


# ------------------------------------------------------------------ helpers ----
def violation(prop: str, clause: str, flavour: str, outcome: str, where: str = "", cond: str = "", detail: str = "") -> dict:
    sig = "/".join(x for x in (prop, clause, flavour, outcome, where, cond) if x)
    return {"sig": sig, "detail": detail}


def innermost_repo_frame(exc: BaseException) -> str:
    tb = exc.__traceback__
    last = ""
    while tb is not None:
        fn = tb.tb_frame.f_code.co_filename
        if "/dpapi_ng/" in fn:
            last = f"{os.path.basename(fn)}:{tb.tb_frame.f_code.co_name}"
        tb = tb.tb_next
    return last or "outside"


def load_known() -> t.List[dict]:
    if not os.path.exists(KNOWN_FINDINGS):
        return []
    with open(KNOWN_FINDINGS) as f:
        return json.load(f).get("findings", [])


def match_known(prop: str, sig: str, known: t.List[dict]) -> t.Optional[dict]:
    import fnmatch

    for k in known:
        if k.get("property") != prop or k.get("status") != "open":
            continue
        if fnmatch.fnmatchcase(sig, k["signature"]):
            return k
    return None


# ---------------------------------------------------------------- the worker ----
_CHECK: t.Optional[Check] = None
_CASES: t.Sequence = ()


def _limit_memory() -> None:
    """A runaway allocation in the code under test must become a MemoryError in this process, not an OOM kill of the box
    (the same limit applies to workers and to replays, so that both see the same outcome)."""
    try:
        import resource

        lim = 3 << 30
        resource.setrlimit(resource.RLIMIT_AS, (lim, lim))
    except Exception:  # noqa: BLE001
        pass


def _run_slice(args):
    widx, nworkers, sample_mod = args
    check = _CHECK
    assert check is not None
    faulthandler.enable()
    warnings.simplefilter("ignore")
    _limit_memory()
    agg = {"n": 0, "fired": collections.Counter(), "probes": collections.Counter(), "keys": set(), "sched": set(), "viols": [],
           "digests": {}, "vtime_ns": 0, "samples": [], "viol_count": 0, "errors": []}
    persig: t.Dict[str, int] = collections.Counter()
    for i in range(len(_CASES)):
        mine = i % nworkers == widx
        shadow = sample_mod and i % sample_mod == 0 and (i // sample_mod + 1) % nworkers == widx and nworkers > 1
        if not mine and not shadow:
            continue
        case = _CASES[i]
        faulthandler.dump_traceback_later(check.per_case_timeout, exit=True)
        try:
            res = check.run_case(case)
        except HarnessError as e:
            agg["errors"].append((i, f"HarnessError: {e}"))
            continue
        except Exception as e:  # noqa: BLE001
            agg["errors"].append((i, "".join(traceback.format_exception(e))[-2000:]))
            continue
        finally:
            faulthandler.cancel_dump_traceback_later()
        if shadow and not mine:
            agg["digests"][-i - 1] = res.get("digest")
            continue
        if sample_mod and i % sample_mod == 0:
            agg["digests"][i] = res.get("digest")
            if nworkers == 1:
                agg["digests"][-i - 1] = check.run_case(case).get("digest")
        agg["n"] += int(res.get("evals", 1))
        agg["fired"].update(res.get("fired") or {})
        agg["probes"].update(res.get("probes") or {})
        agg["vtime_ns"] += res.get("vtime_ns", 0)
        k = res.get("key")
        if k is not None:
            agg["keys"].add(k if isinstance(k, int) else key_hash(k))
        for k in res.get("keys") or ():
            agg["keys"].add(k if isinstance(k, int) else key_hash(k))
        if res.get("sched_key") is not None:
            agg["sched"].add(res["sched_key"])
        v = res.get("viol")
        if v:
            agg["viol_count"] += 1
            persig[v["sig"]] += 1
            # the first two of a signature plus a thinning sample of later ones: with state leaking between cases (a module-level
            # cache in the code under test) the early ones may fail only because of what ran before them, while later cases of the
            # same signature carry the history inside the case and do replay
            if persig[v["sig"]] <= 2 or persig[v["sig"]] in (5, 17, 60, 200, 700, 2500) or res.get("replay_pref"):
                if sum(1 for _i, v_ in agg["viols"] if v_["sig"] == v["sig"]) < 10:
                    if res.get("replay_pref"):
                        v = dict(v, replay_pref=True)  # the check says this case carries its history inside itself
                    v = dict(v, worker=[widx, nworkers, sample_mod])  # (enough to re-create what this process ran before case i)
                    agg["viols"].append((i, v))
        if len(agg["samples"]) < 2 and (i % max(1, len(_CASES) // 7) == 0):
            agg["samples"].append(check.sample_repr(case, res))
    agg["persig"] = dict(persig)
    return agg


# -------------------------------------------------------------------- main ----
def reexec_if_needed() -> None:
    # MALLOC_ARENA_MAX=1: glibc otherwise reserves 64 MiB of address space per thread arena at unpredictable moments,
    # which the address-space watch (VmWatch) would see as growth
    if os.environ.get("PYTHONHASHSEED") != "0" or os.environ.get("MALLOC_ARENA_MAX") != "1":
        env = dict(os.environ, PYTHONHASHSEED="0", MALLOC_ARENA_MAX="1")
        os.execve(sys.executable, [sys.executable] + sys.argv, env)


def run_check(check: Check, argv: t.Optional[t.Sequence[str]] = None) -> int:
    ap = argparse.ArgumentParser()
    ap.add_argument("--tier", default=os.environ.get("VERIF_TIER") or "quick", choices=["quick", "thorough"])
    ap.add_argument("--replay")
    ap.add_argument("--workers", type=int, default=int(os.environ.get("VERIF_WORKERS") or check.workers))
    ap.add_argument("--limit", type=int, default=0, help="run only the first N cases (debugging; evidence marks it)")
    ap.add_argument("--spread", action="store_true", help="with --limit: take N cases evenly spaced over the whole case list (every family) instead of the first N")
    ap.add_argument("--no-evidence", action="store_true")
    ap.add_argument("--digest-only", action="store_true", help="print the digest of every case (determinism self-test)")
    args = ap.parse_args(argv)
    t0 = time.time()
    try:
        return _run(check, args, t0)
    except HarnessError as e:
        print(f"HARNESS-ERROR check={check.id}: {e}")
        return 2
    except Exception:  # noqa: BLE001
        traceback.print_exc()
        print(f"HARNESS-ERROR check={check.id}: unexpected exception in the driver")
        return 2


def _calibrate() -> None:
    from ref import calibrate

    try:
        calibrate.run()
    except Exception as e:  # noqa: BLE001
        raise HarnessError(f"reference calibration failed: {e!r}")


def _repo_head() -> str:
    try:
        return subprocess.run(["git", "-C", "/repo", "rev-parse", "HEAD"], capture_output=True, text=True).stdout.strip()
    except Exception:  # noqa: BLE001
        return "?"


def _run(check: Check, args, t0: float) -> int:
    global _CHECK, _CASES
    warnings.simplefilter("ignore")
    tier = args.tier
    seed_env = os.environ.get("VERIF_SEED")
    seed = int(seed_env) if seed_env not in (None, "") else DEFAULT_SEED[tier]
    print(f"check={check.id} tier={tier} VERIF_SEED={seed} repo_head={_repo_head()[:12]}")
    _calibrate()
    if not (args.replay and os.environ.get("VERIF_PRISTINE")):  # (run_case_fresh: nothing of the library may run before the case)
        check.setup(tier, seed)
    if args.replay:
        return _replay(check, args.replay)
    cases = check.cases(tier, seed)
    if args.limit:
        cases = cases[:: max(1, len(cases) // args.limit)][: args.limit] if args.spread else cases[: args.limit]
    n = len(cases)
    if n == 0:
        raise HarnessError("no cases generated")
    _CHECK, _CASES = check, cases
    if not args.replay:
        check.warmup(cases)  # (lazy imports etc. happen once in the parent, before the workers are forked)
    if args.digest_only:
        h = hashlib.sha256()
        for c in cases:
            h.update((check.run_case(c).get("digest") or "").encode())
        print("DIGEST", h.hexdigest())
        return 0
    nworkers = max(1, min(args.workers, n))
    want_samples = 64 if tier == "quick" else 256
    sample_mod = max(1, n // want_samples)
    results = []
    if nworkers == 1:
        results.append(_run_slice((0, 1, sample_mod)))
    else:
        ctx = multiprocessing.get_context("fork")
        from checks import plan as _plan

        _plan.ensure_ntlm_env()  # (one credential directory, made and removed by this process; the workers inherit it)
        with concurrent.futures.ProcessPoolExecutor(max_workers=nworkers, mp_context=ctx) as ex:
            futs = [ex.submit(_run_slice, (w, nworkers, sample_mod)) for w in range(nworkers)]
            for f in futs:
                try:
                    results.append(f.result())
                except concurrent.futures.process.BrokenProcessPool:
                    raise HarnessError("a worker died (timeout safety net or crash); see stderr")
    fired, probes, keys, scheds = collections.Counter(), collections.Counter(), set(), set()
    viols: t.List[t.Tuple[int, dict]] = []
    persig: t.Dict[str, int] = collections.Counter()
    digests: t.Dict[int, str] = {}
    errors = []
    samples = []
    evaluations = vtime = 0
    for r in results:
        evaluations += r["n"]
        fired.update(r["fired"])
        probes.update(r["probes"])
        keys |= r["keys"]
        scheds |= r.get("sched", set())
        viols += r["viols"]
        persig.update(r["persig"])
        digests.update(r["digests"])
        errors += r["errors"]
        vtime += r["vtime_ns"]
        samples += r["samples"]
    if errors:
        for i, e in errors[:3]:
            print(f"harness exception in case {i}:\n{e}")
        raise HarnessError(f"{len(errors)} cases raised inside the harness (not a verdict)")
    # determinism sample: same case, two different worker processes
    det_pairs = [(i, digests[i], digests.get(-i - 1)) for i in digests if i >= 0 and (-i - 1) in digests]
    det_bad = [p for p in det_pairs if p[1] != p[2]]
    if det_bad and not viols:
        raise HarnessError(f"non-deterministic run: {len(det_bad)}/{len(det_pairs)} sampled cases differ between two processes, e.g. case {det_bad[0][0]}")
    if det_bad:
        # Process-global state in the code under test (a module-level cache, say) makes a case depend on what ran before it in
        # the same worker. Violations are still only reported if they replay from their file in a fresh interpreter (below),
        # which is what protects against false alarms; anything that does not replay ends as a harness error.
        print(f"NOTE check={check.id}: {len(det_bad)}/{len(det_pairs)} sampled cases gave different event logs in two processes "
              f"(state leaking between cases); only violations that replay in a fresh interpreter are reported")
    # reach self-test
    missing = [k for k in check.required_fired if not (fired.get(k) or probes.get(k))]
    if missing and not args.limit and not viols:
        # (when violations were found they are reported instead: a broken tree may well never reach some branch)
        raise HarnessError(f"reach self-test failed: never fired {missing}")

    # ---- verdicts ------------------------------------------------------------
    known = load_known()
    viols.sort(key=lambda x: x[0])
    by_sig: t.Dict[str, t.List[t.Tuple[int, dict]]] = collections.OrderedDict()
    for i, v in viols:
        by_sig.setdefault(v["sig"], []).append((i, v))
    exit_code = 0
    known_matched = []
    new_viols = []
    unreplayable: t.List[str] = []
    t_verdicts = time.time()
    for sig, lst in by_sig.items():
        # (wall budget of the verdict phase: a tree that breaks a property in many ways gives many signatures; the first ones get the
        # full treatment - up to 14 candidates, minimisation, history fallback - later ones fewer attempts.  Nothing here can turn a
        # violation into a pass: the exit code is 1 as soon as one signature is reported.)
        spent = time.time() - t_verdicts
        n_cand = 14 if spent < 300 else (3 if spent < 900 else 1)
        k = match_known(check.id, sig, known)
        if k is not None:
            known_matched.append(sig)
            print(f"KNOWN-FINDING: property={check.id} {sig} ({persig[sig]} cases) - {k.get('description', '')}")
            continue
        if spent > 1200 and new_viols:
            # (the run has reported violations with verified replay files already and the budget of the verdict phase is used up: a
            # tree that breaks the property in dozens of ways would otherwise take hours; the further signatures are named, not replayed)
            print(f"NOTE check={check.id}: {sig} ({persig[sig]} cases) seen too; not replayed (verdict-phase budget used up after {len(new_viols)} reported violations)")
            continue
        path = None
        # stored cases of this signature (a spread over the run, see _run_slice): the first that replays in a fresh interpreter is
        # reported; candidates are tried from both ends and the middle so that a state-dependent prefix does not use up the attempts
        order = sorted(range(len(lst)), key=lambda k_: (not lst[k_][1].get("replay_pref"), min(k_, len(lst) - 1 - k_), k_))
        for i, v in [lst[k_] for k_ in order[:n_cand]]:
            case = cases[i]
            small = _minimise(check, case, sig) if spent < 900 else case
            path = _write_replay(check, tier, seed, i, small, sig, v, original=case)
            if _verify_replay(check, path):
                break
            print(f"NOTE check={check.id}: minimised replay {path} does not reproduce {sig} in a fresh interpreter; trying the unminimised case {i}")
            path = _write_replay(check, tier, seed, i, case, sig, v, original=None, suffix="-orig")
            if _verify_replay(check, path):
                break
            path = None
        if path is None and not args.limit:
            # No stored case fails on its own: the failure depends on what the same process ran before (state that the code under test
            # keeps between calls - a module-level memo, an object cache keyed by id()).  Replay the HISTORY instead: the cases this
            # worker had run up to the failing one, in order, in a fresh interpreter; then shrink that history.
            i, v = min(lst, key=lambda x: x[0])
            hist = _worker_history(v.get("worker"), i, len(cases))
            if hist:
                hpath = _write_replay(check, tier, seed, i, cases[i], sig, v, original=None, suffix="-history", history=hist)
                if _verify_replay(check, hpath):
                    small = _minimise_history(check, tier, seed, i, cases[i], sig, v, hist) if time.time() - t_verdicts < 600 else None
                    if small is not None:
                        hpath = small
                    path = hpath
                    print(f"NOTE check={check.id}: {sig} only fails after other cases ran in the same process; the replay file carries that history")
                    print(f"VIOLATION property={check.id} replay={path}")
                    print(f"  signature: {sig}  ({persig[sig]} cases)  detail: {v.get('detail', '')[:300]}")
                    new_viols.append(sig)
                    exit_code = 1
                    continue
        if path is None:
            # only occurs with state left behind by earlier cases of the same worker process (or a harness problem): never reported
            # as a VIOLATION; if nothing at all replays the run ends as a harness error below
            print(f"NOTE check={check.id}: {sig} ({persig[sig]} cases) does not replay from its file in a fresh interpreter; not reported")
            unreplayable.append(sig)
            continue
        print(f"VIOLATION property={check.id} replay={path}")
        print(f"  signature: {sig}  ({persig[sig]} cases)  detail: {v.get('detail', '')[:300]}")
        new_viols.append(sig)
        exit_code = 1

    if unreplayable and not new_viols:
        raise HarnessError(f"violations were seen ({unreplayable[:3]}) but none replays in a fresh interpreter: state leaks between cases")
    wall = time.time() - t0
    if not args.no_evidence:
        cov = {
            "evaluations": int(evaluations),
            "distinct_nontrivial": int(len(keys)),
            "rule": check.rule,
            "samples": [json.loads(jdump(s)) for s in samples[:4]] or [json.loads(jdump(check.sample_repr(cases[0], {})))],
            "exhaustive": bool(check.exhaustive(tier)) and not args.limit,
            "simulated_runs": int(evaluations),
            "runs_per_hour": int(evaluations / max(wall, 1e-6) * 3600),
            "simulated_time_s": round(vtime / 1e9, 6),
            "fault_kinds_fired": dict(sorted(fired.items())),
            "probes": dict(sorted(probes.items())),
            "components": check.components,
            "determinism_sample": {"cases_run_twice_in_two_processes": len(det_pairs), "mismatches": 0},
            "known_findings_matched": known_matched,
            "new_violation_signatures": new_viols,
            "violating_cases": int(sum(persig.values())),
            "workers": nworkers,
            "repo_head": _repo_head(),
            "technique": check.technique,
        }
        if check.exhaustive_note:
            cov["exhaustive_note"] = check.exhaustive_note
        if scheds:
            cov["distinct_schedules"] = len(scheds)
            cov["distinct_schedules_measure"] = "hash of the sequence of external completions (per-connection rx/tx, connect, executor job, close) the simulated loop injected, in order"
        if args.limit:
            cov["limited_to_first_cases"] = args.limit
        ev = {"property_id": check.id, "tier": tier, "seed": seed, "level": check.level, "coverage": cov,
              "assumptions": check.assumptions, "wall_s": round(wall, 3), "violations": len(new_viols)}
        os.makedirs(EVIDENCE_DIR, exist_ok=True)
        tmp = os.path.join(EVIDENCE_DIR, f".{check.id}.json.tmp")
        with open(tmp, "w") as f:
            json.dump(ev, f, indent=1, sort_keys=True)
        os.replace(tmp, os.path.join(EVIDENCE_DIR, f"{check.id}.json"))
    print(f"check={check.id} evaluations={evaluations} distinct_nontrivial={len(keys)} violations={len(new_viols)} "
          f"known={len(known_matched)} wall={wall:.1f}s runs/h={int(evaluations / max(wall, 1e-6) * 3600)} "
          f"fired={dict(fired)}")
    return exit_code


def _same_sig(check: Check, case, sig: str) -> bool:
    try:
        res = check.run_case(case)
    except Exception:  # noqa: BLE001
        return False
    v = res.get("viol")
    return bool(v) and v["sig"] == sig


def _minimise(check: Check, case, sig: str):
    budget = check.shrink_budget
    cur = case
    progress = True
    while progress and budget > 0:
        progress = False
        for cand in check.shrink(cur):
            budget -= 1
            if budget <= 0:
                break
            if _same_sig(check, cand, sig):
                cur = cand
                progress = True
                break
    return cur


def _worker_history(worker, i: int, n: int) -> t.List[int]:
    """Indices of the cases the worker that ran case ``i`` had executed up to and including it (see _run_slice)."""
    if not worker:
        return []
    widx, nworkers, sample_mod = worker
    out = []
    for j in range(i + 1):
        mine = j % nworkers == widx
        shadow = sample_mod and j % sample_mod == 0 and (j // sample_mod + 1) % nworkers == widx and nworkers > 1
        if mine or shadow:
            out.append(j)
    return out


def _minimise_history(check, tier, seed, i, case, sig, v, hist: t.List[int]) -> t.Optional[str]:
    """ddmin over the prefix of the history (the failing case stays last); every candidate is verified in a fresh interpreter."""
    prefix = hist[:-1]
    best = None
    tries = 0
    chunk = max(1, len(prefix) // 2)
    give_up_at = time.time() + 300  # (wall budget: the unminimised history is a valid replay file already)
    while chunk >= 1 and tries < 24 and prefix and time.time() < give_up_at:
        progressed = False
        k = 0
        while k < len(prefix) and tries < 24 and time.time() < give_up_at:
            cand = prefix[:k] + prefix[k + chunk :]
            tries += 1
            path = _write_replay(check, tier, seed, i, case, sig, v, original=None, suffix="-history-min", history=cand + [i])
            if _verify_replay(check, path):
                prefix = cand
                best = path
                progressed = True
            else:
                k += chunk
        if not progressed:
            chunk //= 2
    if best is not None:  # (the last verified file may have been overwritten by a failed attempt: write the best one again)
        best = _write_replay(check, tier, seed, i, case, sig, v, original=None, suffix="-history-min", history=prefix + [i])
    return best


def _write_replay(check, tier, seed, index, case, sig, v, original=None, suffix="", history=None) -> str:
    os.makedirs(REPLAY_DIR, exist_ok=True)
    h = hashlib.sha256(sig.encode()).hexdigest()[:10]
    path = os.path.join(REPLAY_DIR, f"{check.id}-{h}{suffix}.json")
    doc = {"check": check.id, "tier": tier, "verif_seed": seed, "case_index": index, "repo_head": _repo_head(),
           "signature": sig, "detail": v.get("detail", ""), "case": case}
    if original is not None and original != case:
        doc["unminimised_case"] = original
    if history is not None:
        # indices into check.cases(tier, verif_seed): run in this order in one fresh process (after the check's warm-up), the last one fails
        doc["history"] = list(history)
    with open(path, "w") as f:
        f.write(json.dumps(json.loads(jdump(doc)), indent=1))
    return path


def _verify_replay(check: Check, path: str) -> bool:
    cmd = [sys.executable, os.path.join(VERIF, "checks", "main.py"), check.id, "--replay", path]
    env = dict(os.environ, PYTHONHASHSEED="0", PYTHONPATH=VERIF)
    p = subprocess.run(cmd, capture_output=True, text=True, env=env, timeout=600)
    return p.returncode == 1 and "REPLAY-REPRODUCED" in p.stdout


def _replay(check: Check, path: str) -> int:
    with open(path) as f:
        doc = json.load(f)
    _limit_memory()
    case = doc["case"]
    if doc.get("history"):
        global _CHECK, _CASES
        check.setup(doc.get("tier", "quick"), doc.get("verif_seed", 0))
        cases = check.cases(doc.get("tier", "quick"), doc.get("verif_seed", 0))
        _CHECK, _CASES = check, cases
        check.warmup(cases)
        res = {}
        for j in doc["history"]:
            try:
                res = check.run_case(cases[j])
            except Exception:  # noqa: BLE001 - an earlier case of the history may fail in the harness; only the last one is judged
                res = {}
    else:
        res = check.run_case(case)
    v = res.get("viol")
    if v and v["sig"] == doc.get("signature"):
        print(f"REPLAY-REPRODUCED {v['sig']}")
        print(f"VIOLATION property={check.id} replay={path}")
        print(f"  detail: {v.get('detail', '')[:1000]}")
        return 1
    if v:
        print(f"replay gave a different violation: {v['sig']} (file says {doc.get('signature')})")
        print(f"DETAIL: {v.get('detail', '')[:600]}")
        print(f"VIOLATION property={check.id} replay={path}")
        return 1
    print("replay: no violation (property holds on this case with the current tree)")
    return 0


def run_case_fresh(check_id: str, inner_case, env: t.Optional[dict] = None, timeout: int = 300, py_args: t.Sequence[str] = (), pristine: bool = True) -> t.Optional[dict]:
    """Run ``inner_case`` of check ``check_id`` in a NEW interpreter (nothing of the library has run there yet: process-global
    first-use state is pristine) through the ordinary replay path; -> the violation it reports, or None.  Deterministic: the
    child gets PYTHONHASHSEED=0 and the case decides everything else."""
    import re
    import subprocess
    import tempfile

    fd, path = tempfile.mkstemp(prefix=f"verif-{check_id.lower()}-fresh-", suffix=".json")
    try:
        with os.fdopen(fd, "w") as f:
            json.dump({"check": check_id, "signature": "?", "case": inner_case}, f)
        e = dict(os.environ, PYTHONHASHSEED="0", PYTHONPATH=VERIF)
        e.pop("VERIF_PRISTINE", None)
        if pristine:  # (no set-up before the case: nothing of the library has run yet; cases that need the check's set-up pass False)
            e["VERIF_PRISTINE"] = "1"
        e.update(env or {})
        p = subprocess.run([sys.executable, *py_args, os.path.join(VERIF, "checks", "main.py"), check_id, "--replay", path], capture_output=True, text=True, env=e, timeout=timeout)
    finally:
        os.unlink(path)
    m = re.search(r"replay gave a different violation: (\S+)", p.stdout)
    if p.returncode == 1 and m:
        d = re.search(r"DETAIL: (.*)", p.stdout)
        return {"sig": m.group(1), "detail": (d.group(1) if d else p.stdout.strip().splitlines()[-1])[:600]}
    if p.returncode != 0:
        raise HarnessError(f"fresh-process sub-run failed (exit {p.returncode}): {p.stdout[-300:]} {p.stderr[-600:]}")
    return None


# ---------------------------------------------------------------- budgets ----
class KdfBudget:
    """Counts calls to dpapi_ng's KDF; raises BudgetExceeded past ``limit``."""

    def __init__(self, limit: int = 300):
        self.limit = limit
        self.count = 0
        self._saved = []

    def __enter__(self):
        import dpapi_ng._client as dclient  # noqa: F401
        import dpapi_ng._crypto as dcrypto
        import dpapi_ng._gkdi as dgkdi

        real = dcrypto.kdf
        me = self

        def counted(*a, **kw):
            me.count += 1
            if me.count > me.limit:
                raise BudgetExceeded(f"more than {me.limit} KDF invocations in one API call")
            return real(*a, **kw)

        for mod in (dcrypto, dgkdi):
            if getattr(mod, "kdf", None) is real:
                self._saved.append((mod, real))
                setattr(mod, "kdf", counted)
        return self

    def __exit__(self, *a):
        for mod, real in self._saved:
            setattr(mod, "kdf", real)
        self._saved.clear()
        return False


def _vm_kb() -> t.Tuple[int, int]:
    peak = size = 0
    with open("/proc/self/status") as f:
        for line in f:
            if line.startswith("VmPeak:"):
                peak = int(line.split()[1])
            elif line.startswith("VmSize:"):
                size = int(line.split()[1])
                break
    return peak, size


class VmWatch:
    """Address-space growth of this process during a call, from the kernel's high-water mark (VmPeak).

    ``growth`` = bytes by which the call pushed the process's address space above where it stood at entry (0 when the
    high-water mark did not move); ``blind`` = head-room below an older high-water mark in which growth cannot be seen.
    (tracemalloc is not used: under CPython 3.12.1 its frame lookup segfaults now and then - PyCode_Addr2Line - which
    would turn a run on a correct tree into a harness error.)
    """

    def __enter__(self):
        self.enabled = os.environ.get("MALLOC_ARENA_MAX") == "1"
        self.peak0, self.size0 = _vm_kb()
        self.growth = 0
        self.blind = (self.peak0 - self.size0) * 1024
        return self

    def __exit__(self, *a):
        peak1, _size1 = _vm_kb()
        self.growth = (peak1 - self.size0) * 1024 if (peak1 > self.peak0 and self.enabled) else 0
        return False


class CpuBudget:
    """CPU time of this process spent inside the block (ITIMER_VIRTUAL): the backstop for work that happens outside the
    interpreter's line events - a regular expression that backtracks, a big-number operation - where neither the line nor
    the KDF counter moves.  Raises BudgetExceeded from the signal handler (C loops that poll for signals, like the regex
    engine, are interrupted; anything else ends at the per-case timeout as a harness error).  The limit is seconds of CPU,
    three orders of magnitude above a normal call, so the verdict does not depend on machine load."""

    def __init__(self, seconds: float):
        self.seconds = seconds
        self.fired = False

    def __enter__(self):
        import signal
        import threading

        self._active = threading.current_thread() is threading.main_thread()
        if self._active:
            def on_alarm(signum, frame):
                self.fired = True
                raise BudgetExceeded(f"more than {self.seconds} s of CPU time in one call")

            self._old = signal.signal(signal.SIGVTALRM, on_alarm)
            signal.setitimer(signal.ITIMER_VIRTUAL, self.seconds)
        return self

    def __exit__(self, *a):
        if self._active:
            import signal

            signal.setitimer(signal.ITIMER_VIRTUAL, 0)
            signal.signal(signal.SIGVTALRM, self._old)
        return False


class LineBudget:
    """Counts interpreter line events inside dpapi_ng frames only."""

    def __init__(self, limit: int):
        self.limit = limit
        self.count = 0

    def _local(self, frame, event, arg):
        if event == "line":
            self.count += 1
            if self.count > self.limit:
                sys.settrace(None)
                raise BudgetExceeded(f"more than {self.limit} line events inside dpapi_ng")
        return self._local

    def _global(self, frame, event, arg):
        if "/dpapi_ng/" in frame.f_code.co_filename:
            return self._local
        return None

    def __enter__(self):
        self._old = sys.gettrace()
        sys.settrace(self._global)
        return self

    def __exit__(self, *a):
        sys.settrace(self._old)
        return False
