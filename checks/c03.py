"""C03 - KEK derivation agrees on both sides and with an independent implementation.

Simulated ingredients: the entropy source in scripted mode (the protector's
ephemeral private key / nonce is a chosen draw that makes the ephemeral public
value, a coordinate or the shared secret start with zero bytes) and the second
party: the protector only receives the group public key from the reference DC,
the reference computes the KEK from the L2 seed and the blob's key identifier
and unwraps the CEK, and the library decrypts as the authorised principal.
"""
from __future__ import annotations

import json
import os
import random
import typing as t

from checks import common, drive, offline, plan as P
from ref import cms, dtyp, ec, gkdi
from simworld import prng

TABLE = json.load(open(os.path.join(common.VERIF, "tables", "leading_zero_ephemerals.json")))
POS = tuple(TABLE["position"])
SID = TABLE["sid"]
SID2 = "S-1-5-21-11-22-33-513"
FT = gkdi.interval_start_filetime(*POS) + 77


def _is_prime(n: int) -> bool:
    if n < 2:
        return False
    for p in (2, 3, 5, 7, 11, 13, 17, 19, 23, 29, 31, 37):
        if n % p == 0:
            return n == p
    d, s = n - 1, 0
    while d % 2 == 0:
        d //= 2
        s += 1
    for a in (2, 3, 5, 7, 11, 13, 17, 19, 23, 29, 31, 37):
        x = pow(a, d, n)
        if x in (1, n - 1):
            continue
        for _ in range(s - 1):
            x = x * x % n
            if x == n - 1:
                break
        else:
            return False
    return True


def small_group(kl: int, salt: int) -> t.List[int]:
    rng = random.Random(kl * 1000 + salt)
    while True:
        if salt % 2:
            # a prime just above 256^(kl-1): almost every group element then has a leading zero byte at width kl
            p = (1 << (8 * (kl - 1))) + rng.getrandbits(8 * (kl - 1) - 2 if kl > 1 else 2) // (1 << rng.randrange(0, 8 * (kl - 1))) | 1
        else:
            p = rng.getrandbits(kl * 8) | (1 << (kl * 8 - 1)) | 1
        if p > 11 and _is_prime(p):
            return [kl, p, rng.choice((2, 3, 5, 7))]


def base_plan(rkspec, seed: int, mode: str, fl_p: str, fl_u: str, script=None) -> dict:
    ops = []
    if mode == "pub":
        ops.append({"op": "identity", "sids": []})
        ops.append({"op": "protect", "fl": fl_p, "sid": SID, "rk": None, "net": "online", "data": 19, "cache": "fresh"})
    else:
        ops.append({"op": "identity", "sids": [SID]})
        ops.append({"op": "protect", "fl": fl_p, "sid": SID, "rk": None, "net": "online", "data": 19, "cache": "fresh"})
    if mode == "pub" and seed % 3 == 0 and not script:
        # a second SID protected at the same key position in the same process (decrypt side then runs twice for one position)
        ops.append({"op": "protect", "fl": fl_p, "sid": SID2, "rk": None, "net": "online", "data": 19, "cache": "fresh"})
        ops.append({"op": "identity", "sids": [SID, SID2]})
        ops.append({"op": "unprotect", "fl": fl_u, "net": "online", "blob": {"from_op": 1}, "cache": "fresh"})
        ops.append({"op": "unprotect", "fl": fl_u, "net": "online", "blob": {"from_op": 2}, "cache": "fresh"})
    else:
        ops.append({"op": "identity", "sids": [SID]})
        ops.append({"op": "unprotect", "fl": fl_u, "net": "online", "blob": {"from_op": 1}, "cache": "fresh"})
    return {"seed": seed, "clock_ft": FT, "root_keys": [rkspec], "caller_sids": [], "ctx": {"kind": "stub", "legs": 2, "sig": 16},
            "ops": ops, "entropy_script": script or [], "mode": mode}


def thread_plan(rkspec, seed: int, mode: str, k: int) -> dict:
    """Two or three principals protect at the same time from caller threads of one process (different SIDs, hence different group
    keys), then the blobs are unprotected, again from threads; simworld.threads decides every pre-emption."""
    from checks import threadpure

    # (the same SID twice: two threads work with the same group key right after the process dealt with another one)
    r = __import__("random").Random(seed)  # (pattern, mode and pre-emption policy are drawn independently of each other)
    sids = r.choice(([SID, SID, SID2], [SID, SID2], [SID, SID2, offline.sid_shape(3, k)], [SID, SID], [SID, SID]))
    ops = [{"op": "identity", "sids": [] if mode == "pub" else list(sids) + [SID2]},
           {"op": "protect", "fl": "sync", "sid": SID2, "rk": None, "net": "online", "data": 5, "cache": "fresh"}]  # an earlier derivation in this process
    for sid in sids:
        ops.append({"op": "protect", "fl": "thread", "group": 1, "sid": sid, "rk": None, "net": "online", "data": 19, "cache": "fresh"})
    ops.append({"op": "identity", "sids": list(sids) + [SID2]})
    ops.append({"op": "unprotect", "fl": "sync", "net": "online", "blob": {"from_op": 1}, "cache": "fresh"})
    for j in range(len(sids)):
        ops.append({"op": "unprotect", "fl": "thread", "group": 2, "net": "online", "blob": {"from_op": 2 + j}, "cache": "fresh"})
    return {"seed": seed, "clock_ft": FT, "root_keys": [rkspec], "caller_sids": [], "ctx": {"kind": "stub", "legs": 2, "sig": 16},
            "ops": ops, "entropy_script": [], "mode": mode, "threads": ({"mode": "prob", "p": r.choice((0.1, 0.3, 0.5))} if r.random() < 0.5 else threadpure.policy_for(r.randrange(48))), "family": "threads"}


def same_prime_plan(seed: int, k: int, fl_p: str, fl_u: str) -> dict:
    """Two root keys whose DH groups share the prime but differ in key_length padding and / or generator, used one after the other
    in one process (a group cached by its prime alone would serve the wrong key_length or generator)."""
    kl = (2, 3, 4, 8)[k % 4]
    g0 = small_group(kl, k % 40)
    g1 = [g0[0] + (0, 2, 4)[k % 3], g0[1], g0[2] if k % 3 else (3 if g0[2] != 3 else 5)]
    h = offline.HASHES[k % 4]
    rks = [[56, h, "DH", {"dh": g0, "priv_len": kl * 8}], [57, h, "DH", {"dh": g1, "priv_len": kl * 8}]]
    if k % 2:
        rks.reverse()
    ops = [{"op": "identity", "sids": []},
           {"op": "protect", "fl": fl_p, "sid": SID, "rk": 0, "net": "online", "data": 19, "cache": "fresh"},
           {"op": "protect", "fl": fl_p, "sid": SID, "rk": 1, "net": "online", "data": 19, "cache": "fresh"},
           {"op": "identity", "sids": [SID]},
           {"op": "unprotect", "fl": fl_u, "net": "online", "blob": {"from_op": 1}, "cache": "fresh"},
           {"op": "unprotect", "fl": fl_u, "net": "online", "blob": {"from_op": 2}, "cache": "fresh"}]
    return {"seed": seed, "clock_ft": FT, "root_keys": rks, "caller_sids": [], "ctx": {"kind": "stub", "legs": 2, "sig": 16},
            "ops": ops, "entropy_script": [], "mode": "pub", "family": "same-prime"}


def many_sids_plan(rkspec, seed: int, k: int, fl_p: str, fl_u: str) -> dict:
    """A dozen principals' secrets are protected and then unprotected in one process, all at the same key position of one root key:
    the same group-key id with a dozen different seeds (whatever is remembered per key id, per position or per object must not mix them up)."""
    sids = [SID, SID2] + [offline.sid_shape(2 + j % 5, k + j) for j in range(10)]
    ops = [{"op": "identity", "sids": []}]
    for sid in sids:
        ops.append({"op": "protect", "fl": fl_p, "sid": sid, "rk": None, "net": "online", "data": 19, "cache": "fresh"})
    ops.append({"op": "identity", "sids": list(sids)})
    for j in range(len(sids)):
        ops.append({"op": "unprotect", "fl": fl_u, "net": "online", "blob": {"from_op": 1 + j}, "cache": "fresh"})
    return {"seed": seed, "clock_ft": FT, "root_keys": [rkspec], "caller_sids": [], "ctx": {"kind": "stub", "legs": 2, "sig": 16},
            "ops": ops, "entropy_script": [], "mode": "pub", "family": "many-sids"}


def clock_plan(rkspec, seed: int, k: int) -> dict:
    """Encrypt side served from the key cache (root key loaded) while the wall clock keeps moving and an L2 / L1 / L0 interval boundary
    passes during the call: the KEK must still be the one of the key identifier written into the blob."""
    r = __import__("random").Random(seed)
    l1, l2 = r.choice(((3, 5), (3, 31), (31, 31), (0, 0), (r.randrange(32), r.randrange(32))))
    tick = r.choice((100, 100, 300, 900, 2500))
    boundary = gkdi.interval_start_filetime(POS[0], l1, l2) + gkdi.B
    ft = boundary - r.randrange(1, 14) * (tick // 100) + r.randrange(0, max(1, tick // 100))
    fl = r.choice(("sync", "async"))
    ops = [{"op": "load_key", "rk": 0},
           {"op": "protect", "fl": fl, "sid": SID, "rk": 0, "net": "offline", "data": 19},
           {"op": "protect", "fl": r.choice(("sync", "async")), "sid": SID, "rk": 0, "net": "offline", "data": 7},
           {"op": "unprotect", "fl": r.choice(("sync", "async")), "net": "offline", "blob": {"from_op": 1}},
           {"op": "unprotect", "fl": r.choice(("sync", "async")), "net": "offline", "blob": {"from_op": 2}}]
    return {"seed": seed, "clock_ft": ft, "clock_tick_ns": tick, "root_keys": [rkspec], "caller_sids": [SID], "ctx": {"kind": "stub", "legs": 2, "sig": 16},
            "ops": ops, "entropy_script": [], "mode": "nonce", "family": "moving-clock", "clock_boundary": boundary}


def _kek_job(job):
    """Decrypt-side KEK for a reference-made public-key (or nonce) key identifier through the library's own functions."""
    import hashlib

    from dpapi_ng._blob import KeyIdentifier

    what, k = job
    hash_name = offline.HASHES[k % 4]
    secret = ("DH", "ECDH_P256", "ECDH_P384")[k % 3] if what == "pub" else "DH"
    rk = offline.synth_root_key(40 + k % 3, hash_name, secret)
    sd = dtyp.target_sd(SID if k % 2 else SID2)
    l0, l1, l2 = 350 + k % 100, (k // 5) % 32, (k // 11) % 32
    cache = offline.new_cache(rk)
    env = cache._get_key(sd, rk.root_key_id, l0, l1, l2)
    h = hashlib.sha512(b"kekjob%d" % k).digest()
    if what == "pub":
        n = (rk.private_key_length + 7) // 8
        seedb = (h * 2)[:n]
        if secret != "DH":
            c = gkdi.curve_of(secret)
            seedb = ((int.from_bytes(seedb, "big") % (c.n - 1)) + 1).to_bytes(n, "big")
        l2_seed = cms.chain_for(rk, sd, l0).l2_seed(l1, l2)
        pub = gkdi.group_public_key(hash_name, l2_seed, secret, rk.eff_secret_params, rk.private_key_length)
        _kek, key_info = gkdi.kek_encrypt_side(hash_name, secret, pub, seedb)
        flags = 1
    else:
        key_info, flags = h[:32], 0
    kid = KeyIdentifier(version=1, flags=flags, l0=l0, l1=l1, l2=l2, root_key_identifier=rk.root_key_id, key_info=key_info,
                        domain_name="domain.test", forest_name="domain.test")
    return bytes(env.get_kek(kid))


def run_pure_threads(case) -> dict:
    """{"family": "pure-threads", ...}: 2..3 caller threads derive decrypt-side KEKs at the same time (separate caches)."""
    import random

    from checks import threadpure
    from simworld import world as W

    r = random.Random(case["seed"])
    jobs = []
    for _ in range(case["n"]):
        mine = [(r.choice(("pub", "pub", "nonce")), r.randrange(100000)) for _ in range(2)]
        jobs.append([r.choice(mine) for _ in range(r.randint(2, 4))])
    world = W.World(case["seed"])
    with world.installed():
        out = threadpure.run("C03", "decrypt-side", case, jobs, _kek_job, case["seed"], case["policy"])
    out["probes"] = dict(out.get("probes") or {}, pure_thread_cases=1)
    return out


def lz(b: bytes) -> int:
    return len(b) - len(b.lstrip(b"\x00"))


def judge(plan, tr: P.Trace):
    probes: t.Dict[str, int] = {}
    rk = tr.root_keys[0]
    prots = [ot for ot in tr.ops if ot.op["op"] == "protect"]
    unps = [ot for ot in tr.ops if ot.op["op"] == "unprotect" and not (ot.op["blob"] or {}).get("faults")]
    if any(ot.op["op"] == "unprotect" and (ot.op["blob"] or {}).get("faults") for ot in tr.ops):
        probes["after_a_record_that_does_not_unwrap"] = 1
    if plan.get("family") == "many-sids":
        probes["many_sids_one_position"] = 1
    if len(prots) > 1 and plan.get("family") not in ("threads", "same-prime", "many-sids", "moving-clock"):
        probes["two_sids_same_position"] = 1
    if plan.get("family") == "threads":
        probes["thread_plans"] = 1
        probes["thread_overlap"] = tr.world.stats.get("toverlap", 0)
    if any(e["hex"][:6] in (b"DHP".hex(), b"ECK".hex()) for e in plan["entropy_script"]):
        probes["nonce_with_structure_magic"] = 1
    if plan.get("family") == "same-prime":
        probes["two_groups_same_prime"] = 1
    if plan.get("ecdh_padded"):
        probes["ecdh_key_blob_padded"] = 1
    if plan.get("family") == "moving-clock":
        probes["moving_clock_plans"] = 1
        for prot in prots:
            if prot.outcome.kind == "ok":
                kid = cms.parse_blob(prot.outcome.value)["key_identifier"]
                if gkdi.interval_start_filetime(kid["l0"], kid["l1"], kid["l2"]) >= plan["clock_boundary"]:
                    probes["boundary_passed_before_key_id"] = 1
                    break
    for prot, unp in zip(prots, unps):
        if plan.get("family") == "same-prime":
            rk = tr.root_keys[prot.op["rk"]]
        v = _judge_pair(plan, tr, rk, prot, unp, probes)
        if v:
            return v, probes
    return None, probes


def _judge_pair(plan, tr, rk, prot, unp, probes):
    sid = prot.op["sid"]
    what = f"{rk.hash_name}/{rk.secret_alg}/{plan['mode']}"
    if tr.dc.all_violations:
        return common.violation("C03", "dc-rejected", "", "", "", "", str(tr.dc.all_violations[:2]))
    if plan["mode"] == "pub" and rk.secret_alg == "DH" and prot.outcome.kind == "raise" and isinstance(prot.outcome.exc, ValueError):
        # toy groups (2..8-byte primes) now and then give a GROUP public value of 0, 1 or p-1; a library that refuses such a
        # value (it makes the shared secret predictable) is right, and no real group produces one: outside the claim
        cur = gkdi.interval_of_filetime(plan["clock_ft"])
        gp = gkdi.group_public_key(rk.hash_name, cms.chain_for(rk, dtyp.target_sd(sid), cur[0]).l2_seed(cur[1], cur[2]), rk.secret_alg, rk.eff_secret_params, rk.private_key_length)
        _kl, p_, _g, y_ = gkdi.unpack_dh_key(gp)
        if y_ in (0, 1, p_ - 1):
            probes["degenerate_toy_group_value"] = 1
            return None
    if prot.outcome.kind != "ok":
        et, frame = drive.exc_sig(prot.outcome)
        return common.violation("C03", "encrypt-side", prot.op["fl"], et, frame, plan["mode"], f"protect failed for {what}: {prot.outcome.exc!r}")
    if plan["entropy_script"] and not getattr(tr.world.entropy, "scripted_used", 0):
        probes["script_not_consumed"] = 1
    p = cms.parse_blob(prot.outcome.value)
    kid = p["key_identifier"]
    if bool(kid["flags"] & 1) != (plan["mode"] == "pub"):
        raise common.HarnessError(f"plan expected {plan['mode']} mode, blob flags {kid['flags']}")
    ki = kid["key_info"]
    # measure the leading-zero condition with the reference arithmetic
    if plan["mode"] == "pub":
        chain = cms.chain_for(rk, dtyp.target_sd(sid), kid["l0"])
        l2 = chain.l2_seed(kid["l1"], kid["l2"])
        priv = int.from_bytes(gkdi.group_private_key(rk.hash_name, l2, rk.secret_alg, rk.private_key_length), "big")
        try:
            z, _h = gkdi.shared_secret(rk.secret_alg, priv, ki)
        except Exception as e:  # noqa: BLE001
            return common.violation("C03", "encrypt-side", prot.op["fl"], "bad-ephemeral-public", "", rk.secret_alg, f"reference cannot use the ephemeral public key in the blob: {e!r}")
        if lz(z):
            probes["lz_shared_secret"] = 1
        if rk.secret_alg == "DH":
            kl, p_, _g, y = gkdi.unpack_dh_key(ki)
            if y in (0, 1, p_ - 1):
                # the library's own ephemeral public value came out degenerate in a toy group (see above): outside the claim
                probes["degenerate_toy_group_value"] = 1
                return None
            if y >> (8 * (kl - 1)) == 0:
                probes["lz_public_value"] = 1
            if kl > (p_.bit_length() + 7) // 8:
                probes["key_length_wider_than_modulus"] = 1
            if kl != gkdi.unpack_dh_params(rk.eff_secret_params)[0]:
                probes["key_blob_wider_than_group_params"] = 1
        else:
            _c, kl, x, y = gkdi.unpack_ecdh_key(ki)
            if x >> (8 * (kl - 1)) == 0:
                probes["lz_coord_x"] = 1
            if y >> (8 * (kl - 1)) == 0:
                probes["lz_coord_y"] = 1
    else:
        if lz(ki):
            probes["lz_nonce"] = 1
    cond = "+".join(sorted(k for k in probes if k.startswith("lz_"))) or "no-leading-zero"
    # independent implementation: KEK from the L2 seed and the key identifier, unwrap the CEK
    try:
        pt, cek, kek = cms.unprotect_parsed(p, rk)
    except Exception as e:  # noqa: BLE001
        return common.violation("C03", "independent-kek", prot.op["fl"], type(e).__name__, "", f"{rk.secret_alg}/{cond}",
                                f"{what}: the KEK computed by the independent implementation does not unwrap the CEK the library wrapped ({e!r}); key_info={ki.hex()[:40]}...")
    if pt != prot.plaintext:
        return common.violation("C03", "independent-kek", prot.op["fl"], "plaintext", "", cond, f"{what}: reference decrypts to other bytes")
    if unp.outcome.kind != "ok" or unp.outcome.value != prot.plaintext:
        et, frame = drive.exc_sig(unp.outcome)
        return common.violation("C03", "decrypt-side", unp.op["fl"], et if unp.outcome.kind != "ok" else "plaintext", frame, f"{rk.secret_alg}/{cond}",
                                f"{what}: library decrypt side disagrees with its own encrypt side: {unp.outcome.exc!r}")
    probes["agree_" + rk.secret_alg + "_" + plan["mode"]] = 1
    return None


class C03(common.Check):
    id = "C03"
    level = "exploration"
    rule = ("case = plan [protect as a principal who only receives the group public key (or seed keys for nonce mode) from the reference DC, "
            "with the ephemeral private key / nonce a scripted entropy draw; reference unwraps the CEK with an independently computed KEK; "
            "library unprotects as the authorised principal]. 4 hashes x {nonce, DH RFC 5114, P256, P384} with a committed table of draws that "
            "give a leading-zero ephemeral public value / X / Y coordinate / shared secret; small DH groups (2..8-byte primes, private key "
            "lengths that are not multiples of 8) where leading zeros are frequent; scripted all-zero / leading-zero nonces and nonces that begin with the magic of a public-key structure; PRNG draws; "
            "a dozen principals protected and unprotected at one key position in one process; two root keys whose DH groups share the prime but differ in key_length padding / generator used one after the other in one process; "
            "plans in which 2..3 principals protect (and later unprotect) at the same time from caller threads of one process, pre-empted at "
            "PRNG-chosen line events inside dpapi_ng; 2..3 threads deriving decrypt-side KEKs for reference-made key identifiers at the same time. "
            "Non-trivial = a leading-zero condition held (measured with the reference arithmetic); distinct = distinct plan.")
    components = {"client": "real (new_kek / get_kek / compute_kek / compute_public_key through the public API)", "entropy": "simulated, scripted draws",
                  "DC": "model (RefDC, public-key and seed replies)", "independent implementation": "ref.gkdi + ref.ec (own P-256/P-384 arithmetic, pow() DH, hashlib KDFs)"}
    assumptions = ["reference calibrated on the 16 Windows blobs (gate before every run)", "hash x algorithm sweep is workload parameterisation"]
    required_fired = ("two_sids_same_position", "key_length_wider_than_modulus", "lz_shared_secret", "lz_public_value", "lz_coord_x", "lz_coord_y", "lz_nonce", "agree_DH_pub", "agree_ECDH_P256_pub", "agree_ECDH_P384_pub", "agree_DH_nonce", "thread_plans", "thread_overlap", "nonce_with_structure_magic", "two_groups_same_prime", "many_sids_one_position", "pure_thread_cases", "moving_clock_plans", "boundary_passed_before_key_id", "key_blob_wider_than_group_params", "ecdh_key_blob_padded", "after_a_record_that_does_not_unwrap")

    def cases(self, tier, seed):
        rng = prng.stream(seed, "C03")
        out = []
        for e in TABLE["entries"]:
            for fl_p, fl_u in (("sync", "async"), ("async", "sync")):
                out.append(base_plan(e["root_key"], len(out), "pub", fl_p, fl_u, [{"source": "urandom", "n": e["n"], "hex": e["hex"]}]))
        for h in offline.HASHES:
            for nonce in (b"\x00" * 32, b"\x00" + b"\x11" * 31, b"\x00\x00" + b"\x7f" * 30, b"\xff" * 32, b"\x00" * 31 + b"\x01"):
                out.append(base_plan([51, h, "DH"], len(out), "nonce", rng.choice(("sync", "async")), rng.choice(("sync", "async")),
                                     [{"source": "urandom", "n": 32, "hex": nonce.hex()}]))
            # nonces that happen to begin like a public-key structure (the flag, not the content, says what key_info holds)
            for magic in (b"DHPB", b"ECK1", b"ECK3", b"ECK5", b"ECK\x00", b"KDSK"):
                for tail in (b"\x00\x01\x00\x00" + b"\x22" * 24, b"\x20\x00\x00\x00" + b"\x33" * 24, bytes(range(28))):
                    out.append(base_plan([51, h, "DH"], len(out), "nonce", rng.choice(("sync", "async")), rng.choice(("sync", "async")),
                                         [{"source": "urandom", "n": 32, "hex": (magic + tail).hex()}]))
        for k in range(240 if tier == "quick" else 12000):
            kl = (2, 3, 4, 8)[k % 4]
            spec = [54 + k % 3, offline.HASHES[k % 4], "DH", {"dh": small_group(kl, k % 40), "priv_len": kl * 8}] if k % 5 else [55, offline.HASHES[k % 4], offline.SECRETS[k % 3]]
            out.append(thread_plan(spec, rng.getrandbits(31), "pub" if rng.random() < 0.8 else "nonce", k))
        from checks import threadpure

        for k in range(240 if tier == "quick" else 10000):
            pol = {"mode": "prob", "p": (0.003, 0.01, 0.03)[k % 3]} if k % 5 < 2 else threadpure.policy_for(k, seams=False)
            out.append({"family": "pure-threads", "seed": rng.getrandbits(30), "n": 2 + k % 2, "policy": pol, "ops": [], "entropy_script": [], "root_keys": [[0, "SHA256", "DH"]], "mode": "pub"})
        for k in range(24 if tier == "quick" else 1000):
            kl = (2, 3, 4, 8)[k % 4]
            spec = [58, offline.HASHES[k % 4], "DH", {"dh": small_group(kl, k % 40), "priv_len": kl * 8}] if k % 3 else [59, offline.HASHES[k % 4], offline.SECRETS[k % 3]]
            out.append(many_sids_plan(spec, rng.getrandbits(31), k, rng.choice(("sync", "async")), rng.choice(("sync", "async"))))
        for k in range(120 if tier == "quick" else 6000):
            out.append(same_prime_plan(rng.getrandbits(31), k, rng.choice(("sync", "async")), rng.choice(("sync", "async"))))
        n_small = 1500 if tier == "quick" else 60000
        for i in range(n_small):
            kl = rng.choice((2, 2, 3, 3, 4, 5, 8))
            grp = small_group(kl, i % 40)
            if i % 3 == 0:
                grp = [grp[0] + rng.choice((1, 2, 5)), grp[1], grp[2]]  # key_length padded wider than the modulus (fixed-width fields keep leading zeros)
            priv_len = rng.choice((kl * 8, kl * 8 - 3, kl * 8 - 1, max(8, kl * 8 - 8), 9, 12, kl * 8 + 16, 512))  # also wider than the modulus
            spec = [52 + i % 3, offline.HASHES[i % 4], "DH", {"dh": grp, "priv_len": priv_len}]
            out.append(base_plan(spec, rng.getrandbits(31), "pub", rng.choice(("sync", "async")), rng.choice(("sync", "async"))))
            if i % 5 == 2:
                # earlier in the same process: a public-key record of this key whose wrapped CEK does not unwrap (a damaged record);
                # whatever that failure leaves behind, the derivations that follow are the same derivations
                pl_ = out[-1]
                pl_["ops"] = [{"op": "identity", "sids": [SID]},
                              {"op": "unprotect", "fl": rng.choice(("sync", "async")), "net": "online", "cache": "fresh",
                               "blob": {"rk": 0, "sid": SID, "pos": list(POS), "mode": "pub", "data": 5, "faults": [["field", "enc_cek", "00" * 40]]}}] + \
                    [dict(o, blob=dict(o["blob"], from_op=o["blob"]["from_op"] + 2)) if o["op"] == "unprotect" else o for o in pl_["ops"]]
            if i % 6 == 1:
                # the DC hands out the group public key in a blob padded wider than the group's own parameter blob
                out[-1]["dc"] = {"byz": {"dh_pub_key_length": grp[0] + rng.choice((1, 2, 4, 5))}}
        n_rand = 200 if tier == "quick" else 6000
        for i in range(n_rand):
            spec = [53, offline.HASHES[i % 4], offline.SECRETS[(i // 4) % 3]]
            out.append(base_plan(spec, rng.getrandbits(31), rng.choice(("pub", "pub", "nonce")), rng.choice(("sync", "async")), rng.choice(("sync", "async"))))
            if spec[2] == "DH" and out[-1]["mode"] == "pub" and i % 2:
                out[-1]["dc"] = {"byz": {"dh_pub_key_length": 256 + rng.choice((1, 4, 8, 256))}}
            elif spec[2] != "DH" and out[-1]["mode"] == "pub" and i % 2:
                # ... and elliptic-curve group public keys whose coordinates are padded wider than the curve needs
                out[-1]["dc"] = {"byz": {"ecdh_pub_pad": rng.choice((1, 4, 8, 16))}}
                out[-1]["ecdh_padded"] = True
        for k in range(400 if tier == "quick" else 20000):
            out.append(clock_plan([60, offline.HASHES[k % 4], offline.SECRETS[(k // 4) % 3]], rng.getrandbits(31), k))
        return out

    def run_case(self, case):
        if case.get("family") == "pure-threads":
            return run_pure_threads(case)
        tr = P.execute_plan(case)
        viol, probes = judge(case, tr)
        nontrivial = any(k.startswith("lz_") for k in probes)
        n_unp = sum(1 for o in case["ops"] if o["op"] == "unprotect")
        return {"viol": viol, "digest": tr.world.digest(), "key": common.key_hash(case) if nontrivial else None,
                "replay_pref": n_unp >= 2,  # (several key derivations inside one case: histories that do not depend on earlier cases)
                "fired": {"ent_scripted": getattr(tr.world.entropy, "scripted_used", 0), "ent_draws": tr.world.entropy.counter},
                "probes": probes, "vtime_ns": tr.world.stats.get("vtime_ns", 0)}

    def shrink(self, case):
        if case.get("family") == "pure-threads":
            pol = case["policy"]
            if pol.get("mode") != "script":
                sc = run_pure_threads(case).get("_script")
                if sc:
                    yield dict(case, policy=sc)
            else:
                sw = pol["switches"]
                for k in range(min(len(sw), 40)):
                    yield dict(case, policy=dict(pol, switches=sw[:k] + sw[k + 1 :]))
            return
        yield from P.thread_shrinks(case)
        for i, o in enumerate(case["ops"]):
            if o.get("fl") == "async":
                yield dict(case, ops=case["ops"][:i] + [dict(o, fl="sync")] + case["ops"][i + 1 :])

    def sample_repr(self, case, res):
        if case.get("family") == "pure-threads":
            return {k: case[k] for k in ("family", "seed", "n", "policy")}
        rk = case["root_keys"][0]
        return {"root_key": rk[:3] + ([{"dh_key_length": rk[3]["dh"][0], "p": hex(rk[3]["dh"][1]), "priv_len": rk[3]["priv_len"]}] if len(rk) > 3 else []),
                "mode": case["mode"], "scripted_draws": [(e["source"], e["n"], e["hex"][:16] + "...") for e in case["entropy_script"]]}


CHECK = C03()
