"""C11 - MS-GKDI structures and GetKey stubs have exactly the specified byte layout.

Three parties exchange the structures for real: the client (library encoders of
GetKey and KeyIdentifier, decoders of the reply / envelope / parameters / keys),
the reference DC (independent encoder and decoder) and LibDC (library's
GetKey.unpack, GroupKeyEnvelope.pack ... in the server role).  Every plan runs
against both servers; what each party decoded and encoded is compared.
"""
from __future__ import annotations

import typing as t

from checks import common, drive, offline, plan as P, wiremon
from ref import cms, dtyp, gkdi, rpce
from simworld import prng

B = gkdi.B
NAMES = ["", "a", "ab", "abc", "domain.test", "x" * 39, "x" * 40, "bücher.example", "\U0001F600\U0001F601.test", "ドメイン.test", "a.b"]


def gen_plan(rng, i: int, tier: str) -> dict:
    from checks import c03

    hash_name = offline.HASHES[i % 4]
    kind = i % 5
    if kind == 0:
        rk = [60, hash_name, "DH", {"dh": c03.small_group(2 + i % 9, i % 40), "priv_len": 9 + i % 23}]
    elif kind == 1:
        rk = [61, hash_name, "ECDH_P256"]
    elif kind == 2:
        rk = [62, hash_name, "ECDH_P384"]
    else:
        rk = [63, hash_name, "DH"]
    if i % 11 == 0:
        rk = rk[:3] + [dict(rk[3] if len(rk) > 3 else {}, rkid_int=0)]  # a root key whose id is the all-zero GUID (a present pointer to zeros, not a null pointer)
    p521 = i % 13 == 5
    if p521:
        rk = [64, hash_name, "ECDH_P521"]  # only the codecs are exercised for P-521 (public-key replies decoded, then 'not authorised')
    nsub = 1 + i % 15
    sid_m = offline.sid_shape(nsub, i)
    sid_o = offline.sid_shape(1 + (i // 3) % 15, i + 1) + ("-9" if (1 + (i // 3) % 15) < 15 else "")
    if sid_o == sid_m or sid_o.count("-") > 17:
        sid_o = "S-1-5-32-545"
    l0 = rng.randrange(340, 470)
    now = l0 * 1024 * B + rng.randrange(1024 * B)
    cur = gkdi.interval_of_filetime(now)
    plan = {"seed": rng.getrandbits(31), "clock_ft": now, "root_keys": [rk], "caller_sids": [sid_m], "ctx": {"kind": "stub", "legs": 2, "sig": 16},
            "dc": {"omit_l2_at_31": rng.random() < 0.5, "domain": NAMES[i % len(NAMES)], "forest": NAMES[(i // len(NAMES)) % len(NAMES)],
                   "pad_mode": rng.choice(("min16", "min4"))},
            "delivery": None, "ops": []}
    if i % 3 == 1:
        # an encoder that leaves something other than zeros in NDR alignment gaps (their content is undefined)
        plan["dc"]["byz"] = {"ndr_gap_fill": (0xA5, 0xFF, 0x01)[(i // 3) % 3]}
        plan["ndr_gap_fill"] = True
    if p521:
        for _ in range(rng.randint(1, 2)):
            plan["ops"].append({"op": "unprotect", "fl": rng.choice(("sync", "async")), "net": "online", "cache": "fresh",
                                "blob": {"rk": 0, "sid": sid_o, "pos": list(cur), "mode": "nonce", "data": 5, "domain": "q.test", "forest": "q.test"}})
        plan["p521"] = True
        return plan
    if i % 4 == 3:
        # field values 0 and 2^32-1 (and empty / odd-length byte fields) in the envelope that crosses the wire
        M = 0xFFFFFFFF
        ov = {}
        for k, vals in (("version", (0, M, 2)), ("l0", (0, M, 0x80000000)), ("l1", (0, M, 0x80000000, 31)), ("l2", (0, M, 0x7FFFFFFF, 31)),
                        ("private_key_length", (0, M)), ("public_key_length", (0, M)), ("flags", (0, 2, M - 1, 4))):
            if rng.random() < 0.45:
                ov[k] = rng.choice(vals)
        for k in ("l1_key", "l2_key", "secret_params", "kdf_params"):
            if rng.random() < 0.25:
                ov[k] = bytes(rng.randrange(256) for _ in range(rng.choice((0, 1, 3, 63, 65))))
        plan["dc"]["byz"] = dict(plan["dc"].get("byz") or {}, envelope_override=ov)
        plan["override"] = True
        # only the codecs are under study here: the operations are unprotects of nonce-mode blobs by a member, so that the odd
        # envelope is decoded (and then rejected by key derivation) without the library acting on absurd key lengths
        for _ in range(rng.randint(1, 2)):
            plan["ops"].append({"op": "unprotect", "fl": rng.choice(("sync", "async")), "net": "online", "cache": "fresh",
                                "blob": {"rk": 0, "sid": sid_m, "pos": [cur[0], rng.randrange(32), rng.randrange(32)] if rng.random() < 0.5 else list(cur),
                                         "mode": "nonce", "data": 5, "domain": "q.test", "forest": "q.test"}})
        return plan
    for _ in range(rng.randint(1, 3)):
        r = rng.random()
        if r < 0.5:
            plan["ops"].append({"op": "protect", "fl": rng.choice(("sync", "async")), "sid": sid_m if rng.random() < 0.5 else sid_o,
                                "rk": rng.choice((None, 0)), "net": "online", "data": 7, "cache": "fresh"})
        else:
            pos = [cur[0] - rng.choice((0, 0, 1)), rng.choice((0, 31, rng.randrange(32))), rng.choice((0, 31, rng.randrange(32)))]
            if tuple(pos) > cur:
                pos = list(cur)
            plan["ops"].append({"op": "unprotect", "fl": rng.choice(("sync", "async")), "net": "online", "cache": "fresh",
                                "blob": {"rk": 0, "sid": sid_m if rng.random() < 0.7 else sid_o, "pos": pos, "mode": rng.choice(("nonce", "pub")),
                                         "data": 5, "domain": NAMES[(i + 3) % len(NAMES)] or "q.test", "forest": NAMES[(i + 5) % len(NAMES)]}})
    return plan


def _struct_checks(env_fields: dict) -> t.Optional[t.Tuple[str, str]]:
    """Library decode/encode of the nested structures vs the reference."""
    from dpapi_ng import _gkdi

    kp = env_fields["kdf_params"]
    try:
        k = _gkdi.KDFParameters.unpack(kp)
        if k.hash_name != gkdi.unpack_kdf_params(kp) or k.pack() != kp:
            return ("kdf-parameters", f"KDFParameters decode/encode differs for {kp.hex()}")
    except Exception as e:  # noqa: BLE001
        return ("kdf-parameters", f"{e!r}")
    sp = env_fields["secret_params"]
    if env_fields["secret_alg"] == "DH" and sp:
        try:
            d = _gkdi.FFCDHParameters.unpack(sp)
            kl, p, g = gkdi.unpack_dh_params(sp)
            if (d.key_length, d.field_order, d.generator) != (kl, p, g) or d.pack() != sp:
                return ("ffc-dh-parameters", f"FFCDHParameters decode/encode differs (key_length {kl})")
        except Exception as e:  # noqa: BLE001
            return ("ffc-dh-parameters", f"{e!r}")
    if env_fields["flags"] & 1:
        pk = env_fields["l2_key"]
        try:
            if env_fields["secret_alg"] == "DH":
                d = _gkdi.FFCDHKey.unpack(pk)
                kl, p, g, y = gkdi.unpack_dh_key(pk)
                if (d.key_length, d.field_order, d.generator, d.public_key) != (kl, p, g, y) or d.pack() != pk:
                    return ("ffc-dh-key", f"FFCDHKey decode/encode differs (key_length {kl}, leading zero bytes in y: {kl - (y.bit_length() + 7) // 8})")
            else:
                d = _gkdi.ECDHKey.unpack(pk)
                c, kl, x, y = gkdi.unpack_ecdh_key(pk)
                if (d.curve_name, d.key_length, d.x, d.y) != (c, kl, x, y) or d.pack() != pk:
                    return ("ecdh-key", "ECDHKey decode/encode differs")
        except Exception as e:  # noqa: BLE001
            return ("public-key-structure", f"{e!r}")
    return None


def judge(plan, tr_ref: P.Trace, tr_lib: P.Trace):
    from dpapi_ng._blob import KeyIdentifier

    probes: t.Dict[str, int] = {}

    def V(clause, cond, detail):
        return common.violation("C11", clause, "", cond, "", "", detail)

    for name, tr in (("ref", tr_ref), ("lib", tr_lib)):
        if tr.dc.all_violations:
            return V("getkey-request", f"rejected-by-{name}-dc", f"{tr.dc.all_violations[:2]}"), probes
    lr, ll = tr_ref.dc.getkey_log, tr_lib.dc.getkey_log
    if len(lr) != len(ll):
        return V("three-party", "request-count", f"RefDC saw {len(lr)} GetKey requests, LibDC {len(ll)}"), probes
    rk = tr_ref.root_keys[0]
    api_ops = [ot for ot in tr_ref.ops if ot.op["op"] in ("protect", "unprotect")]
    for idx, (a, b_) in enumerate(zip(lr, ll)):
        ot = api_ops[idx] if idx < len(api_ops) else None
        # (1) GetKey stub: independent decode == API arguments; LibDC's GetKey.unpack agrees; re-encoding gives the same bytes
        if ot is not None:
            if ot.op["op"] == "unprotect":
                s = ot.blob_spec
                want = (dtyp.target_sd(s["sid"]), rk.root_key_id, *s["pos"])
            else:
                want = (dtyp.target_sd(ot.op["sid"]), rk.root_key_id if ot.op.get("rk") is not None else None, -1, -1, -1)
            got = (a["sd"], a["root_key_id"], a["l0"], a["l1"], a["l2"])
            if got != want:
                return V("getkey-request", "independent-decode", f"RefDC decoded GetKey arguments {got[1:]} (SD {len(got[0])} bytes), the API was called with {want[1:]} (SD {len(want[0])} bytes)"), probes
            probes["sd_len_mod8_%d" % (len(want[0]) % 8)] = 1
            probes["root_key_ptr_" + ("null" if want[1] is None else "set")] = 1
        if (a["sd"], a["root_key_id"], a["l0"], a["l1"], a["l2"]) != (b_["sd"], b_["root_key_id"], b_["l0"], b_["l1"], b_["l2"]):
            return V("getkey-request", "libdc-decode", f"library GetKey.unpack decoded {(b_['root_key_id'], b_['l0'], b_['l1'], b_['l2'])} (SD {len(b_['sd'])}), the independent decoder {(a['root_key_id'], a['l0'], a['l1'], a['l2'])} (SD {len(a['sd'])})"), probes
        if a["args_bytes"] != b_["args_bytes"]:
            return V("three-party", "client-nondeterministic", "client sent different stubs to the two servers"), probes
        r = wiremon.check_getkey_request(a["args_bytes"], "client")
        if r:
            return V("getkey-request", r[0], r[1]), probes
        if any(a["pad_after_args"]):
            return V("getkey-request", "padding-nonzero", "non-zero alignment padding after the GetKey arguments"), probes
        # (2) same abstract reply: structures byte-identical between LibDC and RefDC
        ea, eb = a.get("envelope"), b_.get("envelope")
        if (ea is None) != (eb is None) or a.get("hresult") != b_.get("hresult"):
            return V("three-party", "reply-kind", f"RefDC hresult {a.get('hresult')}, LibDC {b_.get('hresult')}"), probes
        if ea is not None:
            if ea != eb:
                k = next((i for i, (x, y) in enumerate(zip(ea, eb)) if x != y), min(len(ea), len(eb)))
                return V("envelope", "libdc-vs-refdc-bytes", f"GroupKeyEnvelope.pack differs from the independent encoder at offset {k} (lengths {len(eb)} vs {len(ea)}); fields domain={a['envelope_fields']['domain']!r} forest={a['envelope_fields']['forest']!r}"), probes
            probes["env_len_mod8_%d" % (len(ea) % 8)] = 1
            # (3) the client's decode of the reference-encoded reply
            r = wiremon.check_getkey_response(rpce.ndr64_getkey_response(ea, 0), "ref")
            if r:
                return V("getkey-reply", r[0], r[1]), probes
            r = None if plan.get("override") else _struct_checks(a["envelope_fields"])
            if r:
                return V("structures", r[0], r[1]), probes
            if plan.get("override"):
                probes["envelope_boundary_values"] = 1
            probes["reply_" + a["kind"]] = 1
            if plan.get("p521"):
                probes["p521_public_key_decoded"] = 1
            if a["root_key_id"] is not None and a["root_key_id"].int == 0:
                probes["nil_guid_root_key_id"] = 1
    # (3)/(4) results and key identifiers
    for ot_r, ot_l in zip(tr_ref.ops, tr_lib.ops):
        if plan.get("override"):
            if ot_r.op["op"] in ("protect", "unprotect") and (ot_r.outcome.kind != ot_l.outcome.kind or type(ot_r.outcome.exc) is not type(ot_l.outcome.exc)):
                return V("three-party", "outcome", f"op {ot_r.idx}: {ot_r.outcome.brief()} against RefDC, {ot_l.outcome.brief()} against LibDC"), probes
            continue
        if ot_r.op["op"] not in ("protect", "unprotect"):
            continue
        if ot_r.outcome.kind != ot_l.outcome.kind:
            return V("three-party", "outcome", f"op {ot_r.idx}: {ot_r.outcome.brief()} against RefDC, {ot_l.outcome.brief()} against LibDC ({ot_l.outcome.exc!r})"), probes
        if ot_r.op["op"] == "unprotect" and ot_r.outcome.kind == "ok" and (ot_r.outcome.value != ot_r.plaintext or ot_l.outcome.value != ot_l.plaintext):
            return V("getkey-reply", "wrong-plaintext", f"op {ot_r.idx} decrypted to other bytes"), probes
        if ot_r.op["op"] == "protect":
            for tr, ot in ((tr_ref, ot_r), (tr_lib, ot_l)):
                if ot.outcome.kind != "ok":
                    return V("getkey-reply", "protect-failed", f"{ot.outcome.exc!r}"), probes
                try:
                    p = cms.parse_blob(ot.outcome.value)
                except cms.CmsError as e:
                    return V("key-identifier", "independent-decode", f"the emitted blob / key identifier is rejected by the independent strict decoder: {e}; domain={tr.dc.domain!r} forest={tr.dc.forest!r}"), probes
                kid, raw = p["key_identifier"], p["key_identifier_raw"]
                env = ot.getkeys[0]["envelope_fields"]
                # (domain / forest are copied from the envelope by the current code; recorded, not judged)
                got = (kid["l0"], kid["l1"], kid["l2"], kid["root_key_id"], kid["flags"] & 1)
                want = (env["l0"], env["l1"], env["l2"], env["root_key_id"], env["flags"] & 1)
                if got != want:
                    return V("key-identifier", "fields", f"key identifier in the blob {got} != envelope {want}"), probes
                if gkdi.pack_key_identifier(kid) != raw:
                    return V("key-identifier", "independent-re-encode", "key identifier is not the canonical layout"), probes
                try:
                    lk = KeyIdentifier.unpack(raw)
                    if lk.pack() != raw or (lk.l0, lk.l1, lk.l2, lk.key_info, lk.domain_name, lk.forest_name) != (kid["l0"], kid["l1"], kid["l2"], kid["key_info"], kid["domain"], kid["forest"]):
                        return V("key-identifier", "library-round-trip", "KeyIdentifier.unpack/pack changes bytes or fields"), probes
                except Exception as e:  # noqa: BLE001
                    return V("key-identifier", "library-decode", f"{e!r}"), probes
                try:
                    if cms.unprotect_parsed(p, rk)[0] != ot.plaintext:
                        return V("getkey-reply", "blob-plaintext", "reference decrypts to other bytes"), probes
                except Exception as e:  # noqa: BLE001
                    return V("getkey-reply", "blob-undecryptable", f"{e!r}"), probes
                probes["kid_len_mod8_%d" % (len(raw) % 8)] = 1
    return None, probes


def _struct_job(job):
    """One pure structure computation of the library -> comparable value (see checks.threadpure)."""
    import uuid

    import dpapi_ng._blob as dblob
    import dpapi_ng._gkdi as dg

    what, k = job
    r = __import__("random").Random(k)
    rkid = uuid.UUID(int=r.getrandbits(128))
    if what == "getkey":
        sd = dtyp.target_sd(offline.sid_shape(1 + k % 15, k))
        g = dg.GetKey(sd, rkid if k % 3 else None, r.randrange(-1, 500), r.randrange(-1, 32), r.randrange(-1, 32))
        raw = bytes(g.pack())
        return raw, repr(dg.GetKey.unpack(raw))
    env = {"version": 1, "flags": 2 + k % 2, "l0": r.randrange(300, 500), "l1": r.randrange(32), "l2": r.randrange(32), "root_key_id": rkid,
           "kdf_alg": "SP800_108_CTR_HMAC", "kdf_params": gkdi.pack_kdf_params(offline.HASHES[k % 4]), "secret_alg": ("DH", "ECDH_P256", "ECDH_P384")[k % 3],
           "secret_params": b"" if k % 3 else gkdi.pack_dh_params(8, 0xF1F3F5F7F9FBFDFF | (1 << 63), 2 + k % 5), "private_key_length": 256 + k % 3, "public_key_length": 2048,
           "domain": NAMES[k % len(NAMES)], "forest": NAMES[(k // 3) % len(NAMES)], "l1_key": bytes([k % 256]) * (64 if k % 2 else 0), "l2_key": bytes([(k + 1) % 256]) * (64 if k % 5 else 0)}
    raw = gkdi.pack_envelope(env)
    if what == "env":
        e = dg.GroupKeyEnvelope.unpack(raw)
        return repr(e), bytes(e.pack())
    if what == "resp":
        e = dg.GetKey.unpack_response(rpce.ndr64_getkey_response(raw))
        return repr(e), bytes(e.pack())
    if what == "kid":
        kid = {"version": 1, "flags": 1 + 2 * (k % 2), "l0": env["l0"], "l1": env["l1"], "l2": env["l2"], "root_key_id": rkid, "key_info": bytes(range(k % 70)),
               "domain": env["domain"], "forest": env["forest"]}
        o = dblob.KeyIdentifier.unpack(gkdi.pack_key_identifier(kid))
        return repr(o), bytes(o.pack())
    if what == "ecdh":
        curve = ("P256", "P384", "P521")[k % 3]
        n = {"P256": 32, "P384": 48, "P521": 66}[curve]
        x, y = r.getrandbits(8 * n - 8), r.getrandbits(8 * n - 8)
        key = dg.ECDHKey(curve_name=curve, key_length=n, x=x, y=y)
        raw = bytes(key.pack())
        back = dg.ECDHKey.unpack(raw)
        return raw, repr(back), bytes(back.pack()), repr(back.curve_and_hash[1].name)
    if what == "params":
        kp = dg.KDFParameters.unpack(gkdi.pack_kdf_params(offline.HASHES[k % 4]))
        fp = dg.FFCDHParameters.unpack(gkdi.pack_dh_params(8 + k % 3, (1 << (8 * (8 + k % 3) - 1)) | (2 * k + 1), 2 + k % 7))
        dk = dg.FFCDHKey.unpack(gkdi.pack_dh_key(8, (1 << 63) | (2 * k + 1), 2, 5 + k))
        return repr(kp), bytes(kp.pack()), repr(fp), bytes(fp.pack()), repr(dk), bytes(dk.pack())
    raise ValueError(what)


def run_name_damage(case) -> dict:
    """{"kind": "name-damage", ...}: the first GetKey reply of the process carries an envelope whose domain / forest name bytes are
    damaged (odd length, half a surrogate pair, no terminator, lone surrogates); the library may reject or accept that reply.
    The following, well-formed reply (same names as usual, incl. non-BMP ones) must be decoded exactly as if nothing had happened."""
    import random

    r = random.Random(case["seed"])
    raws = [b"a\x00b", b"\x3d\xd8", b"\x3d\xd8\x00", "\U0001F600".encode("utf-16-le")[:3], b"x\x00" * 3 + b"\x00", b"\x00\xdc\x00\x00", b"\xff", b"d\x00.\x00t\x00\x00\x00\x00"]
    ov = {("domain_raw", "forest_raw")[case["seed"] % 2]: raws[case["which"] % len(raws)]}
    sid = offline.sid_shape(3, case["seed"])
    l0 = r.randrange(340, 470)
    now = l0 * 1024 * B + r.randrange(1024 * B)
    cur = gkdi.interval_of_filetime(now)
    names = (NAMES[case["seed"] % len(NAMES)], NAMES[(case["seed"] // 7) % len(NAMES)])
    blob = {"rk": 0, "sid": sid, "pos": list(cur), "mode": "nonce", "data": 5, "domain": "q.test", "forest": "q.test"}
    plan = {"seed": case["seed"], "clock_ft": now, "root_keys": [[65, offline.HASHES[case["seed"] % 4], "DH"]], "caller_sids": [sid],
            "ctx": {"kind": "stub", "legs": 2, "sig": 16}, "dc": {"domain": names[0], "forest": names[1], "byz": {"envelope_override": ov, "override_first_n": 1}},
            "ops": [{"op": "unprotect", "fl": case["fl"][0], "net": "online", "cache": "fresh", "blob": dict(blob)},
                    {"op": "unprotect", "fl": case["fl"][1], "net": "online", "cache": "fresh", "blob": dict(blob, salt=5)},
                    {"op": "protect", "fl": case["fl"][1], "sid": sid, "rk": None, "net": "online", "data": 7, "cache": "fresh"}]}
    tr = P.execute_plan(plan)
    viol = None
    first, second, third = tr.ops[0], tr.ops[1], tr.ops[2]
    ok2 = second.outcome.kind == "ok" and second.outcome.value == second.plaintext
    ok3 = third.outcome.kind == "ok"
    if ok3:
        try:
            kid = cms.parse_blob(third.outcome.value)["key_identifier"]
            ok3 = (kid["domain"], kid["forest"]) == names
        except Exception:  # noqa: BLE001
            ok3 = False
    if not ok2 or not ok3:
        bad = second if not ok2 else third
        viol = common.violation("C11", "getkey-reply", "after-damaged-reply", drive.exc_sig(bad.outcome)[0] if bad.outcome.kind != "ok" else "names-differ", drive.exc_sig(bad.outcome)[1], "",
                                f"after a reply whose {list(ov)[0]} was {list(ov.values())[0]!r} (outcome {first.outcome.brief()}), a well-formed reply with names {names} gave "
                                f"{bad.outcome.brief()} {bad.outcome.exc!r}")
    return {"viol": viol, "digest": tr.world.digest(), "key": common.key_hash(case), "fired": {"parties": 2}, "probes": {"damaged_name_then_valid": 1}, "vtime_ns": 0}


def run_kid_history(case) -> dict:
    """{"kind": "kid-history", ...}: key identifiers whose domain / forest names differ only in case, Unicode normalisation form or a
    trailing dot are decoded one after the other in one process; each must decode to its own spelling and re-encode to its own bytes."""
    import random
    import unicodedata
    import uuid

    import dpapi_ng._blob as dblob

    r = random.Random(case["seed"])
    base = r.choice(["domain.test", "b\u00fccher.example", "corp.example", "x" * 20 + ".test"])
    variants = [base, base.upper(), base.title(), unicodedata.normalize("NFD", base), base + ".", base.swapcase()]
    r.shuffle(variants)
    viol = None
    for k, name in enumerate(variants[: case["n"]]):
        kid = {"version": 1, "flags": k % 2, "l0": 361, "l1": k, "l2": 31 - k, "root_key_id": uuid.UUID(int=case["seed"]), "key_info": bytes(range(32)),
               "domain": name, "forest": variants[(k + 1) % len(variants)]}
        raw = gkdi.pack_key_identifier(kid)
        o = dblob.KeyIdentifier.unpack(raw)
        if (o.domain_name, o.forest_name) != (kid["domain"], kid["forest"]) or bytes(o.pack()) != raw:
            viol = common.violation("C11", "key-identifier", "history", "other-spelling-returned", "", "",
                                    f"key identifier #{k + 1} of the process names {kid['domain']!r} / {kid['forest']!r} but decodes to {o.domain_name!r} / {o.forest_name!r} "
                                    f"(earlier ones: {variants[:k]})")
            break
    return {"viol": viol, "digest": str(case["seed"]), "key": common.key_hash(case), "fired": {"parties": 1}, "probes": {"key_identifier_histories": 1}, "vtime_ns": 0}


NUL_NAMES = ["\x00", "domain.test\x00", "x\x00\x00", "a\x00b", "\x00a", "\x00\x00\x00", "b\u00fccher\x00",
             # names that begin with (or contain) what a UTF-16 decoder could take for a byte order mark
             "\ufeffdomain.test", "\ufffeab", "a\ufeffb", "\ufeff", "\ufffe\ufffe.test"]


def _buffers(raw: bytes, r) -> t.List[t.Tuple[str, t.Any]]:
    """The same encoded structure as every buffer type the decoders are declared to accept (what a caller slices out of a receive
    buffer is rarely an immutable bytes object)."""
    off = r.randrange(1, 9)
    ba = bytearray(b"\xAA" * off + raw + b"\xBB" * 3)
    return [("bytes", raw), ("bytearray", bytearray(raw)), ("memoryview-of-bytes", memoryview(raw)), ("memoryview-of-bytearray", memoryview(bytearray(raw))),
            ("slice-of-receive-buffer", memoryview(ba)[off : off + len(raw)])]


def run_codec_inputs(case) -> dict:
    """{"kind": "codec-inputs", "seed": s}: every structure, encoded by the independent encoder with names that may END in U+0000 or
    contain it, is decoded by the library from bytes, bytearray, memoryview (read-only and writable) and a slice of a larger
    receive buffer; each decode must give the encoded field values and re-encode to the same bytes."""
    import random
    import uuid

    import dpapi_ng._blob as dblob
    import dpapi_ng._gkdi as dg

    r = random.Random(case["seed"])
    k = case["seed"]
    names = NAMES + NUL_NAMES
    dom, forest = r.choice(names), r.choice(names)
    rkid = uuid.UUID(int=r.getrandbits(128))
    kl = r.choice((2, 8, 9, 256))
    p_ = (1 << (8 * kl - 1)) | (2 * r.getrandbits(8 * kl - 3) + 1)
    g_, y_ = r.randrange(2, 9), r.getrandbits(8 * kl - 8 * r.randrange(0, 2) - 1) % p_
    hash_name = offline.HASHES[k % 4]
    curve = ("P256", "P384", "P521")[k % 3]
    n = {"P256": 32, "P384": 48, "P521": 66}[curve]
    ex, ey = r.getrandbits(8 * n - 8 * r.randrange(0, 2) - 1), r.getrandbits(8 * n - 1)
    env = {"version": 1, "flags": 2 + k % 2, "l0": r.randrange(300, 500), "l1": r.randrange(32), "l2": r.randrange(32), "root_key_id": rkid,
           "kdf_alg": "SP800_108_CTR_HMAC", "kdf_params": gkdi.pack_kdf_params(hash_name), "secret_alg": ("DH", "ECDH_P256", "ECDH_P384")[k % 3],
           "secret_params": gkdi.pack_dh_params(kl, p_, g_) if k % 3 == 0 else b"", "private_key_length": 256 + k % 3, "public_key_length": 2048,
           "domain": dom, "forest": forest, "l1_key": bytes([k % 256]) * (64 if k % 2 else 0), "l2_key": bytes([(k + 1) % 256]) * (64 if k % 5 else 0)}
    kid = {"version": 1, "flags": 1 + 2 * (k % 2), "l0": env["l0"], "l1": env["l1"], "l2": env["l2"], "root_key_id": rkid, "key_info": bytes(range(k % 70)),
           "domain": dom, "forest": forest}
    ecraw = {"P256": b"ECK1", "P384": b"ECK3", "P521": b"ECK5"}[curve] + n.to_bytes(4, "little") + ex.to_bytes(n, "big") + ey.to_bytes(n, "big")
    structs = [
        ("envelope", gkdi.pack_envelope(env), dg.GroupKeyEnvelope.unpack,
         lambda o: (o.l0, o.l1, o.l2, o.root_key_identifier, o.domain_name, o.forest_name, bytes(o.l1_key), bytes(o.l2_key), bytes(o.kdf_parameters), bytes(o.secret_parameters)),
         (env["l0"], env["l1"], env["l2"], rkid, dom, forest, env["l1_key"], env["l2_key"], env["kdf_params"], env["secret_params"])),
        ("key-identifier", gkdi.pack_key_identifier(kid), dblob.KeyIdentifier.unpack,
         lambda o: (o.l0, o.l1, o.l2, o.root_key_identifier, o.domain_name, o.forest_name, bytes(o.key_info)), (kid["l0"], kid["l1"], kid["l2"], rkid, dom, forest, kid["key_info"])),
        ("kdf-parameters", gkdi.pack_kdf_params(hash_name), dg.KDFParameters.unpack, lambda o: (o.hash_name,), (hash_name,)),
        ("ffc-dh-parameters", gkdi.pack_dh_params(kl, p_, g_), dg.FFCDHParameters.unpack, lambda o: (o.key_length, o.field_order, o.generator), (kl, p_, g_)),
        ("ffc-dh-key", gkdi.pack_dh_key(kl, p_, g_, y_), dg.FFCDHKey.unpack, lambda o: (o.key_length, o.field_order, o.generator, o.public_key), (kl, p_, g_, y_)),
        ("ecdh-key", ecraw, dg.ECDHKey.unpack, lambda o: (o.curve_name, o.key_length, o.x, o.y), (curve, n, ex, ey)),
    ]
    viol = None
    probes = {"codec_input_cases": 1}
    if dom.endswith("\x00") or forest.endswith("\x00"):
        probes["name_ending_in_nul_character"] = 1
    if dom[:1] in ("\ufeff", "\ufffe") or forest[:1] in ("\ufeff", "\ufffe"):
        probes["name_starting_with_bom_character"] = 1
    for sname, raw, unpack, fields, want in structs:
        for bname, buf in _buffers(raw, r):
            try:
                o = unpack(buf)
                got = fields(o)
                back = bytes(o.pack())
            except Exception as e:  # noqa: BLE001
                viol = common.violation("C11", "structures", sname, "decode-raises", type(e).__name__, bname,
                                        f"{sname} given as {bname}: {e!r} (domain={dom!r} forest={forest!r})")
                break
            if got != want or back != raw:
                viol = common.violation("C11", "structures", sname, "fields" if got != want else "re-encode", "", bname if bname != "bytes" else "",
                                        f"{sname} given as {bname} decodes to {str(got)[:200]} (encoded: {str(want)[:200]}); re-encodes to the same bytes: {back == raw}")
                break
        if viol:
            break
    if viol is None:
        # the GetKey request stub for a security descriptor handed over as bytes / bytearray / memoryview, encoded twice (a request that
        # is sent again must be the same request, and the caller's buffer is the caller's)
        sd = dtyp.target_sd(offline.sid_shape(1 + k % 15, k))
        rkid_req = rkid if k % 3 else None
        idx = (r.randrange(-1, 500), r.randrange(-1, 32), r.randrange(-1, 32))
        for bname, buf in _buffers(sd, r):
            before = bytes(buf)
            try:
                g = dg.GetKey(buf, rkid_req, *idx)
                first, second = bytes(g.pack()), bytes(g.pack())
                dec = rpce.ndr64_parse_getkey_request(first)
            except Exception as e:  # noqa: BLE001
                viol = common.violation("C11", "getkey-request", "stub", "encode-raises", type(e).__name__, bname, f"GetKey with the SD given as {bname} ({len(sd)} bytes): {e!r}")
                break
            if (dec["sd"], dec["root_key_id"], dec["l0"], dec["l1"], dec["l2"]) != (sd, rkid_req, *idx) or second != first or bytes(buf) != before:
                what = "caller-buffer-changed" if bytes(buf) != before else ("second-encoding-differs" if second != first else "independent-decode")
                viol = common.violation("C11", "getkey-request", "stub", what, "", bname,
                                        f"GetKey with the SD given as {bname} ({len(sd)} bytes): independent decode gives SD of {len(dec['sd'])} bytes, "
                                        f"second encoding equal: {second == first}, caller's buffer unchanged: {bytes(buf) == before}")
                break
            probes["getkey_sd_len_mod8_%d" % (len(sd) % 8)] = 1
    return {"viol": viol, "digest": str(case["seed"]), "key": common.key_hash(case), "fired": {"parties": 1}, "probes": probes, "vtime_ns": 0}


def run_threads(case) -> dict:
    """{"kind": "threads", ...}: 2..4 caller threads encode / decode MS-GKDI structures at the same time."""
    import random

    from checks import threadpure

    r = random.Random(case["seed"])
    kinds = ("ecdh", "ecdh", "ecdh", "kid") if case.get("first_use") is True else ("getkey", "getkey", "env", "resp", "kid", "params", "ecdh")
    jobs = [[(r.choice(kinds), r.randrange(5000)) for _ in range(r.randint(3, 9))] for _ in range(case["n"])]
    out = threadpure.run("C11", "structures", case, jobs, _struct_job, case["seed"], case["policy"], baseline_after=bool(case.get("first_use")))
    out["probes"] = dict(out.get("probes") or {}, thread_structure_cases=1)
    return out


class C11(common.Check):
    id = "C11"
    level = "exploration"
    rule = ("case = plan of 1..3 online operations executed twice: against the reference DC (independent codecs) and against LibDC (the library's "
            "GetKey.unpack / GroupKeyEnvelope.pack in the server role). Parameters sweep SD length residues mod 8 (SIDs with 1..15 "
            "sub-authorities), null / non-null root key pointer, envelope length residues mod 8 (domain / forest names 0..40 chars, empty, "
            "non-ASCII, non-BMP), NDR alignment gaps of the reply filled with zeros or other octets, small DH groups with odd key lengths and leading-zero public values, P256 / P384, seed and public-key replies. "
            "Judged: independent decode of every GetKey stub == API arguments == LibDC's decode, stub re-encoding; envelope bytes LibDC == "
            "RefDC; library decode of the reply and of nested KDF / FFC-DH parameters / DH / ECDH keys == independent decode and re-encodes "
            "identically; key identifiers in emitted blobs; 2..4 caller threads of one process encode / decode the structures at the same time "
            "(pre-empted at PRNG-chosen line events inside dpapi_ng) and every result must equal the one computed alone (also as the first thing a new interpreter does, one child process per case); a reply whose name bytes are damaged (odd length, half a surrogate pair) followed "
            "by well-formed replies in the same process; key identifiers whose names differ only in case / normalisation form decoded one after "
            "the other; the GetKey stub for a security descriptor handed over as bytes / bytearray / memoryview, encoded twice; every structure (names that end in / contain U+0000 included) handed to the decoders as bytes, bytearray, read-only / writable memoryview and as a slice "
            "of a larger receive buffer. Non-trivial = every plan; distinct = distinct plan.")
    components = {"client": "real (GetKey.pack, GetKey.unpack_response, GroupKeyEnvelope.unpack, KeyIdentifier.pack, parameter/key structures)",
                  "LibDC": "real codecs in the server role (GetKey.unpack, VerificationTrailer.unpack, GroupKeyEnvelope.pack)",
                  "RefDC": "model (ref.rpce NDR64, ref.gkdi structures)", "transport / clock / entropy": "simulated"}
    assumptions = ["structure values that no party can send in this protocol (e.g. an envelope with L1 = 2^32-1) are outside the technique and not claimed",
                   "NDR referent ids are free and compared through the decoder"]
    required_fired = tuple("sd_len_mod8_%d" % i for i in (0, 4)) + ("root_key_ptr_null", "root_key_ptr_set", "reply_seed", "reply_public") + \
        tuple("env_len_mod8_%d" % i for i in range(8)) + ("envelope_boundary_values", "p521_public_key_decoded", "nil_guid_root_key_id", "thread_structure_cases", "thread_overlap", "damaged_name_then_valid", "key_identifier_histories", "codec_input_cases", "name_ending_in_nul_character", "thread_cases_in_new_process", "ndr_gaps_not_zero", "name_starting_with_bom_character")

    def cases(self, tier, seed):
        rng = prng.stream(seed, "C11")
        n = 1500 if tier == "quick" else 60000
        from checks import threadpure

        # (first: thread cases that only use the ECDH key structure - the first use of it in each worker process and in the replay)
        rngf = prng.stream(seed, "C11", "first-use")
        out = [{"kind": "threads", "first_use": True, "seed": rngf.getrandbits(30), "n": 2 + k % 3, "policy": {"mode": "marks", "q": (0.3, 0.5, 0.8)[k % 3], "p": (0.0, 0.05)[(k // 3) % 2]}} for k in range(32)]
        out += [gen_plan(rng, i, tier) for i in range(n)]
        for k in range(60 if tier == "quick" else 2000):
            out.append({"kind": "kid-history", "seed": rng.getrandbits(30), "n": 3 + k % 4})
        for k in range(96 if tier == "quick" else 4000):
            out.append({"kind": "name-damage", "seed": rng.getrandbits(30), "which": k, "fl": [("sync", "async")[k % 2], ("sync", "async")[(k // 2) % 2]]})
        for k in range(300 if tier == "quick" else 20000):
            out.append({"kind": "threads", "seed": rng.getrandbits(30), "n": 2 + k % 3, "policy": threadpure.policy_for(k, seams=False)})
        for k in range(600 if tier == "quick" else 30000):
            out.append({"kind": "codec-inputs", "seed": rng.getrandbits(30)})
        # the same thread cases as the very first thing a new interpreter does with the library (all structure kinds; one child per case)
        for k in range(64 if tier == "quick" else 2000):
            out.append({"kind": "fresh", "inner": {"kind": "threads", "first_use": "all", "seed": rng.getrandbits(30), "n": 2 + k % 3,
                                                   "policy": {"mode": "marks", "q": (0.2, 0.35, 0.5, 0.8)[k % 4], "p": (0.0, 0.02, 0.1)[(k // 4) % 3]} if k % 4 else {"mode": "prob", "p": (0.05, 0.3)[(k // 4) % 2]}}})
        return out

    def run_case(self, case):
        if case.get("kind") == "threads":
            return run_threads(case)
        if case.get("kind") == "name-damage":
            return run_name_damage(case)
        if case.get("kind") == "kid-history":
            return run_kid_history(case)
        if case.get("kind") == "codec-inputs":
            return run_codec_inputs(case)
        if case.get("kind") == "fresh":
            v = common.run_case_fresh("C11", case["inner"])
            if v:
                v = {"sig": v["sig"] + "/new-process", "detail": "first use in a new process: " + v["detail"]}
            return {"viol": v, "digest": "fresh:" + (v["sig"] if v else "ok"), "key": common.key_hash(case), "fired": {}, "probes": {"thread_cases_in_new_process": 1}, "vtime_ns": 0}
        tr_ref = P.execute_plan(case)
        tr_lib = P.execute_plan(dict(case, dc=dict(case["dc"], lib_codecs=True)))
        viol, probes = judge(case, tr_ref, tr_lib)
        if case.get("ndr_gap_fill"):
            probes["ndr_gaps_not_zero"] = 1
        return {"viol": viol, "digest": tr_ref.world.digest() + tr_lib.world.digest(), "key": common.key_hash(case), "fired": {"parties": 3},
                "probes": probes, "vtime_ns": tr_ref.world.stats.get("vtime_ns", 0)}

    def shrink(self, case):
        if case.get("kind") in ("name-damage", "kid-history", "codec-inputs", "fresh"):
            return
        if case.get("kind") == "threads":
            pol = case["policy"]
            if pol.get("mode") != "script":
                sc = run_threads(case).get("_script")
                if sc:
                    yield dict(case, policy=sc)
            else:
                sw = pol["switches"]
                if len(sw) > 2:
                    yield dict(case, policy=dict(pol, switches=sw[: len(sw) // 2]))
                    yield dict(case, policy=dict(pol, switches=sw[len(sw) // 2 :]))
                for k in range(min(len(sw), 40)):
                    yield dict(case, policy=dict(pol, switches=sw[:k] + sw[k + 1 :]))
            return
        ops = case["ops"]
        for i in range(len(ops)):
            if len(ops) > 1:
                yield dict(case, ops=ops[:i] + ops[i + 1 :])
        for k in ("domain", "forest"):
            if case["dc"][k] != "d.test":
                yield dict(case, dc=dict(case["dc"], **{k: "d.test"}))

    def sample_repr(self, case, res):
        if case.get("kind") in ("threads", "name-damage", "kid-history", "codec-inputs", "fresh"):
            return case
        rk = case["root_keys"][0]
        return {"root_key": rk[:3], "domain": case["dc"]["domain"], "forest": case["dc"]["forest"],
                "ops": [(o["op"], o.get("sid"), o.get("rk"), (o.get("blob") or {}).get("pos")) for o in case["ops"]]}


CHECK = C11()
