"""Helpers shared by the checks that drive the public API: root keys, caches,
calling the four API functions in either flavour inside a world."""
from __future__ import annotations

import hashlib
import random
import typing as t
import uuid

from checks import common, drive
from ref import cms, gkdi

DC = "dc01.domain.test"
HASHES = ("SHA1", "SHA256", "SHA384", "SHA512")
SECRETS = ("DH", "ECDH_P256", "ECDH_P384")
SID_A = "S-1-5-21-2185496602-3367037166-1388177638-1103"
SID_B = "S-1-5-21-11-22-33-512"


def synth_root_key(idx: int, hash_name: str = "SHA512", secret_alg: str = "DH", extra: t.Optional[dict] = None) -> cms.RootKey:
    """extra: {"dh": [key_length, p, g], "priv_len": bits} for custom (small) DH groups / private key lengths."""
    seed = hashlib.sha512(b"root-key-%d-%s-%s" % (idx, hash_name.encode(), secret_alg.encode())).digest()
    priv = {"DH": 512, "ECDH_P256": 256, "ECDH_P384": 384, "ECDH_P521": 521}[secret_alg]
    pub = {"DH": 2048, "ECDH_P256": 256, "ECDH_P384": 384, "ECDH_P521": 521}[secret_alg]
    params = b""
    if extra:
        if "dh" in extra:
            kl, p, g = extra["dh"]
            params = gkdi.pack_dh_params(kl, p, g)
            pub = kl * 8
        priv = extra.get("priv_len", priv)
    rkid = uuid.UUID(bytes=hashlib.md5(seed).digest())
    if extra and "rkid_int" in extra:
        rkid = uuid.UUID(int=extra["rkid_int"])
    if extra and extra.get("key_edges"):  # msKds-RootKeyData is raw bytes: any byte value may come first or last
        a, b_ = extra["key_edges"]
        seed = bytes([a]) + seed[1:-1] + bytes([b_])
    return cms.RootKey(key=seed, root_key_id=rkid, hash_name=hash_name, secret_alg=secret_alg,
                       secret_params=params, private_key_length=priv, public_key_length=pub)


def load_into(cache, rk: cms.RootKey) -> None:
    cache.load_key(key=rk.key, root_key_id=rk.root_key_id, version=rk.version, kdf_algorithm="SP800_108_CTR_HMAC",
                   kdf_parameters=rk.kdf_params, secret_algorithm=rk.secret_alg, secret_parameters=rk.eff_secret_params or None,
                   private_key_length=rk.private_key_length, public_key_length=rk.public_key_length)


def new_cache(*rks: cms.RootKey):
    import dpapi_ng

    c = dpapi_ng.KeyCache()
    for rk in rks:
        load_into(c, rk)
    return c


def call_api(world, flavour: str, fn_name: str, *args, rng: t.Optional[random.Random] = None, **kw):
    """fn_name: 'protect' | 'unprotect'; returns the API result, exceptions propagate."""
    import dpapi_ng

    if flavour == "sync":
        fn = dpapi_ng.ncrypt_protect_secret if fn_name == "protect" else dpapi_ng.ncrypt_unprotect_secret
        return fn(*args, **kw)
    fn = dpapi_ng.async_ncrypt_protect_secret if fn_name == "protect" else dpapi_ng.async_ncrypt_unprotect_secret
    return drive.run_async(world, lambda: fn(*args, **kw), rng)


def sid_shape(n_sub: int, variant: int = 0) -> str:
    """SIDs with 1..15 sub-authorities incl. the extreme values."""
    vals = [(0, 4294967295, 21, 1000 + i, 7)[(i + variant) % 5] for i in range(n_sub)]
    return "S-1-5" + "".join("-%d" % v for v in vals)
