"""C14 - replies reassemble identically under any TCP segmentation; EOF is an error.

Real SyncRpcClient / AsyncRpcClient over the simulated transport; the peer is a
conforming RpcServer (ref.rpce) whose reply R is delivered in chosen chunks,
or cut short by EOF / RST / stall at a chosen byte.
"""
from __future__ import annotations

import itertools
import typing as t
import uuid

from checks import common, drive
from ref import rpce
from simworld import peers, world as W

ECHO_IF = (uuid.UUID("11111111-2222-3333-4444-555555555555"), 1, 0)

# scenario: (kind, auth, sec_addr_len, n_contexts, stub_len)
# pauses between two segments of a reply (virtual seconds); the connection itself is made with a 5 s connect timeout, which says
# nothing about how long a peer may take between two segments (a caller-supplied socket that keeps a timeout: only the first four)
GAPS = (0.05, 0.5, 2.0, 4.0, 6.0, 75.0)
SCENARIOS: t.List[tuple] = []
for sa in range(0, 8):
    SCENARIOS.append(("bind", False, sa, 1, 0))
SCENARIOS.append(("bind", False, 3, 2, 0))
for sa in (0, 5):
    SCENARIOS.append(("bind", True, sa, 2, 0))
SCENARIOS.append(("alter", True, 4, 1, 0))
for n in (0, 1, 7, 8, 100, 1400, 5000):
    SCENARIOS.append(("response", False, 4, 1, n))
for n in (0, 1, 100, 1400):
    SCENARIOS.append(("response", True, 4, 1, n))
SCENARIOS.append(("fault", False, 4, 1, 0))


def _target_msg(sc) -> int:
    kind, auth = sc[0], sc[1]
    if kind == "bind":
        return 0
    if kind == "alter":
        return 1
    if kind in ("response", "fault"):
        return 2 if auth else 1
    raise ValueError(kind)


def _ctx_cfg(sc) -> dict:
    return {"legs": 3 if sc[0] == "alter" else 2, "sig": 16}


def _handler(sc):
    def handler(server, conn, req):
        if sc[0] == "fault":
            return ("fault", 0x000006F7)
        return ("response", bytes((i * 7 + 3) & 0xFF for i in range(sc[4])))

    return handler


def _contexts(sc):
    import dpapi_ng._rpc as rpc

    ctxs = [rpc.ContextElement(0, rpc.SyntaxId(*ECHO_IF), [rpc.NDR64])]
    if sc[3] == 2:
        ctxs.append(rpc.ContextElement(1, rpc.SyntaxId(*ECHO_IF), [rpc.bind_time_feature_negotiation()]))
    return ctxs


def _execute(sc, flavour: str, delivery: t.Optional[dict], seed: int = 0):
    """-> (Outcome, world, target message bytes or None)"""
    import dpapi_ng._rpc as rpc

    world = W.World(seed)
    record: list = []
    kind, auth = sc[0], sc[1]
    cfg = _ctx_cfg(sc)
    srv = peers.RpcServer({ECHO_IF: _handler(sc)}, drive.stub_acceptor_factory(cfg) if auth else None,
                          {"sec_addr": "1" * (sc[2] - 1) if sc[2] else ""})
    world.add_route("dc", 135, srv)
    if delivery and delivery.get("fd_base"):
        world.fd_base = int(delivery["fd_base"])  # the process already holds that many descriptors: the socket's number lies above FD_SETSIZE
    world.deliveries = [delivery]
    ctxs = _contexts(sc)
    ap = "negotiate" if auth else None

    def sync_work():
        if flavour == "sync-timeout":
            # a caller-supplied socket that keeps a timeout (SyncRpcClient accepts any connected socket)
            import socket as _s

            from dpapi_ng._rpc._auth import AuthenticationProvider

            sock = _s.create_connection(("dc", 135), timeout=5)
            c = rpc.SyncRpcClient(sock, AuthenticationProvider(None, None, "dc", ap) if ap else None)
        else:
            c = rpc.create_rpc_connection("dc", 135, auth_protocol=ap)
        with c:
            ack = c.bind(ctxs)
            if kind in ("bind", "alter"):
                return ack
            return c.request(0, 1, b"\x01\x02\x03\x04")

    async def async_work():
        c = await rpc.async_create_rpc_connection("dc", 135, auth_protocol=ap)
        async with c:
            ack = await c.bind(ctxs)
            if kind in ("bind", "alter"):
                return ack
            return await c.request(0, 1, b"\x01\x02\x03\x04")

    with world.installed(ctx_factory=drive.stub_ctx_factory(cfg, record) if auth else None):
        if flavour.startswith("sync"):
            out = drive.classify(sync_work)
        else:
            out = drive.classify(lambda: drive.run_async(world, async_work))
    conn = world.conns[0] if world.conns else None
    tm = _target_msg(sc)
    target = conn.rx_msgs[tm] if conn is not None and len(conn.rx_msgs) > tm else None
    if out.kind == "ok":
        # what the security context was fed is part of the observable outcome (tokens of alter_context_resp)
        out = drive.Outcome("ok", (out.value, tuple(r[2] for r in record if r[0] == "step")))
    ri = 0 if kind in ("bind", "alter") else tm
    world.returned_msg = conn.rx_msgs[ri] if conn is not None and len(conn.rx_msgs) > ri else None
    return out, world, target


_BASE: t.Dict[tuple, tuple] = {}


class BaselineBroken(Exception):
    """The one-piece, fault-free delivery of a scenario already gives the wrong outcome (reported as a violation of its own, not as
    a harness error: it is the code under test that misbehaves)."""


def baseline(si: int, flavour: str):
    key = (si, flavour)
    if key not in _BASE:
        sc = SCENARIOS[si]
        out, world, target = _execute(sc, flavour, None)
        if out.kind != "ok" and sc[0] != "fault":
            raise BaselineBroken(f"scenario {sc} {flavour}, reply delivered in one piece: {out.brief()} {out.exc!r}")
        if target is None:
            raise common.HarnessError(f"baseline of scenario {sc}: target message was never sent")
        # the baseline itself is validated against the independent decoder
        _check_against_ref(sc, out, world.returned_msg)
        _BASE[key] = (out, target)
    return _BASE[key]


def _check_against_ref(sc, out, target: bytes) -> None:
    ref = rpce.parse_pdu(target)
    if sc[0] == "fault":
        if out.kind != "raise":
            raise BaselineBroken(f"scenario {sc}: a fault PDU delivered in one piece did not surface as an error ({out.brief()})")
        return
    pdu = out.value[0]
    bad = []
    if int(pdu.header.packet_type) != ref["ptype"] or pdu.header.frag_len != ref["frag_len"] or pdu.header.auth_len != ref["auth_len"]:
        bad.append("header")
    if ref["ptype"] in (rpce.BIND_ACK, rpce.ALTER_CONTEXT_RESP):
        if pdu.sec_addr != ref["sec_addr"] or [(int(r.result), r.reason) for r in pdu.results] != [(r[0], r[1]) for r in ref["results"]]:
            bad.append("bind_ack fields")
        if (pdu.sec_trailer.auth_value if pdu.sec_trailer else None) != (ref["auth"]["value"] if ref["auth"] else None):
            bad.append("token")
    if bad:
        raise BaselineBroken(f"one-piece decode of scenario {sc} disagrees with the independent decoder: {bad}")


def run_pair(case) -> dict:
    """["pair", si, sj, cut, seed]: two async clients talk to two servers at the same time on one loop; every reply of both is cut
    at byte ``cut`` (16 = exactly between header and body), latencies from the PRNG.  Each must decode what it decodes alone."""
    import asyncio
    import random as _r

    import dpapi_ng._rpc as rpc

    _, si, sj, cut, seed = case
    world = W.World(seed)
    world.default_delivery = {"mode": "cuts", "cuts": {str(k): [cut] for k in range(4)}}
    outs = {}
    record: list = []
    cfgs = {}
    for tag, sidx in (("a", si), ("b", sj)):
        sc = SCENARIOS[sidx]
        cfgs[tag] = _ctx_cfg(sc)
        srv = peers.RpcServer({ECHO_IF: _handler(sc)}, drive.stub_acceptor_factory(cfgs[tag]) if sc[1] else None,
                              {"sec_addr": "1" * (sc[2] - 1) if sc[2] else ""})
        world.add_route("dc" + tag, 135, srv)

    async def one(tag, sidx):
        sc = SCENARIOS[sidx]
        rec: list = []
        try:
            c = await rpc.async_create_rpc_connection("dc" + tag, 135, auth_protocol="negotiate" if sc[1] else None)
            async with c:
                ack = await c.bind(_contexts(sc))
                val = ack if sc[0] in ("bind", "alter") else await c.request(0, 1, b"\x01\x02\x03\x04")
            outs[tag] = drive.Outcome("ok", (val, tuple(r[2] for r in record if r[0] == "step" and r[-1] == tag)))
        except Exception as e:  # noqa: BLE001
            outs[tag] = drive.Outcome("raise", exc=e)

    async def main():
        lp = asyncio.get_running_loop()
        await asyncio.gather(lp.create_task(one("a", si), name="A"), lp.create_task(one("b", sj), name="B"))

    # the scripted context records which connection it belongs to through the hostname it is created for
    def factory(username=None, password=None, hostname="unspecified", **kw):
        from simworld import secctx

        tag = hostname[-1]

        class Tagged(list):
            def append(self, item):
                record.append(tuple(item) + (tag,))

        return secctx.StubCtx(cfgs[tag], drive.SECRET, Tagged())

    with world.installed(ctx_factory=factory):
        whole = drive.classify(lambda: drive.run_async(world, main, _r.Random(seed), (1, (20, 500, 5000)[seed % 3])))
    viol = None
    for tag, sidx in (("a", si), ("b", sj)):
        try:
            base, _target = baseline(sidx, "async")
        except BaselineBroken as e:
            viol = common.violation("C14", "reassembly", "async", "one-piece-delivery", "", SCENARIOS[sidx][0], str(e))
            break
        o = outs.get(tag) or whole
        if not o.same_as(base):
            kind, frame = drive.exc_sig(o)
            viol = common.violation("C14", "reassembly", "async-two-connections", kind, frame, "header-split" if cut <= 16 else "body-split",
                                    f"two connections in flight at once, replies cut at byte {cut}: connection {tag} (scenario {SCENARIOS[sidx]}) ended {o.brief()} {o.exc!r}, alone it gives {base.brief()}")
            break
    return {"viol": viol, "digest": world.digest() + whole.brief(), "key": common.key_hash(case), "fired": {"seg": world.stats.get("seg", 0), "concurrent_connections": 1},
            "probes": {"pairs": 1}, "vtime_ns": world.stats.get("vtime_ns", 0)}


class C14(common.Check):
    id = "C14"
    level = "fault_enumeration"
    rule = ("case = (reply scenario, flavour, delivery). Scenarios: bind_ack with secondary address length 0..7, 1-2 contexts, "
            "with/without auth token; alter_context_resp with token; response with stub 0..5000 (clear and sealed); fault. "
            "Delivery: every partition into <=3 chunks (every pair of cut offsets) for replies <=256 bytes, all single cuts and "
            "header x body cuts for larger ones, PRNG finer partitions, EOF / RST at every byte offset (prefix whole and bytewise), "
            "stall; the same on a socket whose descriptor number lies above FD_SETSIZE (a process holding > 1000 descriptors); end of stream right after the complete previous message, i.e. before the client writes its next PDU (must end with an error, not spin or block); pairs of async connections in flight at once with every reply cut at the header boundary. Non-trivial = the delivery differs from one-piece (>=1 cut or an injected end); distinct = distinct "
            "(scenario, flavour, delivery) tuple.")
    components = {"client": "real (SyncRpcClient, AsyncRpcClient, asyncio.streams, PDU codecs)", "peer": "model (ref.rpce RpcServer)",
                  "security context": "stub (StubCtx) where auth is on", "transport": "simulated (SimSocket / SimTransport on SimLoop)"}
    assumptions = ["TCP delivers bytes in order; segment boundaries and stream end are arbitrary",
                   "a sync read that can never complete is reported as 'blocks' (violation only after EOF/RST, never for a silent open peer)"]
    required_fired = ("seg", "seg_in_header", "eof", "rst", "stall", "pairs", "gap", "clock_jump", "close_right_after_complete_reply", "closed_before_next_request", "descriptor_above_fd_setsize")

    def exhaustive(self, tier):
        return True

    exhaustive_note = ("exhaustive over <=3-chunk partitions and all EOF/RST offsets for the listed reply catalogue within the tier's "
                       "size limit; the PRNG partitions on top are samples")

    def cases(self, tier, seed):
        out = []
        lim3 = 96 if tier == "quick" else 256
        for si, sc in enumerate(SCENARIOS):
            for fl in ("sync", "async", "sync-timeout"):
                try:
                    _o, target = baseline(si, fl)
                except BaselineBroken:
                    out.append([si, fl, "onepiece", 0, 0])
                    continue
                n = len(target)
                if fl == "sync-timeout":
                    # the same client over a caller-supplied socket with a timeout: single cuts and stream ends only
                    for a in range(1, n, 1 if n < 200 else 9):
                        out.append([si, fl, "cuts", a, 0])
                    for k in list(range(0, min(n, 40))) + list(range(40, n, 13)):
                        out.append([si, fl, "eof", k, 0])
                    out.append([si, fl, "stall", min(17, n - 1), 0])
                    continue
                # all single cuts
                for a in range(1, n):
                    out.append([si, fl, "cuts", a, 0])
                if n <= lim3:
                    for a in range(1, n):
                        for b in range(a + 1, n):
                            out.append([si, fl, "cuts", a, b])
                else:
                    hdr = range(1, min(25, n))
                    step = max(1, n // (16 if tier == "quick" else 128))
                    for a in hdr:
                        for b in range(a + 1, n, step):
                            out.append([si, fl, "cuts", a, b])
                # EOF / RST at every offset (sampled stride for big replies in quick)
                stride = 1 if (n <= 512 or tier == "thorough") else 7
                for k in itertools.chain(range(0, min(n, 40)), range(40, n, stride)):
                    out.append([si, fl, "eof", k, 0])
                    if k and (n <= 256 or k % 16 == 1):
                        out.append([si, fl, "eof", k, 1])
                    if k % 3 == 0 or k < 24:
                        out.append([si, fl, "rst", k, 0])
                for k in (0, 1, 15, 16, 17, n - 1):
                    if 0 <= k < n:
                        out.append([si, fl, "stall", k, 0])
                nr = 12 if tier == "quick" else 200
                for r in range(nr):
                    out.append([si, fl, "rand", common_seed(seed, si, r), r % 3])
                out.append([si, fl, "bytewise", 0, 0])
                # time: the second segment arrives after a pause (retransmission, a slow peer), or the wall clock steps while the
                # reply is pending (NTP correction, VM resume); neither changes what a reliable byte stream delivers
                for a in sorted({1, 9, 16, 17, max(1, n // 2), n - 1}):
                    if 0 < a < n:
                        for k, secs in enumerate(GAPS if fl != "sync-timeout" else GAPS[:4]):
                            out.append([si, fl, "gap", a, k])
                        for k in range(4):
                            out.append([si, fl, "clockjump", a, k])
                # the peer sends the complete reply and closes at once (FIN queued behind the data): the reply is as good as any other
                if sc[0] in ("response", "fault") or (sc[0] == "bind" and not sc[1]):
                    for a in sorted({0, 1, 15, 16, 17, max(1, n // 2), n - 1}):
                        if 0 <= a < n:
                            out.append([si, fl, "eofafter", a, 0])
                # a process that already holds more than a thousand descriptors: the connection's socket gets a number above FD_SETSIZE
                # (select() cannot watch it, poll / epoll can); one-piece and single-cut deliveries, stream end
                if fl != "async":
                    for a in (0, 1, 16, max(1, n // 2)):
                        if a < n:
                            out.append([si, fl, "manyfds", a, 0])
                    out.append([si, fl, "manyfds", 17 % n, 1])
                # the peer closes right after the complete PREVIOUS message of the conversation (bind_ack, alter_context_resp): the end of
                # stream is already there when the client writes its next PDU; that exchange must end with an error
                if _target_msg(sc) >= 1:
                    for a in (0, 1, 16):
                        out.append([si, fl, "eofbefore", a, 0])
        # two async connections in flight at once (different replies, cut at / around the header boundary)
        k = 0
        for si in range(len(SCENARIOS)):
            for sj in range(len(SCENARIOS)):
                if si != sj and (tier == "thorough" or (si + 2 * sj) % 5 == 0):
                    for cut in (16, 1, 24):
                        k += 1
                        out.append(["pair", si, sj, cut, k])
        return out

    def run_case(self, case):
        if case[0] == "pair":
            return run_pair(case)
        si, fl, mode, a, b = case
        sc = SCENARIOS[si]
        try:
            base, target = baseline(si, fl)
        except BaselineBroken as e:
            return {"viol": common.violation("C14", "reassembly", fl, "one-piece-delivery", "", sc[0], str(e)), "digest": "baseline-broken", "key": common.key_hash(case),
                    "fired": {}, "probes": {}, "vtime_ns": 0}
        if mode == "onepiece":
            return {"viol": None, "digest": "onepiece-ok", "key": None, "fired": {}, "probes": {}, "vtime_ns": 0}
        tm = _target_msg(sc)
        n = len(target)
        if mode == "cuts":
            d = {"mode": "cuts", "cuts": {str(tm): [a] + ([b] if b else [])}}
        elif mode == "bytewise":
            d = {"mode": "cuts", "cuts": {str(tm): list(range(1, n))}}
        elif mode == "rand":
            d = {"mode": "rand", "seed": a, "bias": ("small", "header", "geo")[b]}
        elif mode == "gap":
            d = {"mode": "cuts", "cuts": {str(tm): [a]}, "gaps": [[tm, 1, GAPS[b]]] + ([[tm, 0, 0.2]] if b % 2 else [])}
        elif mode == "clockjump":
            d = {"mode": "cuts", "cuts": {str(tm): [a]}, "clock_jumps": [[tm, 1, (61.0, 3600.0, -3600.0, 86400.0 * 400)[b]]] + ([[tm, 0, 75.0]] if b == 0 else [])}
        elif mode == "eofafter":
            d = {"eof_at": [tm, n]}
            if a:
                d.update({"mode": "cuts", "cuts": {str(tm): [a]}})
        elif mode == "manyfds":
            d = {"fd_base": 1100}
            if a:
                d.update({"mode": "cuts", "cuts": {str(tm): [a]}})
            if b:
                d["eof_at"] = [tm, a]
        elif mode == "eofbefore":
            d = {"eof_at": [tm - 1, 1 << 30]}
            if a:
                d.update({"mode": "cuts", "cuts": {str(tm - 1): [a]}})
        elif mode in ("eof", "rst", "stall"):
            d = {mode + "_at": [tm, a]}
            if b:
                d.update({"mode": "cuts", "cuts": {str(tm): list(range(1, a))}})
        else:
            raise ValueError(mode)
        out, world, target2 = _execute(sc, fl, d, seed=a)
        viol = None
        if target2 is not None and target2 != target and mode != "eofbefore":
            raise common.HarnessError("peer reply differs between baseline and run (harness nondeterminism)")
        probes = {}
        if mode in ("gap", "clockjump"):
            probes["pause_between_segments" if mode == "gap" else "wall_clock_step_while_pending"] = 1
        if mode == "eofafter":
            probes["close_right_after_complete_reply"] = 1
        if mode == "manyfds":
            probes["descriptor_above_fd_setsize"] = 1
            if b:
                if out.kind != "raise" or isinstance(out.exc, ValueError) and "filedescriptor" in str(out.exc):
                    kind, frame = drive.exc_sig(out)
                    viol = common.violation("C14", "stream-end", fl, kind if out.kind != "ok" else "returned", frame, "descriptor-above-fd-setsize",
                                            f"scenario={sc} eof after {a}/{n} bytes on a socket whose descriptor is 1100: outcome {out.brief()} {out.exc!r}")
            elif not out.same_as(base):
                kind, frame = drive.exc_sig(out)
                viol = common.violation("C14", "reassembly", fl, kind, frame, "descriptor-above-fd-setsize",
                                        f"scenario={sc} delivery={d}: one-piece outcome {base.brief()} but got {out.brief()} {out.exc!r} (the socket's descriptor number is 1100)")
        elif mode in ("cuts", "bytewise", "rand", "gap", "clockjump", "eofafter"):
            if not out.same_as(base):
                kind, frame = drive.exc_sig(out)
                cond = ("pause-" if mode == "gap" else "clock-step-" if mode == "clockjump" else "closed-after-" if mode == "eofafter" else "") + ("header-split" if world.stats.get("seg_in_header") else "body-split")
                viol = common.violation("C14", "reassembly", fl, kind, frame, cond,
                                        f"scenario={sc} delivery={d}: one-piece outcome {base.brief()} but got {out.brief()} {out.exc!r}")
        elif mode == "eofbefore":
            probes["closed_before_next_request"] = 1
            if out.kind != "raise":
                kind, frame = drive.exc_sig(out)
                viol = common.violation("C14", "stream-end", fl, kind if out.kind != "ok" else "returned", frame, "eof-before-request",
                                        f"scenario={sc}: the peer closed after message {tm - 1} of the conversation, before the client wrote its next PDU: outcome {out.brief()} {out.exc!r}")
        elif mode in ("eof", "rst"):
            cond = f"{mode}-in-header" if a < 16 else f"{mode}-in-body"
            probes[cond] = 1
            if out.kind != "raise":
                kind, frame = drive.exc_sig(out)
                viol = common.violation("C14", "stream-end", fl, kind if out.kind != "ok" else "returned", frame, cond,
                                        f"scenario={sc} {mode} after {a}/{n} bytes of the reply: outcome {out.brief()} {out.exc!r}")
        else:  # stall: blocking is legitimate, never flagged
            probes["stall_" + out.brief().split(":")[0]] = 1
        fired = {k: v for k, v in world.stats.items() if k in ("seg", "seg_in_header", "eof", "rst", "stall", "reads_after_eof", "gap", "clock_jump")}
        return {"viol": viol, "digest": world.digest() + out.brief(), "key": common.key_hash(case), "fired": fired,
                "probes": probes, "vtime_ns": world.stats.get("vtime_ns", 0)}

    def shrink(self, case):
        if case[0] == "pair":
            return
        si, fl, mode, a, b = case
        # simpler scenario first, then simpler delivery
        for sj in range(si):
            if SCENARIOS[sj][0] == SCENARIOS[si][0]:
                yield [sj, fl, mode, a, b]
        if mode == "cuts" and b:
            yield [si, fl, "cuts", a, 0]
            yield [si, fl, "cuts", b, 0]
        if mode in ("rand", "bytewise"):
            _o, target = baseline(si, fl)
            for k in (1, 8, 15, 16, 17, len(target) - 1):
                yield [si, fl, "cuts", k, 0]
        if mode in ("eof", "rst") and b:
            yield [si, fl, mode, a, 0]

    def sample_repr(self, case, res):
        if case[0] == "pair":
            return {"kind": "pair", "scenarios": [SCENARIOS[case[1]], SCENARIOS[case[2]]], "cut_at_byte": case[3], "seed": case[4]}
        si, fl, mode, a, b = case
        return {"scenario": SCENARIOS[si], "flavour": fl, "delivery": [mode, a, b]}


def common_seed(seed, *labels) -> int:
    from simworld import prng

    return prng.derive(seed, "C14", *labels) & 0xFFFFFFFF


CHECK = C14()
