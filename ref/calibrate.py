"""Calibration gate: the reference models must reproduce the Windows-produced
vectors in /repo/tests/data before any oracle built on them is believed.
Failure is a harness error (exit 2), never a VIOLATION."""
from __future__ import annotations

import base64
import functools
import glob
import json
import os
import sys
import uuid

from . import cms, dtyp, gkdi, rpce

DATA = "/repo/tests/data"


class CalibrationError(Exception):
    pass


def load_vector(name: str):
    d = json.load(open(os.path.join(DATA, name + ".json")))
    rk = cms.RootKey(
        key=base64.b16decode(d["RootKeyData"]),
        root_key_id=uuid.UUID(d["RootKeyId"]),
        hash_name=gkdi.unpack_kdf_params(base64.b16decode(d["KdfParameters"])),
        secret_alg=d["SecretAgreementAlgorithm"],
        secret_params=base64.b16decode(d["SecretAgreementParameters"]),
        private_key_length=d["PrivateKeyLength"],
        public_key_length=d["PublicKeyLength"],
        version=d["Version"],
    )
    return rk, base64.b16decode(d["Data"]), d


VECTOR_NAMES = [
    f"kdf_{h}_{m}" for h in ("sha1", "sha256", "sha384", "sha512") for m in ("nonce", "dh", "ecdh_p256", "ecdh_p384")
]


@functools.lru_cache(maxsize=None)
def run() -> int:
    n = 0
    for name in VECTOR_NAMES:
        rk, blob, d = load_vector(name)
        pt = cms.unprotect(blob, rk)
        if pt != b"\x00":
            raise CalibrationError(f"{name}: reference decrypt gave {pt!r}")
        p = cms.parse_blob(blob)
        # re-encoding the parsed Windows blob must be byte-identical (writer calibration)
        again = cms.build_blob(p["key_identifier_raw"], p["sid"], p["enc_cek"], p["gcm_nonce"], p["enc_content"], p["layout"] == "in_envelope")
        if again != blob:
            raise CalibrationError(f"{name}: reference re-encode differs from Windows bytes")
        if gkdi.pack_key_identifier(p["key_identifier"]) != p["key_identifier_raw"]:
            raise CalibrationError(f"{name}: key identifier re-encode differs")
        if gkdi.pack_kdf_params(rk.hash_name) != base64.b16decode(d["KdfParameters"]):
            raise CalibrationError(f"{name}: KDF parameters re-encode differs")
        n += 1
    d = json.load(open(os.path.join(DATA, "kdf_sha512_ecdh_p384.json")))
    if "Data1" in d:
        rk, _, _ = load_vector("kdf_sha512_ecdh_p384")
        if cms.unprotect(base64.b16decode(d["Data1"]), rk) != b"\x00":
            raise CalibrationError("Data1 vector")
        n += 1
    # seed_key.json: SD layout and a public-key envelope
    sk = json.load(open(os.path.join(DATA, "seed_key.json")))
    sd = base64.b16decode(sk["SecurityDescriptor"])
    parsed = dtyp.parse_sd(sd)
    sid = [s for (_t, m, s) in parsed["dacl"] if m == 3][0]
    if dtyp.target_sd(sid) != sd:
        raise CalibrationError("target SD builder differs from the captured SD")
    if parsed["owner"] != "S-1-5-18" or parsed["group"] != "S-1-5-18" or parsed["dacl"][1] != (0, 2, "S-1-1-0"):
        raise CalibrationError("SD parser")
    curve, kl, x, y = gkdi.unpack_ecdh_key(base64.b16decode(sk["L2Key"]))
    from . import ec

    if curve != "P256" or not ec.on_curve(ec.P256, (x, y)):
        raise CalibrationError("ECDH key in seed_key.json not on P-256 per reference arithmetic")
    n += 1
    # raw structure captures
    env = open(os.path.join(DATA, "group_key_envelope"), "rb").read()
    try:
        env = base64.b16decode(env.strip())
    except Exception:
        pass
    e = gkdi.unpack_envelope(env)
    if gkdi.pack_envelope(e) != env:
        raise CalibrationError("group key envelope re-encode differs")
    n += 1
    for fn, unpack, pack in (
        ("ffc_dh_key", gkdi.unpack_dh_key, lambda v: gkdi.pack_dh_key(*v)),
        ("ffc_dh_parameters", gkdi.unpack_dh_params, lambda v: gkdi.pack_dh_params(*v)),
        ("ecdh_key", gkdi.unpack_ecdh_key, lambda v: gkdi.pack_ecdh_key(v[0], v[2], v[3], v[1])),
    ):
        raw = open(os.path.join(DATA, fn), "rb").read()
        try:
            raw = base64.b16decode(raw.strip())
        except Exception:
            pass
        if pack(unpack(raw)) != raw:
            raise CalibrationError(f"{fn} re-encode differs")
        n += 1
    # interval arithmetic anchor: seed_key.json position is a plausible 2023 date
    # DCE/RPC: the ept_map request bytes quoted in tests/test_epm.py
    expected = bytes.fromhex(
        "0100000000000000" "0000000000000000" "0000000000000000" "0200000000000000" "4b00000000000000"
        "4b00000005001300" "0d605978b94f52df" "118b6d83dcded720" "8501000200000013" "000d045d888aeb1c"
        "c9119fe808002b10" "4860020002000000" "01000b0200000001" "0007020000870100" "0904000000000000"
        "0000000000000000" "0000000000000000" "0000000004000000"
    )
    r = rpce.ndr64_parse_ept_map_request(expected)
    if r["floors"] != rpce.std_tower(rpce.ISD_KEY_IF, rpce.NDR20, 135, 0) or r["max_towers"] != 4 or r["consumed"] != len(expected):
        raise CalibrationError("ept_map request reference decode")
    n += 1
    return n


def main() -> int:
    try:
        n = run()
    except CalibrationError as e:
        print("CALIBRATION FAILED:", e)
        return 2
    print(f"calibration ok: {n} anchors")
    return 0


if __name__ == "__main__":
    sys.exit(main())
