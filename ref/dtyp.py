"""MS-DTYP SID / ACL / self-relative security descriptor: independent builder and
parser, used by the reference DC to evaluate access and by the oracles to know
which SD a SID maps to."""
from __future__ import annotations

import struct
import typing as t


def sid_bytes(sid: str) -> bytes:
    parts = sid.split("-")
    if len(parts) < 4 or parts[0] != "S":
        raise ValueError("bad SID")
    rev, auth = int(parts[1]), int(parts[2])
    subs = [int(x) for x in parts[3:]]
    if not (1 <= len(subs) <= 15) or auth >= 1 << 48 or any(s >= 1 << 32 for s in subs):
        raise ValueError("SID out of range")
    return bytes([rev, len(subs)]) + auth.to_bytes(6, "big") + b"".join(struct.pack("<I", s) for s in subs)


def parse_sid(b: bytes, pos: int = 0) -> t.Tuple[str, int]:
    rev, n = b[pos], b[pos + 1]
    auth = int.from_bytes(b[pos + 2 : pos + 8], "big")
    if pos + 8 + 4 * n > len(b):
        raise ValueError("SID overruns")
    subs = struct.unpack("<%dI" % n, b[pos + 8 : pos + 8 + 4 * n])
    return "S-%d-%d" % (rev, auth) + "".join("-%d" % s for s in subs), 8 + 4 * n


def target_sd(sid: str) -> bytes:
    """The SD MS-GKDI clients build for a SID protection descriptor:
    owner = group = SYSTEM, DACL = [allow sid 0x3, allow Everyone 0x2], order Dacl, Owner, Group."""

    def ace(s: str, mask: int) -> bytes:
        sb = sid_bytes(s)
        return struct.pack("<BBHI", 0, 0, 8 + len(sb), mask) + sb

    aces = ace(sid, 3) + ace("S-1-1-0", 2)
    dacl = struct.pack("<BBHHH", 2, 0, 8 + len(aces), 2, 0) + aces
    system = sid_bytes("S-1-5-18")
    owner_off = 20 + len(dacl)
    group_off = owner_off + len(system)
    return struct.pack("<BBHIIII", 1, 0, 0x8004, owner_off, group_off, 0, 20) + dacl + system + system


def parse_sd(b: bytes) -> dict:
    b = bytes(b)
    if len(b) < 20:
        raise ValueError("SD too short")
    rev, sbz, control, owner_off, group_off, sacl_off, dacl_off = struct.unpack("<BBHIIII", b[:20])
    if rev != 1 or not control & 0x8000:
        raise ValueError("not a self-relative SD")
    out: t.Dict[str, t.Any] = {"control": control, "owner": None, "group": None, "dacl": None}
    if owner_off:
        out["owner"] = parse_sid(b, owner_off)[0]
    if group_off:
        out["group"] = parse_sid(b, group_off)[0]
    if control & 0x0004 and dacl_off:
        arev, _s, asize, acount, _s2 = struct.unpack("<BBHHH", b[dacl_off : dacl_off + 8])
        if dacl_off + asize > len(b):
            raise ValueError("DACL overruns")
        pos = dacl_off + 8
        aces = []
        for _ in range(acount):
            atype, aflags, alen, mask = struct.unpack("<BBHI", b[pos : pos + 8])
            s, used = parse_sid(b, pos + 8)
            if 8 + used != alen:
                raise ValueError("ACE size mismatch")
            aces.append((atype, mask, s))
            pos += alen
        if pos != dacl_off + asize:
            raise ValueError("ACL size mismatch")
        out["dacl"] = aces
    return out


def access_mask(sd: bytes, caller_sids: t.Collection[str]) -> int:
    """Union of the allowed masks granted to any of the caller's SIDs."""
    d = parse_sd(sd)
    mask = 0
    for atype, m, s in d["dacl"] or ():
        if atype == 0 and s in caller_sids:
            mask |= m
    return mask
