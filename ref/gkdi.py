"""Independent MS-GKDI reference: intervals, SP800-108 KDF, L0/L1/L2 chain,
group key pairs, KEK derivation (nonce and public-key mode), and the wire
structures (group key envelope, key identifier, KDF / FFC-DH parameters,
FFC-DH key, ECDH key).  Uses only hashlib/hmac/struct/int arithmetic and
ref.ec; shares no code with dpapi_ng.
"""
from __future__ import annotations

import functools
import hashlib
import hmac
import struct
import typing as t
import uuid

from . import ec

B = 360_000_000_000  # one L2 interval in 100 ns ticks (10 hours)
FILETIME_EPOCH = 116444736000000000

KDS_SERVICE = "KDS service\0".encode("utf-16-le")
KDS_PUBKEY = "KDS public key\0".encode("utf-16-le")
SHA512_NAME = "SHA512\0".encode("utf-16-le")

HASHES = {"SHA1": hashlib.sha1, "SHA256": hashlib.sha256, "SHA384": hashlib.sha384, "SHA512": hashlib.sha512}

# RFC 5114 2.3: 2048-bit MODP group with 256-bit prime order subgroup
RFC5114_P = int(
    "87A8E61DB4B6663CFFBBD19C651959998CEEF608660DD0F25D2CEED4435E3B00E00DF8F1D61957D4FAF7DF4561B2AA30"
    "16C3D91134096FAA3BF4296D830E9A7C209E0C6497517ABD5A8A9D306BCF67ED91F9E6725B4758C022E0B1EF4275BF7B"
    "6C5BFC11D45F9088B941F54EB1E59BB8BC39A0BF12307F5C4FDB70C581B23F76B63ACAE1CAA6B7902D52526735488A0E"
    "F13C6D9A51BFA4AB3AD8347796524D8EF6A167B5A41825D967E144E5140564251CCACB83E6B486F6B3CA3F7971506026"
    "C0B857F689962856DED4010ABD0BE621C3A3960A54E710C375F26375D7014103A4B54330C198AF126116D2276E11715F"
    "693877FAD7EF09CADB094AE91E1A1597",
    16,
)
RFC5114_G = int(
    "3FB32C9B73134D0B2E77506660EDBD484CA7B18F21EF205407F4793A1A0BA12510DBC15077BE463FFF4FED4AAC0BB555"
    "BE3A6C1B0C6B47B1BC3773BF7E8C6F62901228F8C28CBB18A55AE31341000A650196F931C77A57F2DDF463E5E9EC144B"
    "777DE62AAAB8A8628AC376D282D6ED3864E67982428EBC831D14348F6F2F9193B5045AF2767164E1DFC967C1FB3F2E55"
    "A4BD1BFFE83B9C80D052B985D182EA0ADB2A3B7313D3FE14C8484B1E052588B9B7D2BBD2DF016199ECD06E1557CD0915"
    "B3353BBB64E0EC377FD028370DF92B52C7891428CDC67EB6184B523D1DB246C32F63078490F00EF8D647D148D4795451"
    "5E2327CFEF98C582664B4C0F6CC41659",
    16,
)


# ---------------------------------------------------------------- time ----
def interval_of_filetime(ft: int) -> t.Tuple[int, int, int]:
    return (ft // (1024 * B), (ft // (32 * B)) % 32, (ft // B) % 32)


def interval_of_unix_ns(ns: int) -> t.Tuple[int, int, int]:
    return interval_of_filetime(ns // 100 + FILETIME_EPOCH)


def interval_start_filetime(l0: int, l1: int, l2: int) -> int:
    return ((l0 * 32 + l1) * 32 + l2) * B


# ----------------------------------------------------------------- KDF ----
def kdf(hash_name: str, key: bytes, label: bytes, context: bytes, nbytes: int) -> bytes:
    """SP800-108 counter mode, PRF = HMAC, 32-bit counter before the fixed data, 32-bit L (bits)."""
    h = HASHES[hash_name]
    fixed = label + b"\x00" + context + struct.pack(">I", nbytes * 8)
    out = b""
    i = 1
    while len(out) < nbytes:
        out += hmac.new(key, struct.pack(">I", i) + fixed, h).digest()
        i += 1
    return out[:nbytes]


def kdf_context(rkid: uuid.UUID, l0: int, l1: int, l2: int) -> bytes:
    return rkid.bytes_le + struct.pack("<iii", l0, l1, l2)


class Chain:
    """Seed keys of one (root key, SD, L0) as MS-GKDI 3.1.4.1.2 defines them (memoised)."""

    def __init__(self, hash_name: str, root_key: bytes, rkid: uuid.UUID, sd: bytes, l0: int):
        self.hash_name, self.root_key, self.rkid, self.sd, self.l0 = hash_name, root_key, rkid, sd, l0
        self._l1: t.Dict[int, bytes] = {}
        self._l2: t.Dict[t.Tuple[int, int], bytes] = {}
        self.l0_seed = kdf(hash_name, root_key, KDS_SERVICE, kdf_context(rkid, l0, -1, -1), 64)

    def l1_seed(self, l1: int) -> bytes:
        if not 0 <= l1 <= 31:
            raise ValueError("l1 out of range")
        v = self._l1.get(l1)
        if v is None:
            if l1 == 31:
                v = kdf(self.hash_name, self.l0_seed, KDS_SERVICE, kdf_context(self.rkid, self.l0, 31, -1) + self.sd, 64)
            else:
                v = kdf(self.hash_name, self.l1_seed(l1 + 1), KDS_SERVICE, kdf_context(self.rkid, self.l0, l1, -1), 64)
            self._l1[l1] = v
        return v

    def l2_seed(self, l1: int, l2: int) -> bytes:
        if not 0 <= l2 <= 31:
            raise ValueError("l2 out of range")
        v = self._l2.get((l1, l2))
        if v is None:
            if l2 == 31:
                v = kdf(self.hash_name, self.l1_seed(l1), KDS_SERVICE, kdf_context(self.rkid, self.l0, l1, 31), 64)
            else:
                v = kdf(self.hash_name, self.l2_seed(l1, l2 + 1), KDS_SERVICE, kdf_context(self.rkid, self.l0, l1, l2), 64)
            self._l2[(l1, l2)] = v
        return v


# ------------------------------------------------------- group key pair ----
def group_private_key(hash_name: str, l2_seed: bytes, secret_alg: str, private_key_length_bits: int) -> bytes:
    n = (private_key_length_bits + 7) // 8
    return kdf(hash_name, l2_seed, KDS_SERVICE, (secret_alg + "\0").encode("utf-16-le"), n)


def curve_of(secret_alg: str) -> ec.Curve:
    return ec.CURVES[secret_alg.split("_", 1)[1]]


ECDH_HASH = {"P256": "SHA256", "P384": "SHA384", "P521": "SHA512"}
ECDH_MAGIC = {"P256": b"ECK1", "P384": b"ECK3", "P521": b"ECK5"}


def pack_dh_params(key_length: int, p: int, g: int) -> bytes:
    return struct.pack("<I", 12 + 2 * key_length) + b"DHPM" + struct.pack("<I", key_length) + p.to_bytes(key_length, "big") + g.to_bytes(key_length, "big")


def unpack_dh_params(b: bytes) -> t.Tuple[int, int, int]:
    total, magic, kl = struct.unpack("<I4sI", b[:12])
    if magic != b"DHPM" or total != 12 + 2 * kl or len(b) != total:
        raise ValueError("bad FFC DH parameters")
    return kl, int.from_bytes(b[12 : 12 + kl], "big"), int.from_bytes(b[12 + kl : 12 + 2 * kl], "big")


def pack_dh_key(key_length: int, p: int, g: int, y: int) -> bytes:
    return b"DHPB" + struct.pack("<I", key_length) + p.to_bytes(key_length, "big") + g.to_bytes(key_length, "big") + y.to_bytes(key_length, "big")


def unpack_dh_key(b: bytes) -> t.Tuple[int, int, int, int]:
    if b[:4] != b"DHPB":
        raise ValueError("bad FFC DH key magic")
    kl = struct.unpack("<I", b[4:8])[0]
    if len(b) != 8 + 3 * kl:
        raise ValueError("bad FFC DH key length")
    f = [int.from_bytes(b[8 + i * kl : 8 + (i + 1) * kl], "big") for i in range(3)]
    return kl, f[0], f[1], f[2]


def pack_ecdh_key(curve: str, x: int, y: int, key_length: t.Optional[int] = None) -> bytes:
    kl = ec.CURVES[curve].size if key_length is None else key_length
    return ECDH_MAGIC[curve] + struct.pack("<I", kl) + x.to_bytes(kl, "big") + y.to_bytes(kl, "big")


def unpack_ecdh_key(b: bytes) -> t.Tuple[str, int, int, int]:
    curve = {v: k for k, v in ECDH_MAGIC.items()}.get(bytes(b[:4]))
    if curve is None:
        raise ValueError("bad ECDH key magic")
    kl = struct.unpack("<I", b[4:8])[0]
    if len(b) != 8 + 2 * kl:
        raise ValueError("bad ECDH key length")
    return curve, kl, int.from_bytes(b[8 : 8 + kl], "big"), int.from_bytes(b[8 + kl :], "big")


def group_public_key(hash_name: str, l2_seed: bytes, secret_alg: str, secret_params: bytes, private_key_length_bits: int) -> bytes:
    priv = int.from_bytes(group_private_key(hash_name, l2_seed, secret_alg, private_key_length_bits), "big")
    if secret_alg == "DH":
        kl, p, g = unpack_dh_params(secret_params)
        return pack_dh_key(kl, p, g, pow(g, priv, p))
    c = curve_of(secret_alg)
    pt = ec.mul(c, priv)
    assert pt is not None
    return pack_ecdh_key(c.name, pt[0], pt[1])


# ------------------------------------------------------------------ KEK ----
def _kek_from_shared(hash_name: str, z: bytes, concat_hash: str) -> bytes:
    h = HASHES[concat_hash]
    secret = h(b"\x00\x00\x00\x01" + z + SHA512_NAME + KDS_PUBKEY + KDS_SERVICE).digest()
    return kdf(hash_name, secret, KDS_SERVICE, KDS_PUBKEY, 32)


def shared_secret(secret_alg: str, priv: int, peer_public: bytes) -> t.Tuple[bytes, str]:
    """-> (Z at fixed width, hash used by the SP800-56A step)."""
    if secret_alg == "DH":
        kl, p, g, y = unpack_dh_key(peer_public)
        return pow(y, priv, p).to_bytes(kl, "big"), "SHA256"
    c = curve_of(secret_alg)
    curve, kl, x, y = unpack_ecdh_key(peer_public)
    if curve != c.name or not ec.on_curve(c, (x, y)):
        raise ValueError("peer point not on the curve")
    pt = ec.mul(c, priv, (x, y))
    if pt is None:
        raise ValueError("shared point at infinity")
    return pt[0].to_bytes(c.size, "big"), ECDH_HASH[c.name]


def kek_nonce(hash_name: str, l2_seed: bytes, nonce: bytes) -> bytes:
    return kdf(hash_name, l2_seed, KDS_SERVICE, nonce, 32)


def kek_decrypt_side(hash_name: str, l2_seed: bytes, secret_alg: str, private_key_length_bits: int, is_public: bool, key_info: bytes) -> bytes:
    """KEK as the holder of the L2 seed computes it from the blob's key identifier."""
    if not is_public:
        return kek_nonce(hash_name, l2_seed, key_info)
    priv = int.from_bytes(group_private_key(hash_name, l2_seed, secret_alg, private_key_length_bits), "big")
    z, ch = shared_secret(secret_alg, priv, key_info)
    return _kek_from_shared(hash_name, z, ch)


def kek_encrypt_side(hash_name: str, secret_alg: str, group_public: bytes, ephemeral_private: bytes) -> t.Tuple[bytes, bytes]:
    """(KEK, key_info) as a sender holding only the group public key computes them."""
    x = int.from_bytes(ephemeral_private, "big")
    z, ch = shared_secret(secret_alg, x, group_public)
    if secret_alg == "DH":
        kl, p, g, _y = unpack_dh_key(group_public)
        info = pack_dh_key(kl, p, g, pow(g, x, p))
    else:
        c = curve_of(secret_alg)
        pt = ec.mul(c, x)
        assert pt is not None
        _curve, kl, _x, _y = unpack_ecdh_key(group_public)
        info = pack_ecdh_key(c.name, pt[0], pt[1], kl)
    return _kek_from_shared(hash_name, z, ch), info


# ------------------------------------------------------------ structures ----
def _u16z(s: str) -> bytes:
    return (s + "\0").encode("utf-16-le")


def pack_kdf_params(hash_name: str) -> bytes:
    n = _u16z(hash_name)
    return struct.pack("<IIII", 0, 1, len(n), 0) + n


def unpack_kdf_params(b: bytes) -> str:
    a, c, n, d = struct.unpack("<IIII", b[:16])
    if (a, c, d) != (0, 1, 0) or len(b) != 16 + n or n < 2 or n % 2:
        raise ValueError("bad KDF parameters")
    s = b[16:].decode("utf-16-le")
    if not s.endswith("\0"):
        raise ValueError("KDF hash name not terminated")
    return s[:-1]


ENVELOPE_FIELDS = ("version", "flags", "l0", "l1", "l2", "root_key_id", "kdf_alg", "kdf_params", "secret_alg",
                   "secret_params", "private_key_length", "public_key_length", "domain", "forest", "l1_key", "l2_key")


def pack_envelope(e: dict) -> bytes:
    ka, sa, dn, fn = _u16z(e["kdf_alg"]), _u16z(e["secret_alg"]), _u16z(e["domain"]), _u16z(e["forest"])
    dn, fn = e.get("domain_raw", dn), e.get("forest_raw", fn)  # (raw name bytes: only for building damaged envelopes)
    head = struct.pack("<I4sIIII", e["version"], b"KDSK", e["flags"], e["l0"] & 0xFFFFFFFF, e["l1"] & 0xFFFFFFFF, e["l2"] & 0xFFFFFFFF)
    head += e["root_key_id"].bytes_le
    head += struct.pack("<10I", len(ka), len(e["kdf_params"]), len(sa), len(e["secret_params"]), e["private_key_length"],
                        e["public_key_length"], len(e["l1_key"]), len(e["l2_key"]), len(dn), len(fn))
    return head + ka + e["kdf_params"] + sa + e["secret_params"] + dn + fn + e["l1_key"] + e["l2_key"]


def unpack_envelope(b: bytes) -> dict:
    b = bytes(b)
    if len(b) < 80:
        raise ValueError("envelope too short")
    ver, magic, flags, l0, l1, l2 = struct.unpack("<I4sIIII", b[:24])
    if magic != b"KDSK":
        raise ValueError("bad envelope magic")
    rk = uuid.UUID(bytes_le=b[24:40])
    lka, lkp, lsa, lsp, priv, pub, ll1, ll2, ldn, lfn = struct.unpack("<10I", b[40:80])
    pos = 80
    out = []
    for n in (lka, lkp, lsa, lsp, ldn, lfn, ll1, ll2):
        if pos + n > len(b):
            raise ValueError("envelope field overruns")
        out.append(b[pos : pos + n])
        pos += n
    if pos != len(b):
        raise ValueError("trailing bytes in envelope")

    def s(x):
        v = x.decode("utf-16-le")
        if not v.endswith("\0"):
            raise ValueError("string not terminated")
        return v[:-1]

    return {"version": ver, "flags": flags, "l0": l0, "l1": l1, "l2": l2, "root_key_id": rk, "kdf_alg": s(out[0]),
            "kdf_params": out[1], "secret_alg": s(out[2]), "secret_params": out[3], "private_key_length": priv,
            "public_key_length": pub, "domain": s(out[4]), "forest": s(out[5]), "l1_key": out[6], "l2_key": out[7]}


def pack_key_identifier(k: dict) -> bytes:
    dn, fn = _u16z(k["domain"]), _u16z(k["forest"])
    head = struct.pack("<I4sIIII", k["version"], b"KDSK", k["flags"], k["l0"] & 0xFFFFFFFF, k["l1"] & 0xFFFFFFFF, k["l2"] & 0xFFFFFFFF)
    head += k["root_key_id"].bytes_le + struct.pack("<III", len(k["key_info"]), len(dn), len(fn))
    return head + k["key_info"] + dn + fn


def unpack_key_identifier(b: bytes) -> dict:
    b = bytes(b)
    if len(b) < 52:
        raise ValueError("key identifier too short")
    ver, magic, flags, l0, l1, l2 = struct.unpack("<I4sIIII", b[:24])
    if magic != b"KDSK":
        raise ValueError("bad key identifier magic")
    rk = uuid.UUID(bytes_le=b[24:40])
    lki, ldn, lfn = struct.unpack("<III", b[40:52])
    if 52 + lki + ldn + lfn != len(b):
        raise ValueError("key identifier lengths inconsistent")
    ki = b[52 : 52 + lki]
    dn = b[52 + lki : 52 + lki + ldn].decode("utf-16-le")
    fn = b[52 + lki + ldn :].decode("utf-16-le")
    if not dn.endswith("\0") or not fn.endswith("\0"):
        raise ValueError("string not terminated")
    return {"version": ver, "flags": flags, "l0": l0, "l1": l1, "l2": l2, "root_key_id": rk, "key_info": ki,
            "domain": dn[:-1], "forest": fn[:-1]}
