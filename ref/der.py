"""Strict DER reader (definite minimal lengths, minimal integers, minimal
base-128) and a tiny writer.  Independent of dpapi_ng._asn1."""
from __future__ import annotations

import typing as t


class DerError(Exception):
    pass


class Node(t.NamedTuple):
    cls: int  # 0 universal, 1 application, 2 context, 3 private
    constructed: bool
    tag: int
    start: int  # offset of the identifier octet in the root buffer
    hlen: int  # header length
    length: int  # content length
    content: bytes

    @property
    def end(self) -> int:
        return self.start + self.hlen + self.length


def read_tlv(buf: bytes, pos: int = 0, base: int = 0) -> Node:
    if pos >= len(buf):
        raise DerError("no data")
    first = buf[pos]
    cls, constructed, tag = first >> 6, bool(first & 0x20), first & 0x1F
    p = pos + 1
    if tag == 0x1F:
        tag = 0
        if p >= len(buf) or buf[p] == 0x80:
            raise DerError("non-minimal high tag")
        while True:
            if p >= len(buf):
                raise DerError("truncated tag")
            o = buf[p]
            p += 1
            tag = (tag << 7) | (o & 0x7F)
            if not o & 0x80:
                break
        if tag < 31:
            raise DerError("high tag form for a small tag")
    if p >= len(buf):
        raise DerError("truncated length")
    lo = buf[p]
    p += 1
    if lo < 0x80:
        length = lo
    elif lo == 0x80:
        raise DerError("indefinite length")
    else:
        n = lo & 0x7F
        if p + n > len(buf):
            raise DerError("truncated long length")
        if buf[p] == 0:
            raise DerError("non-minimal length")
        length = int.from_bytes(buf[p : p + n], "big")
        if length < 0x80:
            raise DerError("long form for a short length")
        p += n
    if p + length > len(buf):
        raise DerError("content overruns buffer")
    return Node(cls, constructed, tag, base + pos, p - pos, length, bytes(buf[p : p + length]))


def children(node: Node) -> t.List[Node]:
    out = []
    pos = 0
    base = node.start + node.hlen
    while pos < len(node.content):
        ch = read_tlv(node.content, pos, base)
        out.append(ch)
        pos += ch.hlen + ch.length
    return out


def expect(node: Node, cls: int, tag: int, constructed: bool) -> Node:
    if (node.cls, node.tag, node.constructed) != (cls, tag, constructed):
        raise DerError(f"expected class {cls} tag {tag} constructed={constructed}, got {node.cls}/{node.tag}/{node.constructed}")
    return node


def integer(node: Node) -> int:
    expect(node, 0, 2, False)
    c = node.content
    if not c:
        raise DerError("empty INTEGER")
    if len(c) > 1 and ((c[0] == 0 and not c[1] & 0x80) or (c[0] == 0xFF and c[1] & 0x80)):
        raise DerError("non-minimal INTEGER")
    return int.from_bytes(c, "big", signed=True)


def oid(node: Node) -> str:
    expect(node, 0, 6, False)
    c = node.content
    if not c or c[-1] & 0x80:
        raise DerError("bad OID")
    arcs = []
    v = 0
    start = True
    for o in c:
        if start and o == 0x80:
            raise DerError("non-minimal OID arc")
        start = False
        v = (v << 7) | (o & 0x7F)
        if not o & 0x80:
            arcs.append(v)
            v = 0
            start = True
    first = arcs[0]
    if first < 40:
        head = [0, first]
    elif first < 80:
        head = [1, first - 40]
    else:
        head = [2, first - 80]
    return ".".join(str(a) for a in head + arcs[1:])


# ---- writer -----------------------------------------------------------------
def enc_len(n: int) -> bytes:
    if n < 0x80:
        return bytes([n])
    b = n.to_bytes((n.bit_length() + 7) // 8, "big")
    return bytes([0x80 | len(b)]) + b


def tlv(cls: int, constructed: bool, tag: int, content: bytes) -> bytes:
    assert tag < 31
    return bytes([(cls << 6) | (0x20 if constructed else 0) | tag]) + enc_len(len(content)) + content


def seq(*parts: bytes) -> bytes:
    return tlv(0, True, 16, b"".join(parts))


def set_(*parts: bytes) -> bytes:
    return tlv(0, True, 17, b"".join(parts))


def enc_int(v: int) -> bytes:
    n = max(1, (v.bit_length() + 8) // 8) if v >= 0 else ((v + 1).bit_length() + 8) // 8
    return tlv(0, False, 2, v.to_bytes(n, "big", signed=True))


def enc_oid(s: str) -> bytes:
    arcs = [int(x) for x in s.split(".")]
    vals = [arcs[0] * 40 + arcs[1]] + arcs[2:]
    out = b""
    for v in vals:
        chunk = [v & 0x7F]
        v >>= 7
        while v:
            chunk.append(0x80 | (v & 0x7F))
            v >>= 7
        out += bytes(reversed(chunk))
    return tlv(0, False, 6, out)


def octets(b: bytes) -> bytes:
    return tlv(0, False, 4, b)


def utf8(s: str) -> bytes:
    return tlv(0, False, 12, s.encode("utf-8"))
