"""Independent DCE/RPC connection-oriented PDU codec (C706 ch.12, MS-RPCE),
NDR64 for GetKey and ept_map, towers, verification trailer, sec_trailer.

Written from the specifications; shares no code with dpapi_ng.  PDUs are plain
dicts.  ``parse_pdu`` is strict about lengths so that it can serve as the
"independent receiver" of the properties.
"""
from __future__ import annotations

import struct
import typing as t
import uuid

REQUEST, RESPONSE, FAULT = 0, 2, 3
BIND, BIND_ACK, BIND_NAK, ALTER_CONTEXT, ALTER_CONTEXT_RESP = 11, 12, 13, 14, 15
PTYPE_NAMES = {0: "request", 2: "response", 3: "fault", 11: "bind", 12: "bind_ack", 13: "bind_nak",
               14: "alter_context", 15: "alter_context_resp"}

PFC_FIRST, PFC_LAST, PFC_HDR_SIGN, PFC_OBJECT = 0x01, 0x02, 0x04, 0x80
DREP_LE = b"\x10\x00\x00\x00"

NDR20 = (uuid.UUID("8a885d04-1ceb-11c9-9fe8-08002b104860"), 2, 0)
NDR64 = (uuid.UUID("71710533-beba-4937-8319-b5dbef9ccc36"), 1, 0)
EPM_IF = (uuid.UUID("e1af8308-5d1f-11c9-91a4-08002b14a0fa"), 3, 0)
ISD_KEY_IF = (uuid.UUID("b9785960-524f-11df-8b6d-83dcded72085"), 1, 0)
BTFN_PREFIX = bytes.fromhex("2c1cb76c12984045")  # bind time feature negotiation uuid prefix (bytes_le)

VT_SIGNATURE = bytes.fromhex("8ae3137102f43671")
VT_BITMASK, VT_PCONTEXT, VT_HEADER2 = 1, 2, 3
VT_END, VT_MUST = 0x4000, 0x8000

AUTH_WINNT, AUTH_NEGOTIATE, AUTH_KERBEROS = 0x0A, 0x09, 0x10
LEVEL_PRIVACY = 6


class WireError(Exception):
    pass


def syntax_bytes(s) -> bytes:
    u, major, minor = s
    return u.bytes_le + struct.pack("<HH", major, minor)


def parse_syntax(b: bytes):
    if len(b) != 20:
        raise WireError("syntax id needs 20 bytes")
    major, minor = struct.unpack("<HH", b[16:20])
    return (uuid.UUID(bytes_le=bytes(b[:16])), major, minor)


# ---------------------------------------------------------------- header ----
def header(ptype: int, flags: int, frag_len: int, auth_len: int, call_id: int = 1) -> bytes:
    return struct.pack("<BBBB4sHHI", 5, 0, ptype, flags, DREP_LE, frag_len, auth_len, call_id)


def sec_trailer(auth_type: int, level: int, pad_len: int, ctx_id: int, value: bytes, reserved: int = 0) -> bytes:
    return struct.pack("<BBBBI", auth_type, level, pad_len, reserved & 0xFF, ctx_id) + value


def _finish(ptype: int, flags: int, body: bytes, auth: t.Optional[dict], call_id: int = 1) -> bytes:
    """Append the auth verifier (body must already be 4-aligned) and fill lengths."""
    auth_b = b""
    auth_len = 0
    if auth is not None:
        auth_len = len(auth["value"])
        auth_b = sec_trailer(auth["type"], auth["level"], auth.get("pad", 0), auth.get("ctx", 0), auth["value"], auth.get("reserved", 0))
    total = 16 + len(body) + len(auth_b)
    return header(ptype, flags, total, auth_len, call_id) + body + auth_b


# ---------------------------------------------------------------- builders ----
def build_bind_ack(
    results: t.Sequence[t.Tuple[int, int, t.Any]],
    *,
    ptype: int = BIND_ACK,
    flags: int = PFC_FIRST | PFC_LAST,
    sec_addr: str = "",
    max_xmit: int = 5840,
    max_recv: int = 5840,
    assoc: int = 0x1234,
    auth: t.Optional[dict] = None,
    call_id: int = 1,
    n_results_override: t.Optional[int] = None,
) -> bytes:
    """results: (result, reason, transfer syntax tuple or None)."""
    sa = (sec_addr.encode("ascii") + b"\x00") if sec_addr else b""
    body = struct.pack("<HHIH", max_xmit, max_recv, assoc, len(sa)) + sa
    body += b"\x00" * (-len(body) % 4)
    n = len(results) if n_results_override is None else n_results_override
    body += struct.pack("<BBH", n & 0xFF, 0, 0)
    for res, reason, syn in results:
        body += struct.pack("<HH", res, reason)
        body += syntax_bytes(syn) if syn is not None else b"\x00" * 20
    return _finish(ptype, flags, body, auth, call_id)


def build_bind(
    contexts: t.Sequence[t.Tuple[int, t.Any, t.Sequence[t.Any]]],
    *,
    ptype: int = BIND,
    flags: int = PFC_FIRST | PFC_LAST,
    max_xmit: int = 5840,
    max_recv: int = 5840,
    assoc: int = 0,
    auth: t.Optional[dict] = None,
    call_id: int = 1,
) -> bytes:
    body = struct.pack("<HHI", max_xmit, max_recv, assoc)
    body += struct.pack("<BBH", len(contexts), 0, 0)
    for cid, abstract, transfers in contexts:
        body += struct.pack("<HBB", cid, len(transfers), 0) + syntax_bytes(abstract)
        for tr in transfers:
            body += syntax_bytes(tr)
    return _finish(ptype, flags, body, auth, call_id)


def build_bind_nak(reason: int = 0, versions=((5, 0),), call_id: int = 1) -> bytes:
    body = struct.pack("<HB", reason, len(versions)) + b"".join(struct.pack("BB", a, b) for a, b in versions)
    body += b"\x00" * (-len(body) % 4)
    return _finish(BIND_NAK, PFC_FIRST | PFC_LAST, body, None, call_id)


def build_fault(status: int, *, ctx_id: int = 0, stub: bytes = b"", flags: int = PFC_FIRST | PFC_LAST, call_id: int = 1) -> bytes:
    body = struct.pack("<IHBBII", len(stub), ctx_id, 0, 0, status, 0) + stub
    return _finish(FAULT, flags, body, None, call_id)


def build_response(
    stub: bytes,
    *,
    ctx_id: int = 0,
    flags: int = PFC_FIRST | PFC_LAST,
    auth: t.Optional[dict] = None,
    call_id: int = 1,
    alloc_hint: t.Optional[int] = None,
    cancel_count: int = 0,
) -> bytes:
    """stub must already include auth padding when auth is given."""
    body = struct.pack("<IHBB", len(stub) if alloc_hint is None else alloc_hint, ctx_id, cancel_count, 0) + stub
    return _finish(RESPONSE, flags, body, auth, call_id)


def build_request(
    stub: bytes,
    *,
    ctx_id: int = 0,
    opnum: int = 0,
    obj: t.Optional[uuid.UUID] = None,
    flags: int = PFC_FIRST | PFC_LAST,
    auth: t.Optional[dict] = None,
    call_id: int = 1,
) -> bytes:
    if obj is not None:
        flags |= PFC_OBJECT
    body = struct.pack("<IHH", len(stub), ctx_id, opnum) + (obj.bytes_le if obj else b"") + stub
    return _finish(REQUEST, flags, body, auth, call_id)


# ---------------------------------------------------------------- parser ----
def parse_header(b: bytes) -> dict:
    if len(b) < 16:
        raise WireError("short header")
    ver, vmin, ptype, flags, drep, frag, alen, call = struct.unpack("<BBBB4sHHI", b[:16])
    return {"ver": ver, "ver_minor": vmin, "ptype": ptype, "flags": flags, "drep": drep, "frag_len": frag,
            "auth_len": alen, "call_id": call}


def parse_pdu(b: bytes) -> dict:
    """Strict parse of exactly one PDU."""
    b = bytes(b)
    h = parse_header(b)
    if h["ver"] != 5 or h["ver_minor"] not in (0, 1):
        raise WireError("bad version")
    if h["drep"] != DREP_LE:
        raise WireError("unexpected data representation")
    if h["frag_len"] != len(b):
        raise WireError(f"frag_len {h['frag_len']} != actual {len(b)}")
    pdu = dict(h)
    pdu["name"] = PTYPE_NAMES.get(h["ptype"], str(h["ptype"]))
    end = len(b)
    pdu["auth"] = None
    if h["auth_len"]:
        off = end - h["auth_len"] - 8
        if off < 16:
            raise WireError("auth_len too large")
        at, lvl, pad, rsv, cid = struct.unpack("<BBBBI", b[off : off + 8])
        pdu["auth"] = {"type": at, "level": lvl, "pad": pad, "reserved": rsv, "ctx": cid, "value": b[off + 8 :], "offset": off}
        end = off
    body = b[16:end]
    pt = h["ptype"]
    if pt in (BIND, ALTER_CONTEXT):
        if len(body) < 12:
            raise WireError("short bind")
        pdu["max_xmit"], pdu["max_recv"], pdu["assoc"] = struct.unpack("<HHI", body[:8])
        n = body[8]
        pos = 12
        ctxs = []
        for _ in range(n):
            if pos + 24 > len(body):
                raise WireError("context list overruns")
            cid, ntr, _r = struct.unpack("<HBB", body[pos : pos + 4])
            abstract = parse_syntax(body[pos + 4 : pos + 24])
            pos += 24
            trs = []
            for _ in range(ntr):
                if pos + 20 > len(body):
                    raise WireError("transfer syntaxes overrun")
                trs.append(parse_syntax(body[pos : pos + 20]))
                pos += 20
            ctxs.append((cid, abstract, trs))
        pdu["contexts"] = ctxs
        pdu["body_rest"] = body[pos:]
        if pdu["body_rest"].strip(b"\x00"):
            raise WireError("garbage after context list")
    elif pt in (BIND_ACK, ALTER_CONTEXT_RESP):
        pdu["max_xmit"], pdu["max_recv"], pdu["assoc"], salen = struct.unpack("<HHIH", body[:10])
        sa = body[10 : 10 + salen]
        pdu["sec_addr"] = sa[:-1].decode("ascii") if sa else ""
        pos = 10 + salen
        pos += -pos % 4
        n = body[pos]
        pos += 4
        res = []
        for _ in range(n):
            if pos + 24 > len(body):
                raise WireError("result list overruns")
            r, reason = struct.unpack("<HH", body[pos : pos + 4])
            res.append((r, reason, parse_syntax(body[pos + 4 : pos + 24])))
            pos += 24
        pdu["results"] = res
    elif pt == BIND_NAK:
        pdu["reason"] = struct.unpack("<H", body[:2])[0]
        n = body[2] if len(body) > 2 else 0
        pdu["versions"] = [(body[3 + 2 * i], body[4 + 2 * i]) for i in range(n)]
    elif pt == REQUEST:
        if len(body) < 8:
            raise WireError("short request")
        pdu["alloc_hint"], pdu["ctx_id"], pdu["opnum"] = struct.unpack("<IHH", body[:8])
        pos = 8
        pdu["obj"] = None
        if h["flags"] & PFC_OBJECT:
            pdu["obj"] = uuid.UUID(bytes_le=body[8:24])
            pos = 24
        pdu["stub"] = body[pos:]
        pdu["stub_offset"] = 16 + pos
    elif pt == RESPONSE:
        pdu["alloc_hint"], pdu["ctx_id"], pdu["cancel_count"], _r = struct.unpack("<IHBB", body[:8])
        pdu["stub"] = body[8:]
        pdu["stub_offset"] = 24
    elif pt == FAULT:
        pdu["alloc_hint"], pdu["ctx_id"], pdu["cancel_count"], pdu["fault_flags"], pdu["status"], _r = struct.unpack(
            "<IHBBII", body[:16]
        )
        pdu["stub"] = body[16:]
    else:
        raise WireError(f"unexpected ptype {pt}")
    return pdu


def split_stream(buf: bytearray) -> t.List[bytes]:
    """Pop complete PDUs (by frag_len) from a stream buffer."""
    out = []
    while len(buf) >= 16:
        frag = struct.unpack("<H", buf[8:10])[0]
        if frag < 16:
            raise WireError("frag_len < 16")
        if len(buf) < frag:
            break
        out.append(bytes(buf[:frag]))
        del buf[:frag]
    return out


# ------------------------------------------------- verification trailer ----
def build_vt(commands: t.Sequence[t.Tuple[int, bytes]]) -> bytes:
    out = VT_SIGNATURE
    for cmd, val in commands:
        out += struct.pack("<HH", cmd, len(val)) + val
    return out


def vt_pcontext(interface, transfer, end: bool = True) -> t.Tuple[int, bytes]:
    return (VT_PCONTEXT | (VT_END if end else 0), syntax_bytes(interface) + syntax_bytes(transfer))


def find_vt(stub_and_trailer: bytes) -> t.Optional[int]:
    """Offset of the verification trailer signature (searched from the end, 4-aligned)."""
    i = stub_and_trailer.rfind(VT_SIGNATURE)
    while i >= 0:
        if i % 4 == 0:
            return i
        i = stub_and_trailer.rfind(VT_SIGNATURE, 0, i)
    return None


def parse_vt(b: bytes) -> t.List[t.Tuple[int, int, bytes]]:
    """-> [(command type, flags, value)], strict: must end with an END command."""
    if b[:8] != VT_SIGNATURE:
        raise WireError("no verification trailer signature")
    pos = 8
    out = []
    while True:
        if pos + 4 > len(b):
            raise WireError("verification trailer without END")
        cmd, ln = struct.unpack("<HH", b[pos : pos + 4])
        if pos + 4 + ln > len(b):
            raise WireError("verification trailer command overruns")
        out.append((cmd & 0x3FFF, cmd & 0xC000, b[pos + 4 : pos + 4 + ln]))
        pos += 4 + ln
        if cmd & VT_END:
            break
    return out


# ----------------------------------------------------------------- NDR64 ----
def ndr64_getkey_request(sd: bytes, root_key_id: t.Optional[uuid.UUID], l0: int, l1: int, l2: int, referent: int = 0x20000) -> bytes:
    out = struct.pack("<I", len(sd)) + b"\x00" * 4  # cbTargetSD, align 8 for the conformance
    out += struct.pack("<Q", len(sd)) + sd  # conformant array
    out += b"\x00" * (-len(out) % 8)  # pointer alignment
    if root_key_id is None:
        out += struct.pack("<Q", 0)
    else:
        out += struct.pack("<Q", referent) + root_key_id.bytes_le
    out += struct.pack("<iii", l0, l1, l2)
    return out


def ndr64_parse_getkey_request(b: bytes) -> dict:
    b = bytes(b)
    if len(b) < 16:
        raise WireError("GetKey stub too short")
    cb = struct.unpack("<I", b[:4])[0]
    maxc = struct.unpack("<Q", b[8:16])[0]
    if maxc != cb:
        raise WireError(f"conformance {maxc} != cbTargetSD {cb}")
    if 16 + cb > len(b):
        raise WireError("SD overruns stub")
    sd = b[16 : 16 + cb]
    pos = 16 + cb
    pos += -pos % 8
    if pos + 8 > len(b):
        raise WireError("no root key pointer")
    ref = struct.unpack("<Q", b[pos : pos + 8])[0]
    pos += 8
    rk = None
    if ref:
        if pos + 16 > len(b):
            raise WireError("GUID overruns")
        rk = uuid.UUID(bytes_le=b[pos : pos + 16])
        pos += 16
    if pos + 12 > len(b):
        raise WireError("L0/L1/L2 overrun")
    l0, l1, l2 = struct.unpack("<iii", b[pos : pos + 12])
    pos += 12
    return {"sd": sd, "root_key_id": rk, "l0": l0, "l1": l1, "l2": l2, "consumed": pos, "referent": ref}


def ndr64_getkey_response(envelope: t.Optional[bytes], hresult: int = 0, referent: int = 0x20000, gap_fill: int = 0) -> bytes:
    """gap_fill: the octet an encoder leaves in NDR alignment gaps (their content is undefined; receivers skip them)."""
    gap = bytes([gap_fill & 0xFF])
    if envelope is None or hresult != 0:
        return struct.pack("<I", 0) + gap * 4 + struct.pack("<Q", 0) + struct.pack("<I", hresult)
    out = struct.pack("<I", len(envelope)) + gap * 4
    out += struct.pack("<QQ", referent, len(envelope)) + envelope
    out += gap * (-len(out) % 4)
    out += struct.pack("<I", hresult)
    return out


def ndr64_parse_getkey_response(b: bytes) -> dict:
    b = bytes(b)
    cb = struct.unpack("<I", b[:4])[0]
    ref = struct.unpack("<Q", b[8:16])[0]
    pos = 16
    env = None
    if ref:
        maxc = struct.unpack("<Q", b[16:24])[0]
        if maxc != cb:
            raise WireError("conformance != pcbOut")
        env = b[24 : 24 + cb]
        if len(env) != cb:
            raise WireError("envelope overruns")
        pos = 24 + cb
        pos += -pos % 4
    hr = struct.unpack("<I", b[pos : pos + 4])[0]
    if pos + 4 != len(b):
        raise WireError("trailing bytes after HRESULT")
    return {"envelope": env, "hresult": hr}


# ------------------------------------------------------------ towers / epm ----
def floor_bytes(proto: int, lhs: bytes, rhs: bytes) -> bytes:
    return struct.pack("<H", 1 + len(lhs)) + bytes([proto]) + lhs + struct.pack("<H", len(rhs)) + rhs


def tower_bytes(floors: t.Sequence[t.Tuple[int, bytes, bytes]]) -> bytes:
    return struct.pack("<H", len(floors)) + b"".join(floor_bytes(*f) for f in floors)


def parse_tower(b: bytes) -> t.List[t.Tuple[int, bytes, bytes]]:
    n = struct.unpack("<H", b[:2])[0]
    pos = 2
    out = []
    for _ in range(n):
        if pos + 2 > len(b):
            raise WireError("floor overruns tower")
        ll = struct.unpack("<H", b[pos : pos + 2])[0]
        if ll < 1 or pos + 2 + ll + 2 > len(b):
            raise WireError("floor lhs overruns tower")
        proto = b[pos + 2]
        lhs = b[pos + 3 : pos + 2 + ll]
        pos += 2 + ll
        rl = struct.unpack("<H", b[pos : pos + 2])[0]
        if pos + 2 + rl > len(b):
            raise WireError("floor rhs overruns tower")
        rhs = b[pos + 2 : pos + 2 + rl]
        pos += 2 + rl
        out.append((proto, lhs, rhs))
    if pos != len(b):
        raise WireError("trailing bytes in tower")
    return out


def std_tower(iface, transfer, port: int, addr: int = 0) -> t.List[t.Tuple[int, bytes, bytes]]:
    return [
        (0x0D, iface[0].bytes_le + struct.pack("<H", iface[1]), struct.pack("<H", iface[2])),
        (0x0D, transfer[0].bytes_le + struct.pack("<H", transfer[1]), struct.pack("<H", transfer[2])),
        (0x0B, b"", struct.pack("<H", 0)),
        (0x07, b"", struct.pack(">H", port)),
        (0x09, b"", struct.pack(">I", addr)),
    ]


def tower_tcp_port(floors) -> t.Optional[int]:
    for proto, lhs, rhs in floors:
        if proto == 0x07:
            return int.from_bytes(rhs, "big")
    return None


def ndr64_parse_ept_map_request(b: bytes) -> dict:
    b = bytes(b)
    pos = 0
    ref1 = struct.unpack("<Q", b[0:8])[0]
    pos = 8
    obj = None
    if ref1:
        obj = uuid.UUID(bytes_le=b[8:24])
        pos = 24
    ref2 = struct.unpack("<Q", b[pos : pos + 8])[0]
    pos += 8
    floors = None
    if ref2:
        maxc = struct.unpack("<Q", b[pos : pos + 8])[0]
        tl = struct.unpack("<I", b[pos + 8 : pos + 12])[0]
        if maxc != tl:
            raise WireError("tower conformance != tower_length")
        tower = b[pos + 12 : pos + 12 + tl]
        if len(tower) != tl:
            raise WireError("tower overruns")
        floors = parse_tower(tower)
        pos += 12 + tl
        pos += -pos % 8  # NDR64: size of a structure is a multiple of its alignment (8, from the conformance)
    handle = b[pos : pos + 20]
    if len(handle) != 20:
        raise WireError("entry handle overruns")
    pos += 20
    if pos + 4 > len(b):
        raise WireError("max_towers overruns")
    max_towers = struct.unpack("<I", b[pos : pos + 4])[0]
    pos += 4
    return {"obj": obj, "floors": floors, "handle": handle, "max_towers": max_towers, "consumed": pos,
            "referents": (ref1, ref2)}


def ndr64_ept_map_response(
    towers: t.Sequence[t.Sequence[t.Tuple[int, bytes, bytes]]],
    status: int = 0,
    *,
    max_count: t.Optional[int] = None,
    handle: bytes = b"\x00" * 20,
    num_towers_override: t.Optional[int] = None,
    actual_override: t.Optional[int] = None,
) -> bytes:
    n = len(towers)
    out = handle + struct.pack("<I", n if num_towers_override is None else num_towers_override)
    out += struct.pack("<QQQ", n if max_count is None else max_count, 0, n if actual_override is None else actual_override)
    for i in range(n):
        out += struct.pack("<Q", 3 + i)
    for tw in towers:
        tb = tower_bytes(tw)
        out += struct.pack("<QI", len(tb), len(tb)) + tb
        out += b"\x00" * (-len(out) % 8)
    out += struct.pack("<I", status)
    return out


def ndr64_parse_ept_map_response(b: bytes) -> dict:
    b = bytes(b)
    handle = b[:20]
    num = struct.unpack("<I", b[20:24])[0]
    maxc, off, actual = struct.unpack("<QQQ", b[24:48])
    pos = 48
    if actual > (len(b) - pos) // 8:
        raise WireError("tower count exceeds data")
    refs = struct.unpack("<%dQ" % actual, b[pos : pos + 8 * actual])
    pos += 8 * actual
    towers = []
    for r in refs:
        if not r:
            towers.append(None)
            continue
        mc = struct.unpack("<Q", b[pos : pos + 8])[0]
        tl = struct.unpack("<I", b[pos + 8 : pos + 12])[0]
        if mc != tl:
            raise WireError("tower conformance mismatch")
        tb = b[pos + 12 : pos + 12 + tl]
        if len(tb) != tl:
            raise WireError("tower overruns")
        towers.append(parse_tower(tb))
        pos += 12 + tl
        pos += -pos % 8
    status = struct.unpack("<I", b[pos : pos + 4])[0]
    if pos + 4 != len(b):
        raise WireError("trailing bytes after status")
    return {"handle": handle, "num_towers": num, "max_count": maxc, "offset": off, "towers": towers, "status": status}
