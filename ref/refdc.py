"""RefDC: a conforming MS-GKDI / endpoint-mapper domain controller model.

Independent codecs (ref.rpce, ref.gkdi, ref.dtyp), independent key derivation,
semantics as in DESIGN Appendix A.  Every decoded request is logged: the log is
an observation point for the oracles.  Byzantine knobs are off by default.
"""
from __future__ import annotations

import typing as t
import uuid

from simworld import peers

from . import cms, dtyp, gkdi, rpce

E_INVALIDARG = 0x80070057
E_ACCESSDENIED = 0x80070005
NTE_NO_KEY = 0x8009000D
EPT_S_NOT_REGISTERED = 0x16C9A0D6


class RefDC:
    def __init__(
        self,
        world,
        root_keys: t.Sequence[cms.RootKey],
        *,
        host: str = "dc01.domain.test",
        gkdi_port: int = 49667,
        caller_sids: t.Collection[str] = (),
        acceptor_factory=None,
        domain: str = "domain.test",
        forest: str = "domain.test",
        skew_ns: int = 0,
        omit_l2_at_31: bool = False,
        rpc_knobs: t.Optional[dict] = None,
        byz: t.Optional[dict] = None,
        epm: t.Optional[dict] = None,
        lib_codecs: bool = False,
    ):
        self.world = world
        self.root_keys = {rk.root_key_id: rk for rk in root_keys}
        self.newest = root_keys[-1].root_key_id if root_keys else None
        self.host = host
        self.gkdi_port = gkdi_port
        self.caller_sids = set(caller_sids)
        self.domain, self.forest = domain, forest
        self.skew_ns = skew_ns
        self.omit_l2_at_31 = omit_l2_at_31
        self.byz = byz or {}
        self.epm_knobs = epm or {}
        self.getkey_log: t.List[dict] = []
        self.epm_log: t.List[dict] = []
        self.violations: t.List[str] = []
        # lib_codecs=True turns this node into "LibDC": the same abstract server, but every byte it reads or writes goes
        # through dpapi_ng's own server-direction pack/unpack code.
        self.lib = lib_codecs
        codec = None
        if lib_codecs:
            from simworld import libcodec as codec
        self.epm_server = peers.RpcServer({rpce.EPM_IF: self._ept_map}, None, dict(rpc_knobs or {}, sec_addr="135"), "epm", codec=codec)
        self.gkdi_server = peers.RpcServer({rpce.ISD_KEY_IF: self._get_key}, acceptor_factory, rpc_knobs, "gkdi", codec=codec)
        world.add_route(host, 135, self.epm_server)
        world.add_route(host, gkdi_port, self.gkdi_server)

    # ---- helpers ----------------------------------------------------------
    def now_position(self) -> t.Tuple[int, int, int]:
        return gkdi.interval_of_unix_ns(self.world.clock.ns + self.skew_ns)

    @property
    def all_violations(self) -> t.List[str]:
        return self.violations + self.epm_server.violations + self.gkdi_server.violations

    def getkey_count(self) -> int:
        return len(self.getkey_log)

    # ---- endpoint mapper --------------------------------------------------
    def _too_many(self, what: str) -> None:
        """A client that never stops asking must not hang a run: past 300 requests of one kind the simulation ends the conversation
        with the outcome 'spin' (net.Spin is a BaseException: it unwinds through the client's own handlers)."""
        from simworld import net

        raise net.Spin(f"the client made more than 300 {what} requests in one run: it keeps asking")

    def _ept_map(self, server, conn, req):
        entry = {"conn": conn.cid, "opnum": req["opnum"], "sealed": req["sealed"]}
        self.epm_log.append(entry)
        if req["opnum"] != 3:
            entry["error"] = "opnum"
            return ("fault", peers.NCA_S_OP_RNG_ERROR)
        try:
            r = self._lib_parse_ept_map(req["stub"]) if self.lib else rpce.ndr64_parse_ept_map_request(req["stub"])
        except Exception as e:  # noqa: BLE001
            entry["error"] = f"undecodable ept_map: {e!r}"
            self.violations.append(entry["error"])
            return ("fault", peers.NCA_S_PROTO_ERROR)
        entry["decoded"] = r
        if r["consumed"] != len(req["stub"]):
            self.violations.append("trailing bytes after ept_map arguments")
        floors = r["floors"] or []
        k = self.epm_knobs
        if "raw_replies" in k:  # one reply per ept_map request, in arrival order (then the last one again)
            lst = k["raw_replies"]
            i = k["_served"] = k.get("_served", -1) + 1
            return ("response", lst[min(i, len(lst) - 1)])
        if "raw_reply" in k:
            return ("response", k["raw_reply"])
        iface = None
        if floors and floors[0][0] == 0x0D and len(floors[0][1]) == 18:
            iface = (uuid.UUID(bytes_le=floors[0][1][:16]), int.from_bytes(floors[0][1][16:18], "little"), int.from_bytes(floors[0][2], "little"))
        entry["iface"] = iface
        has_tcp = any(f[0] == 0x07 for f in floors)
        if iface != rpce.ISD_KEY_IF or not has_tcp or r["max_towers"] < 1:
            return ("response", rpce.ndr64_ept_map_response([], EPT_S_NOT_REGISTERED))
        towers = k.get("towers")
        if towers is None:
            towers = [rpce.std_tower(rpce.ISD_KEY_IF, rpce.NDR20, self.gkdi_port, 0)]
        status = k.get("status", 0)
        sel = towers[: max(r["max_towers"], 0)] if not k.get("ignore_max") else towers
        entry["towers"] = sel
        if self.lib:
            return ("response", self._lib_ept_map_response(sel, status))
        return ("response", rpce.ndr64_ept_map_response(sel, status, max_count=r["max_towers"]))

    # ---- GetKey -------------------------------------------------------------
    def _get_key(self, server, conn, req):
        entry: t.Dict[str, t.Any] = {"conn": conn.cid, "opnum": req["opnum"], "sealed": req["sealed"], "auth_level": req["auth_level"],
                                     "authenticated": req["authenticated"], "ctx_id": req["pdu"]["ctx_id"], "vt": None}
        self.getkey_log.append(entry)
        if len(self.getkey_log) > 300:
            self._too_many("GetKey")
        if req["opnum"] != 0:
            entry["error"] = "opnum"
            return ("fault", peers.NCA_S_OP_RNG_ERROR)
        stub = req["stub"]
        try:
            r = self._lib_parse_getkey(stub) if self.lib else rpce.ndr64_parse_getkey_request(stub)
        except Exception as e:  # noqa: BLE001
            entry["error"] = f"undecodable GetKey: {e!r}"
            self.violations.append(entry["error"])
            return ("fault", peers.NCA_S_PROTO_ERROR)
        entry.update({k: r[k] for k in ("sd", "root_key_id", "l0", "l1", "l2")})
        entry["args_bytes"] = stub[: r["consumed"]]
        rest_off = r["consumed"] + (-r["consumed"] % 4)
        rest = stub[rest_off:]
        entry["pad_after_args"] = stub[r["consumed"] : rest_off]
        if rest:
            try:
                entry["vt"] = self._lib_parse_vt(rest) if self.lib else rpce.parse_vt(rest)
                entry["vt_raw"] = rest
            except Exception as e:  # noqa: BLE001
                entry["vt_error"] = repr(e)
        # transport rules (MS-GKDI 2.1 / 3.1.4: RPC_C_AUTHN_LEVEL_PKT_PRIVACY) and interface verification
        vt_ok = bool(entry["vt"]) and any(
            c == rpce.VT_PCONTEXT and v == rpce.syntax_bytes(rpce.ISD_KEY_IF) + rpce.syntax_bytes(rpce.NDR64) for c, _f, v in entry["vt"]
        )
        entry["vt_ok"] = vt_ok
        if not req["sealed"] or not req["authenticated"]:
            self.violations.append("GetKey not sealed at PKT_PRIVACY")
            return ("fault", peers.ERROR_ACCESS_DENIED)
        if not vt_ok:
            self.violations.append("GetKey without the interface verification trailer")
            return ("fault", peers.ERROR_ACCESS_DENIED)
        hr, env = self.answer(r["sd"], r["root_key_id"], r["l0"], r["l1"], r["l2"], entry)
        entry["hresult"] = hr
        if self.lib and env is not None:
            env = self._lib_pack_envelope(entry["envelope_fields"])
        entry["envelope"] = env
        return ("response", rpce.ndr64_getkey_response(env, hr, gap_fill=int(self.byz.get("ndr_gap_fill", 0))))

    # ---- LibDC: dpapi_ng's own codecs in the server role ----------------------------
    @staticmethod
    def _lib_parse_ept_map(stub: bytes) -> dict:
        from dpapi_ng import _epm

        m = _epm.EptMap.unpack(stub)
        floors = [(int(f.protocol), bytes(f.lhs), bytes(f.rhs)) for f in m.tower]
        tb = rpce.tower_bytes(floors)
        consumed = 8 + 16 + 8 + 8 + 4 + len(tb)
        consumed += -consumed % 8
        return {"obj": m.obj, "floors": floors, "handle": b"\x00" * 20 if m.entry_handle is None else b"?", "max_towers": m.max_towers,
                "consumed": consumed + 24, "referents": (1, 2), "lib_obj": m}

    @staticmethod
    def _lib_ept_map_response(towers, status: int) -> bytes:
        from dpapi_ng import _epm

        lib_towers = [[_epm.Floor.unpack(rpce.floor_bytes(*f)) for f in tw] for tw in towers]
        return _epm.EptMapResult(entry_handle=None, towers=lib_towers, status=status).pack()

    @staticmethod
    def _lib_parse_getkey(stub: bytes) -> dict:
        from dpapi_ng import _gkdi

        g = _gkdi.GetKey.unpack(stub)
        consumed = 16 + len(g.target_sd) + (-len(g.target_sd) % 8) + (24 if g.root_key_id else 8) + 12
        return {"sd": g.target_sd, "root_key_id": g.root_key_id, "l0": g.l0_key_id, "l1": g.l1_key_id, "l2": g.l2_key_id, "consumed": consumed,
                "referent": 1 if g.root_key_id else 0, "lib_obj": g}

    @staticmethod
    def _lib_parse_vt(b: bytes):
        import dpapi_ng._rpc as rpc

        vt = rpc.VerificationTrailer.unpack(b)
        return [(int(c.command), int(c.flags), bytes(c.value)) for c in vt.commands]

    @staticmethod
    def _lib_pack_envelope(e: dict) -> bytes:
        from dpapi_ng import _gkdi

        return _gkdi.GroupKeyEnvelope(version=e["version"], flags=e["flags"], l0=e["l0"], l1=e["l1"], l2=e["l2"], root_key_identifier=e["root_key_id"],
                                      kdf_algorithm=e["kdf_alg"], kdf_parameters=e["kdf_params"], secret_algorithm=e["secret_alg"],
                                      secret_parameters=e["secret_params"], private_key_length=e["private_key_length"],
                                      public_key_length=e["public_key_length"], domain_name=e["domain"], forest_name=e["forest"],
                                      l1_key=e["l1_key"], l2_key=e["l2_key"]).pack()

    def answer(self, sd: bytes, rkid, l0: int, l1: int, l2: int, entry: dict) -> t.Tuple[int, t.Optional[bytes]]:
        now = self.now_position()
        entry["dc_now"] = now
        if (l0, l1, l2) == (-1, -1, -1):
            pos = now
            entry["mode"] = "current"
        else:
            if l0 < 0 or not (0 <= l1 <= 31) or not (0 <= l2 <= 31):
                return E_INVALIDARG, None
            pos = (l0, l1, l2)
            entry["mode"] = "named"
            if pos > now:
                entry["denied"] = "future"
                return E_INVALIDARG, None
        if rkid is None:
            rkid = self.newest
        rk = self.root_keys.get(rkid)
        if rk is None:
            entry["denied"] = "unknown root key"
            return NTE_NO_KEY, None
        try:
            mask = dtyp.access_mask(sd, self.caller_sids | {"S-1-1-0"})
        except Exception:  # noqa: BLE001
            return E_INVALIDARG, None
        entry["mask"] = mask
        if "reply_position" in self.byz:  # Byzantine: answer for another position (optionally only the first n replies)
            self._repositioned = getattr(self, "_repositioned", 0) + 1
            if self.byz.get("reply_position_first_n") is None or self._repositioned <= self.byz["reply_position_first_n"]:
                pos = tuple(self.byz["reply_position"])
        entry["position"] = pos
        chain = cms.chain_for(rk, sd, pos[0])
        base = {"version": 1, "l0": pos[0], "l1": pos[1], "l2": pos[2], "root_key_id": rk.root_key_id,
                "kdf_alg": "SP800_108_CTR_HMAC", "kdf_params": rk.kdf_params, "secret_alg": rk.secret_alg,
                "secret_params": rk.eff_secret_params, "private_key_length": rk.private_key_length,
                "public_key_length": rk.public_key_length, "domain": self.domain, "forest": self.forest}
        if mask & 1 and mask & 2:
            entry["kind"] = "seed"
            _l0, a, b = pos
            if b == 31:
                l1_key = chain.l1_seed(a)
            elif a > 0:
                l1_key = chain.l1_seed(a - 1)
            else:
                l1_key = b""
            l2_key = chain.l2_seed(a, b)
            if b == 31 and self.omit_l2_at_31:
                l2_key = b""
                entry["l2_omitted"] = True
            env = dict(base, flags=2, l1_key=l1_key, l2_key=l2_key)
        elif mask & 2:
            entry["kind"] = "public"
            pub = gkdi.group_public_key(rk.hash_name, chain.l2_seed(pos[1], pos[2]), rk.secret_alg, rk.eff_secret_params, rk.private_key_length)
            if rk.secret_alg == "DH" and self.byz.get("dh_pub_key_length"):
                # the same public value in a key blob whose fixed-width fields are padded wider than those of the group's
                # msKds-SecretAgreementParam (two encodings of one group; the key blob's width sizes the shared secret)
                _kl, p_, g_, y_ = gkdi.unpack_dh_key(pub)
                pub = gkdi.pack_dh_key(int(self.byz["dh_pub_key_length"]), p_, g_, y_)
            if rk.secret_alg != "DH" and self.byz.get("ecdh_pub_pad"):
                # the same point in a key blob whose coordinates are padded wider than the curve needs (fixed-width fields, leading zeros)
                c_, kl_, x_, y_ = gkdi.unpack_ecdh_key(pub)
                pub = gkdi.pack_ecdh_key(c_, x_, y_, kl_ + int(self.byz["ecdh_pub_pad"]))
            env = dict(base, flags=3, l1_key=b"", l2_key=pub)
        else:
            entry["denied"] = "access"
            return E_ACCESSDENIED, None
        if "envelope_override" in self.byz:  # boundary values a misbehaving (or future) server could put in the fields
            n_first = self.byz.get("override_first_n")
            self._overridden = getattr(self, "_overridden", 0) + 1
            if n_first is None or self._overridden <= n_first:  # (optionally only the first n replies are damaged)
                env = dict(env, **self.byz["envelope_override"])
        entry["envelope_fields"] = env
        return 0, gkdi.pack_envelope(env)
