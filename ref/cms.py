"""Independent encoder/decoder for the DPAPI-NG ContentInfo/EnvelopedData
profile, plus reference protect/unprotect (AES-KW and AES-GCM primitives come
from `cryptography`, the trusted base shared with the library)."""
from __future__ import annotations

import typing as t
import uuid

from cryptography.hazmat.primitives import keywrap
from cryptography.hazmat.primitives.ciphers.aead import AESGCM

from . import der, dtyp, gkdi

OID_ENVELOPED = "1.2.840.113549.1.7.3"
OID_DATA = "1.2.840.113549.1.7.1"
OID_MS_SOFTWARE = "1.3.6.1.4.1.311.74.1"
OID_SID_DESCRIPTOR = "1.3.6.1.4.1.311.74.1.1"
OID_AES256_WRAP = "2.16.840.1.101.3.4.1.45"
OID_AES256_GCM = "2.16.840.1.101.3.4.1.46"


class CmsError(Exception):
    pass


def parse_blob(data: bytes) -> dict:
    """Strict parse.  Returns field values and a map name -> (start, end) byte
    offsets of each field's *content* in ``data``."""
    data = bytes(data)
    try:
        return _parse(data)
    except (der.DerError, IndexError, ValueError, UnicodeDecodeError) as e:
        raise CmsError(str(e)) from e


def _parse(data: bytes) -> dict:
    off: t.Dict[str, t.Tuple[int, int]] = {}

    def span(name: str, n: der.Node):
        off[name] = (n.start + n.hlen, n.end)

    ci = der.expect(der.read_tlv(data), 0, 16, True)
    trailing = data[ci.end :]
    c = der.children(ci)
    if len(c) != 2 or der.oid(c[0]) != OID_ENVELOPED:
        raise CmsError("not an EnvelopedData ContentInfo")
    span("ci.oid", c[0])
    wrap = der.expect(c[1], 2, 0, True)
    w = der.children(wrap)
    if len(w) != 1:
        raise CmsError("content [0] must hold one value")
    ed = der.children(der.expect(w[0], 0, 16, True))
    if len(ed) != 3:
        raise CmsError("EnvelopedData must have version, recipientInfos, encryptedContentInfo")
    if der.integer(ed[0]) != 2:
        raise CmsError("EnvelopedData version != 2")
    span("ed.version", ed[0])
    ris = der.children(der.expect(ed[1], 0, 17, True))
    if len(ris) != 1:
        raise CmsError("exactly one RecipientInfo expected")
    kekri = der.children(der.expect(ris[0], 2, 2, True))
    if len(kekri) != 4 or der.integer(kekri[0]) != 4:
        raise CmsError("KEKRecipientInfo version 4 expected")
    span("kekri.version", kekri[0])
    kekid = der.children(der.expect(kekri[1], 0, 16, True))
    if len(kekid) != 2:
        raise CmsError("KEKIdentifier: keyIdentifier + other expected")
    kid_node = der.expect(kekid[0], 0, 4, False)
    span("key_identifier", kid_node)
    other = der.children(der.expect(kekid[1], 0, 16, True))
    if len(other) != 2 or der.oid(other[0]) != OID_MS_SOFTWARE:
        raise CmsError("OtherKeyAttribute mismatch")
    span("other.oid", other[0])
    pd = der.children(der.expect(other[1], 0, 16, True))
    if len(pd) != 2 or der.oid(pd[0]) != OID_SID_DESCRIPTOR:
        raise CmsError("protection descriptor type")
    span("pd.oid", pd[0])
    lvl = pd[1]
    for _ in range(3):
        ch = der.children(der.expect(lvl, 0, 16, True))
        if len(ch) != (1 if _ < 2 else 2):
            raise CmsError("protection descriptor nesting")
        lvl = ch[0]
        last = ch
    if der.expect(last[0], 0, 12, False).content != b"SID":
        raise CmsError("descriptor kind")
    sid_node = der.expect(last[1], 0, 12, False)
    span("sid", sid_node)
    kea = der.children(der.expect(kekri[2], 0, 16, True))
    if len(kea) != 1 or der.oid(kea[0]) != OID_AES256_WRAP:
        raise CmsError("key encryption algorithm")
    span("kea.oid", kea[0])
    enc_cek = der.expect(kekri[3], 0, 4, False)
    span("enc_cek", enc_cek)
    eci = der.children(der.expect(ed[2], 0, 16, True))
    if len(eci) not in (2, 3) or der.oid(eci[0]) != OID_DATA:
        raise CmsError("EncryptedContentInfo")
    span("eci.oid", eci[0])
    cea = der.children(der.expect(eci[1], 0, 16, True))
    if len(cea) != 2 or der.oid(cea[0]) != OID_AES256_GCM:
        raise CmsError("content encryption algorithm")
    span("cea.oid", cea[0])
    gp = der.children(der.expect(cea[1], 0, 16, True))
    if len(gp) != 2:
        raise CmsError("GCM parameters")
    nonce = der.expect(gp[0], 0, 4, False)
    span("gcm_nonce", nonce)
    icv = der.integer(gp[1])
    span("gcm_icvlen", gp[1])
    in_env = None
    if len(eci) == 3:
        ec_node = der.expect(eci[2], 2, 0, False)
        in_env = ec_node.content
        span("enc_content", ec_node)
    if in_env:
        enc_content, layout = in_env, "in_envelope"
    else:
        enc_content, layout = trailing, "trailing"
        off["enc_content"] = (ci.end, len(data))
    kid = gkdi.unpack_key_identifier(kid_node.content)
    ks = off["key_identifier"][0]
    for name, a, b in (("kid.version", 0, 4), ("kid.magic", 4, 8), ("kid.flags", 8, 12), ("kid.l0", 12, 16),
                       ("kid.l1", 16, 20), ("kid.l2", 20, 24), ("kid.root_key_id", 24, 40), ("kid.len_key_info", 40, 44),
                       ("kid.len_domain", 44, 48), ("kid.len_forest", 48, 52)):
        off[name] = (ks + a, ks + b)
    off["kid.key_info"] = (ks + 52, ks + 52 + len(kid["key_info"]))
    if kid["flags"] & 1 and len(kid["key_info"]) >= 8:  # public-key mode: key_info is an FFC DH key / ECDH key structure
        off["ki.magic"] = (ks + 52, ks + 56)
        off["ki.key_length"] = (ks + 56, ks + 60)
    return {"key_identifier": kid, "key_identifier_raw": kid_node.content, "sid": sid_node.content.decode("utf-8"),
            "enc_cek": enc_cek.content, "gcm_nonce": nonce.content, "gcm_icvlen": icv, "enc_content": enc_content,
            "layout": layout, "offsets": off, "ci_end": ci.end, "trailing": trailing}


def build_blob(key_identifier: bytes, sid: str, enc_cek: bytes, gcm_nonce: bytes, enc_content: bytes, in_envelope: bool = True,
               cea_raw: t.Optional[bytes] = None, descriptor: t.Optional[t.Tuple[str, str]] = None) -> bytes:
    """cea_raw: a complete replacement for the content-encryption AlgorithmIdentifier (used to build algorithm-substitution faults).
    descriptor: (OID, type string) of another, self-consistent protection descriptor kind (SDDL, LOCAL, KEY_FILE ...) around ``sid``."""
    d_oid, d_type = descriptor or (OID_SID_DESCRIPTOR, "SID")
    pd = der.seq(der.enc_oid(d_oid), der.seq(der.seq(der.seq(der.utf8(d_type), der.utf8(sid)))))
    kekid = der.seq(der.octets(key_identifier), der.seq(der.enc_oid(OID_MS_SOFTWARE), pd))
    kekri = der.tlv(2, True, 2, der.enc_int(4) + kekid + der.seq(der.enc_oid(OID_AES256_WRAP)) + der.octets(enc_cek))
    cea = cea_raw if cea_raw is not None else der.seq(der.enc_oid(OID_AES256_GCM), der.seq(der.octets(gcm_nonce), der.enc_int(16)))
    eci = der.seq(der.enc_oid(OID_DATA), cea, der.tlv(2, False, 0, enc_content) if (in_envelope and enc_content) else b"")
    ed = der.seq(der.enc_int(2), der.set_(kekri), eci)
    ci = der.seq(der.enc_oid(OID_ENVELOPED), der.tlv(2, True, 0, ed))
    return ci + (b"" if in_envelope else enc_content)


class RootKey(t.NamedTuple):
    key: bytes
    root_key_id: uuid.UUID
    hash_name: str = "SHA512"
    secret_alg: str = "DH"
    secret_params: bytes = b""
    private_key_length: int = 512
    public_key_length: int = 2048
    version: int = 1

    @property
    def kdf_params(self) -> bytes:
        return gkdi.pack_kdf_params(self.hash_name)

    @property
    def eff_secret_params(self) -> bytes:
        if self.secret_alg == "DH" and not self.secret_params:
            return gkdi.pack_dh_params(256, gkdi.RFC5114_P, gkdi.RFC5114_G)
        return self.secret_params


_chains: t.Dict[tuple, gkdi.Chain] = {}


def chain_for(rk: RootKey, sd: bytes, l0: int) -> gkdi.Chain:
    key = (rk.key, rk.root_key_id, rk.hash_name, sd, l0)
    c = _chains.get(key)
    if c is None:
        if len(_chains) > 256:
            _chains.clear()
        c = _chains[key] = gkdi.Chain(rk.hash_name, rk.key, rk.root_key_id, sd, l0)
    return c


def kek_for_blob(parsed: dict, rk: RootKey) -> bytes:
    kid = parsed["key_identifier"]
    if kid["root_key_id"] != rk.root_key_id:
        raise CmsError("blob names another root key")
    sd = dtyp.target_sd(parsed["sid"])
    if not (0 <= kid["l1"] <= 31 and 0 <= kid["l2"] <= 31):
        raise CmsError("position out of range")
    l2_seed = chain_for(rk, sd, kid["l0"]).l2_seed(kid["l1"], kid["l2"])
    return gkdi.kek_decrypt_side(rk.hash_name, l2_seed, rk.secret_alg, rk.private_key_length, bool(kid["flags"] & 1), kid["key_info"])


def unprotect(data: bytes, rk: RootKey) -> bytes:
    p = parse_blob(data)
    return unprotect_parsed(p, rk)[0]


def unprotect_parsed(p: dict, rk: RootKey) -> t.Tuple[bytes, bytes, bytes]:
    """-> (plaintext, cek, kek)"""
    kek = kek_for_blob(p, rk)
    cek = keywrap.aes_key_unwrap(kek, p["enc_cek"])
    return AESGCM(cek).decrypt(p["gcm_nonce"], p["enc_content"], None), cek, kek


def protect(
    plaintext: bytes,
    sid: str,
    rk: RootKey,
    pos: t.Tuple[int, int, int],
    *,
    cek: bytes,
    gcm_nonce: bytes,
    key_info_seed: bytes,
    public_key_mode: bool = False,
    in_envelope: bool = True,
    domain: str = "domain.test",
    forest: str = "domain.test",
    flags_extra: int = 0,
) -> bytes:
    """Reference encryptor.  ``key_info_seed``: the 32-byte nonce (nonce mode) or
    the ephemeral private key bytes (public-key mode)."""
    l0, l1, l2 = pos
    sd = dtyp.target_sd(sid)
    l2_seed = chain_for(rk, sd, l0).l2_seed(l1, l2)
    if public_key_mode:
        pub = gkdi.group_public_key(rk.hash_name, l2_seed, rk.secret_alg, rk.eff_secret_params, rk.private_key_length)
        kek, key_info = gkdi.kek_encrypt_side(rk.hash_name, rk.secret_alg, pub, key_info_seed)
        flags = 1
    else:
        key_info = key_info_seed
        kek = gkdi.kek_nonce(rk.hash_name, l2_seed, key_info)
        flags = 0
    kid = gkdi.pack_key_identifier({"version": 1, "flags": flags | flags_extra, "l0": l0, "l1": l1, "l2": l2,
                                    "root_key_id": rk.root_key_id, "key_info": key_info, "domain": domain, "forest": forest})
    enc_cek = keywrap.aes_key_wrap(kek, cek)
    enc = AESGCM(cek).encrypt(gcm_nonce, plaintext, None)
    return build_blob(kid, sid, enc_cek, gcm_nonce, enc, in_envelope)


def relayout(data: bytes, in_envelope: bool) -> bytes:
    """Re-pack a blob in the other layout (what LAPS storage does)."""
    p = parse_blob(data)
    return build_blob(p["key_identifier_raw"], p["sid"], p["enc_cek"], p["gcm_nonce"], p["enc_content"], in_envelope)
