"""Textbook short-Weierstrass arithmetic over the NIST prime curves (independent
of the `cryptography` package).  Jacobian coordinates, double-and-add."""
from __future__ import annotations

import typing as t

Curve = t.NamedTuple("Curve", [("name", str), ("p", int), ("a", int), ("b", int), ("gx", int), ("gy", int), ("n", int), ("size", int)])

P256 = Curve(
    "P256",
    0xFFFFFFFF00000001000000000000000000000000FFFFFFFFFFFFFFFFFFFFFFFF,
    -3,
    0x5AC635D8AA3A93E7B3EBBD55769886BC651D06B0CC53B0F63BCE3C3E27D2604B,
    0x6B17D1F2E12C4247F8BCE6E563A440F277037D812DEB33A0F4A13945D898C296,
    0x4FE342E2FE1A7F9B8EE7EB4A7C0F9E162BCE33576B315ECECBB6406837BF51F5,
    0xFFFFFFFF00000000FFFFFFFFFFFFFFFFBCE6FAADA7179E84F3B9CAC2FC632551,
    32,
)
P384 = Curve(
    "P384",
    0xFFFFFFFFFFFFFFFFFFFFFFFFFFFFFFFFFFFFFFFFFFFFFFFFFFFFFFFFFFFFFFFEFFFFFFFF0000000000000000FFFFFFFF,
    -3,
    0xB3312FA7E23EE7E4988E056BE3F82D19181D9C6EFE8141120314088F5013875AC656398D8A2ED19D2A85C8EDD3EC2AEF,
    0xAA87CA22BE8B05378EB1C71EF320AD746E1D3B628BA79B9859F741E082542A385502F25DBF55296C3A545E3872760AB7,
    0x3617DE4A96262C6F5D9E98BF9292DC29F8F41DBD289A147CE9DA3113B5F0B8C00A60B1CE1D7E819D7A431D7C90EA0E5F,
    0xFFFFFFFFFFFFFFFFFFFFFFFFFFFFFFFFFFFFFFFFFFFFFFFFC7634D81F4372DDF581A0DB248B0A77AECEC196ACCC52973,
    48,
)
P521 = Curve(
    "P521",
    (1 << 521) - 1,
    -3,
    0x0051953EB9618E1C9A1F929A21A0B68540EEA2DA725B99B315F3B8B489918EF109E156193951EC7E937B1652C0BD3BB1BF073573DF883D2C34F1EF451FD46B503F00,
    0x00C6858E06B70404E9CD9E3ECB662395B4429C648139053FB521F828AF606B4D3DBAA14B5E77EFE75928FE1DC127A2FFA8DE3348B3C1856A429BF97E7E31C2E5BD66,
    0x011839296A789A3BC0045C8A5FB42C7D1BD998F54449579B446817AFBD17273E662C97EE72995EF42640C550B9013FAD0761353C7086A272C24088BE94769FD16650,
    0x01FFFFFFFFFFFFFFFFFFFFFFFFFFFFFFFFFFFFFFFFFFFFFFFFFFFFFFFFFFFFFFFFFFFFFFFFFFFFFFFFFFFFFFFFFFFFFFFFFFFFFA51868783BF2F966B7FCC0148F709A5D03BB5C9B8899C47AEBB6FB71E91386409,
    66,
)
CURVES = {"P256": P256, "P384": P384, "P521": P521}


def _dbl(c: Curve, P):
    X, Y, Z = P
    if not Y or not Z:
        return (0, 1, 0)
    p = c.p
    YY = Y * Y % p
    S = 4 * X * YY % p
    ZZ = Z * Z % p
    M = (3 * X * X + c.a * ZZ * ZZ) % p
    X3 = (M * M - 2 * S) % p
    Y3 = (M * (S - X3) - 8 * YY * YY) % p
    Z3 = 2 * Y * Z % p
    return (X3, Y3, Z3)


def _add(c: Curve, P, Q):
    if not P[2]:
        return Q
    if not Q[2]:
        return P
    p = c.p
    X1, Y1, Z1 = P
    X2, Y2, Z2 = Q
    Z1Z1 = Z1 * Z1 % p
    Z2Z2 = Z2 * Z2 % p
    U1 = X1 * Z2Z2 % p
    U2 = X2 * Z1Z1 % p
    S1 = Y1 * Z2 * Z2Z2 % p
    S2 = Y2 * Z1 * Z1Z1 % p
    if U1 == U2:
        if S1 != S2:
            return (0, 1, 0)
        return _dbl(c, P)
    H = (U2 - U1) % p
    R = (S2 - S1) % p
    HH = H * H % p
    HHH = H * HH % p
    V = U1 * HH % p
    X3 = (R * R - HHH - 2 * V) % p
    Y3 = (R * (V - X3) - S1 * HHH) % p
    Z3 = H * Z1 * Z2 % p
    return (X3, Y3, Z3)


def mul(c: Curve, k: int, point: t.Optional[t.Tuple[int, int]] = None) -> t.Optional[t.Tuple[int, int]]:
    """k * point (affine in, affine out; None = point at infinity)."""
    if point is None:
        point = (c.gx, c.gy)
    k %= c.n
    if k == 0:
        return None
    acc = (0, 1, 0)
    base = (point[0], point[1], 1)
    for bit in bin(k)[2:]:
        acc = _dbl(c, acc)
        if bit == "1":
            acc = _add(c, acc, base)
    X, Y, Z = acc
    if not Z:
        return None
    zi = pow(Z, -1, c.p)
    zi2 = zi * zi % c.p
    return (X * zi2 % c.p, Y * zi2 * zi % c.p)


def on_curve(c: Curve, pt: t.Tuple[int, int]) -> bool:
    x, y = pt
    return (y * y - (x * x * x + c.a * x + c.b)) % c.p == 0
