"""Simulated TCP: connections are two byte queues; the simulator decides how the
peer's bytes are segmented, when the stream ends, and what an on-path adversary
does to them.

A *peer* is a synchronous state machine with

    on_connect(conn) / on_data(conn, data) / on_client_close(conn)

that answers by calling ``conn.peer_send(bytes)``, ``conn.peer_eof()``,
``conn.peer_rst()``.  The same peers serve the sync flavour (simulated socket,
this file) and the async flavour (in-memory transport under the real
``asyncio.streams``, see loop.py).

Delivery spec (JSON-able, part of the plan / replay file), all keys optional:

    {"mode": "whole" | "bytewise" | "cuts" | "rand",
     "cuts": {"<msg idx>": [offsets...]},        # for mode == cuts
     "seed": int, "bias": "small"|"geo"|"header", # for mode == rand
     "eof_at":   [msg idx, offset],  # deliver only `offset` bytes of that message, then EOF
     "rst_at":   [msg idx, offset],  # ... then ECONNRESET
     "stall_at": [msg idx, offset],  # ... then silence on an open connection
     "gaps":        [[msg idx, chunk idx, seconds], ...],  # virtual time that passes before that segment arrives (chunk 0 = reply delay)
     "clock_jumps": [[msg idx, chunk idx, seconds], ...]}  # the WALL clock steps by that much before that segment arrives (no waiting)

``msg idx`` counts the messages the peer sent on this connection (0 = first).
"""
from __future__ import annotations

import random
import typing as t


def _mark(kind: str) -> None:
    from simworld import threads

    threads.mark(kind)


class Blocks(BaseException):
    """A blocking read was issued that no future event can satisfy."""


class Spin(BaseException):
    """The client keeps reading after EOF was signalled."""


SPIN_LIMIT = 16


def split_chunks(data: bytes, spec: dict, msg_idx: int) -> t.List[bytes]:
    mode = spec.get("mode", "whole")
    n = len(data)
    if n == 0:
        return []
    if mode == "whole":
        return [data]
    if mode == "bytewise":
        return [data[i : i + 1] for i in range(n)]
    if mode == "cuts":
        cuts = spec.get("cuts", {}).get(str(msg_idx))
        if not cuts:
            return [data]
        offs = sorted({c for c in cuts if 0 < c < n})
        out, prev = [], 0
        for c in offs:
            out.append(data[prev:c])
            prev = c
        out.append(data[prev:])
        return out
    if mode == "rand":
        rng = random.Random((spec.get("seed", 0) << 8) ^ msg_idx)
        bias = spec.get("bias", "small")
        out, pos = [], 0
        while pos < n:
            if bias == "small":
                k = rng.choice((1, 1, 2, 3, 5, 8, 13, 64, 1000))
            elif bias == "header":
                k = rng.choice((1, 4, 8, 15, 16, 17, 24, n))
            else:  # geometric
                k = 1
                while rng.random() < 0.7 and k < n:
                    k *= 2
            out.append(data[pos : pos + k])
            pos += k
        return out
    raise ValueError(f"unknown delivery mode {mode}")


class Conn:
    """State common to both flavours."""

    def __init__(self, world, cid: int, host: str, port: int, peer, spec: t.Optional[dict]):
        self.world = world
        self.cid = cid
        self.host = host
        self.port = port
        self.peer = peer
        self.spec = spec or {}
        self.msg_idx = 0  # peer messages so far
        self.tx_log: t.List[bytes] = []  # what the client wrote, write by write
        self.rx_msgs: t.List[bytes] = []  # what the peer sent (after tampering, before truncation)
        self.closed_by_client = False
        self.ended = False  # EOF / RST / stall decided: nothing more will be delivered
        self.tamper: t.Optional[t.Callable[[Conn, int, bytes], t.Optional[bytes]]] = None
        self.tx_tamper: t.Optional[t.Callable[[Conn, int, bytes], t.Optional[bytes]]] = None  # adversary on the request path
        self.stats = world.stats

    # ---- peer side API -------------------------------------------------
    def peer_send(self, data: bytes) -> None:
        if self.ended or self.closed_by_client:
            return
        idx = self.msg_idx
        self.msg_idx += 1
        if self.tamper is not None:
            new = self.tamper(self, idx, data)
            if new is not None:
                data = new
        self.rx_msgs.append(data)
        self.world.log("net.msg", self.cid, idx, len(data))
        spec = self.spec
        end = None
        for kind in ("eof_at", "rst_at", "stall_at"):
            v = spec.get(kind)
            if v is not None and v[0] == idx:
                end = (kind[:-3], v[1])
        if end is not None:
            data = data[: end[1]]
        chunks = split_chunks(data, spec, idx)
        if len(chunks) > 1:
            self.stats["seg"] += 1
            if any(sum(len(c) for c in chunks[: i + 1]) < 16 for i in range(len(chunks) - 1)):
                self.stats["seg_in_header"] += 1
        gaps = {(g[0], g[1]): g[2] for g in spec.get("gaps", ())}
        jumps = {(g[0], g[1]): g[2] for g in spec.get("clock_jumps", ())}
        for ci, c in enumerate(chunks):
            if (idx, ci) in gaps:
                self.stats["gap"] += 1
                self._deliver(("gap", float(gaps[(idx, ci)])))
            if (idx, ci) in jumps:
                self.stats["clock_jump"] += 1
                self._deliver(("clockjump", float(jumps[(idx, ci)])))
            self._deliver(("data", c))
        if end is not None:
            self.ended = True
            self.stats[end[0]] += 1
            if end[0] == "eof":
                self._deliver(("eof",))
            elif end[0] == "rst":
                self._deliver(("rst",))
            else:
                self._deliver(("stall",))

    def peer_eof(self) -> None:
        if self.ended:
            return
        self.ended = True
        self.stats["peer_eof"] += 1
        self._deliver(("eof",))

    def peer_rst(self) -> None:
        if self.ended:
            return
        self.ended = True
        self.stats["peer_rst"] += 1
        self._deliver(("rst",))

    def _deliver(self, item) -> None:  # pragma: no cover - abstract
        raise NotImplementedError

    # ---- client side helper -----------------------------------------
    def _client_wrote(self, data: bytes) -> bytes:
        """Records what the client wrote; returns what reaches the peer (the request-path adversary may alter it)."""
        self.tx_log.append(bytes(data))
        self.world.log("net.tx", self.cid, len(data))
        if self.tx_tamper is not None:
            new = self.tx_tamper(self, len(self.tx_log) - 1, bytes(data))
            if new is not None:
                self.stats["reqtear"] += 1
                return new
        return bytes(data)


class SimSocket(Conn):
    """What ``socket.create_connection`` returns in the sync flavour."""

    def __init__(self, *a, **kw):
        super().__init__(*a, **kw)
        self._rx: t.List[t.Any] = []
        self._head = b""
        self._eof = False
        self._reads_after_eof = 0
        self._timeout: t.Optional[float] = None
        self.recv_calls = 0

    def _deliver(self, item) -> None:
        self._rx.append(item)

    # -- socket API used by SyncRpcClient ---------------------------------
    def settimeout(self, v) -> None:
        self._timeout = v

    def sendall(self, data) -> None:
        _mark("send")
        self._fruitless_waits = 0
        if self.closed_by_client:
            raise OSError(9, "Bad file descriptor")
        data = self._client_wrote(bytes(data))
        self.peer.on_data(self, data)

    def send(self, data, flags: int = 0) -> int:
        """socket.send(): may take only a part of the data (a full send buffer, a slow reader).  The world's ``short_writes`` spec
        {"max": n} limits every send() to at most n bytes; without it everything is taken at once."""
        _mark("send")
        if self.closed_by_client:
            raise OSError(9, "Bad file descriptor")
        data = bytes(data)
        sw = getattr(self.world, "short_writes", None)
        if sw and len(data) > int(sw.get("max", 1 << 30)):
            data = data[: int(sw["max"])]
            self.stats["short_write"] += 1
        out = self._client_wrote(data)
        self.peer.on_data(self, out)
        return len(data)

    def _arrive(self) -> None:
        """One more item of the peer's stream becomes visible to the client (one arrival per socket call)."""
        while self._rx:
            item = self._rx.pop(0)
            if item[0] == "gap":
                # nothing arrives for item[1] seconds: a socket with a timeout gives up after its timeout, a blocking one waits
                wait = item[1]
                if self._timeout is not None and wait > self._timeout:
                    self._rx.insert(0, ("gap", wait - self._timeout))
                    self.world.clock.advance_ns(int(self._timeout * 1e9))
                    self.world.stats["vtime_ns"] += int(self._timeout * 1e9)
                    raise TimeoutError("timed out")
                self.world.clock.advance_ns(int(wait * 1e9))
                self.world.stats["vtime_ns"] += int(wait * 1e9)
                continue
            if item[0] == "clockjump":
                self.world.clock.step_ns(int(item[1] * 1e9))
                self.world.log("clock.jump", self.cid, item[1])
                continue
            if item[0] == "data":
                if item[1]:
                    self._head += item[1]
                    return
            elif item[0] == "eof":
                self._eof = True
                return
            elif item[0] == "rst":
                self._eof = True
                self._rst = True
                self.world.log("net.rst", self.cid)
                return
            elif item[0] == "stall":
                return

    def _next(self, n: int, peek: bool = False) -> bytes:
        self.recv_calls += 1
        if self.closed_by_client:
            raise OSError(9, "Bad file descriptor")
        if n <= 0:
            return b""
        before = len(self._head)
        if not self._head or peek:
            # a plain read takes what has arrived, or waits for the next arrival; a MSG_PEEK read does not consume, so every
            # call lets one more segment arrive (otherwise a peek loop could never see progress)
            if not (self._eof and not self._rx):
                self._arrive()
        if getattr(self, "_rst", False) and not self._head:
            raise ConnectionResetError(104, "Connection reset by peer")
        if self._head:
            if peek:
                out = self._head[:n]
                if len(self._head) == before and len(out) < n:
                    # no progress: the same short prefix again. After EOF that is a spin; on an open, silent connection a wait.
                    self._stalled_peeks = getattr(self, "_stalled_peeks", 0) + 1
                    if self._stalled_peeks > SPIN_LIMIT:
                        if self._eof:
                            self.stats["reads_after_eof"] += self._stalled_peeks
                            raise Spin(f"{self._stalled_peeks} MSG_PEEK reads without progress after EOF on connection {self.cid}")
                        raise Blocks(f"peek loop on connection {self.cid} can never see more data")
                return out
            out, self._head = self._head[:n], self._head[n:]
            return out
        if self._eof:
            self._reads_after_eof += 1
            self.stats["reads_after_eof"] += 1
            if self._reads_after_eof > SPIN_LIMIT:
                raise Spin(f"{self._reads_after_eof} reads after EOF on connection {self.cid}")
            return b""
        # nothing buffered, connection open, peer has nothing more to say
        raise Blocks(f"read on connection {self.cid} can never complete")

    def _read(self, n: int, flags: int) -> bytes:
        import socket as _s

        if flags & _s.MSG_PEEK:
            return self._next(n, peek=True)
        try:
            data = self._next(n)
        except Blocks:
            if self._timeout is not None:  # a socket with a timeout gives up instead of waiting forever
                raise TimeoutError("timed out")
            raise
        if flags & _s.MSG_WAITALL and self._timeout is None:
            # blocking socket: MSG_WAITALL returns the full amount unless the stream ends (with a timeout set Python puts the
            # descriptor in non-blocking mode and the flag has no effect)
            while len(data) < n and data:
                try:
                    more = self._next(n - len(data))
                except (Blocks, ConnectionResetError):
                    if data:
                        break
                    raise
                if not more:
                    break
                data += more
        return data

    def recv(self, n: int, flags: int = 0) -> bytes:
        _mark("recv")
        return self._read(n, flags)

    def recv_into(self, buf, nbytes: int = 0, flags: int = 0) -> int:
        _mark("recv")
        view = memoryview(buf)
        n = nbytes or len(view)
        data = self._read(n, flags)
        view[: len(data)] = data
        return len(data)

    def setsockopt(self, level, opt, value) -> None:
        # (recorded; SO_RCVLOWAT on a blocking socket only delays a recv until min(lowat, requested) bytes are there, which the
        # one-arrival-per-call model never contradicts)
        self._sockopts = getattr(self, "_sockopts", {})
        self._sockopts[(level, opt)] = value

    def getsockopt(self, level, opt, *a):
        return getattr(self, "_sockopts", {}).get((level, opt), 0)

    def getpeername(self):
        return (self.host, self.port)

    def getsockname(self):
        return ("192.0.2.10", 40000 + self.cid)

    def fileno(self) -> int:
        if self.closed_by_client:
            return -1
        # descriptor numbers as a process sees them: small by default, above FD_SETSIZE when the process already holds many
        base = int(getattr(self.world, "fd_base", 700))
        self.world.sim_fds[base + self.cid] = self
        return base + self.cid

    def gettimeout(self):
        return self._timeout

    def setblocking(self, flag: bool) -> None:
        self._timeout = None if flag else 0.0

    def wait_readable(self, timeout: t.Optional[float]) -> bool:
        """select / poll on this socket: True when a read would not block (data, EOF, reset); virtual time passes while waiting."""
        while True:
            if self._head or self._eof or self.closed_by_client:
                return True
            if not self._rx:
                if timeout is None:
                    raise Blocks(f"waiting for readability of connection {self.cid} can never end")
                # nothing is pending and, in this synchronous world, nothing ever will be unless the client sends first: a caller that
                # keeps polling a silent connection is waiting for ever (the polling variety of a blocking read)
                self._fruitless_waits = getattr(self, "_fruitless_waits", 0) + 1
                if self._fruitless_waits > 256:
                    raise Blocks(f"{self._fruitless_waits} timed waits for readability of the silent connection {self.cid}: polling can never end")
                self.world.clock.advance_ns(int(timeout * 1e9))
                return False
            kind = self._rx[0][0]
            if kind == "gap":
                wait = self._rx[0][1]
                if timeout is not None and wait > timeout:
                    self._rx[0] = ("gap", wait - timeout)
                    self.world.clock.advance_ns(int(timeout * 1e9))
                    return False
                self._rx.pop(0)
                self.world.clock.advance_ns(int(wait * 1e9))
                if timeout is not None:
                    timeout -= wait
                continue
            if kind == "clockjump":
                self.world.clock.step_ns(int(self._rx.pop(0)[1] * 1e9))
                continue
            if kind == "stall":
                self._rx.pop(0)
                continue
            return True

    def shutdown(self, how) -> None:
        if self.closed_by_client:
            raise OSError(9, "Bad file descriptor")
        if getattr(self, "_rst", False) or any(it[0] == "rst" for it in self._rx):
            # the peer reset the connection (also when the reset is still queued behind unread data): ENOTCONN
            raise OSError(107, "Transport endpoint is not connected")

    def peer_closed(self) -> bool:
        """FIN or RST from the peer has reached this host (possibly behind unread data)."""
        return self._eof or any(it[0] in ("eof", "rst") for it in self._rx)

    def close(self) -> None:
        if not self.closed_by_client:
            self.closed_by_client = True
            self.world.log("net.close", self.cid)
            self.peer.on_client_close(self)

    def __enter__(self):
        return self

    def __exit__(self, *a):
        self.close()
