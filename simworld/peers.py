"""Peers of the simulated network.

PduPeer      reassembles the client's byte stream into PDUs.
ScriptedPeer plays a script: for the n-th client PDU, a list of actions.
RpcServer    a conforming connection-oriented DCE/RPC server built on ref.rpce
             (bind / alter_context / request with an acceptor security
             context); interfaces are plugged in as handlers.  RefDC = RpcServer
             + the EPM and GKDI handlers of ref/refdc.py.
"""
from __future__ import annotations

import typing as t

from ref import rpce


class _ConnState:
    def __init__(self):
        self.buf = bytearray()
        self.n_pdus = 0
        self.bound: t.Dict[int, t.Tuple[t.Any, t.Any]] = {}
        self.acceptor = None
        self.auth_type = 0
        self.auth_level = 0
        self.auth_ctx = 0
        self.header_sign = False
        self.dead = False


class PduPeer:
    max_pdus_per_conn = 64

    def __init__(self):
        self.pdus_seen: t.List[t.Tuple[int, bytes]] = []  # (conn id, raw PDU)

    def on_connect(self, conn) -> None:
        conn.st = _ConnState()

    def on_data(self, conn, data: bytes) -> None:
        st = conn.st
        if st.dead:
            return
        st.buf += data
        try:
            pdus = rpce.split_stream(st.buf)
        except rpce.WireError:
            st.dead = True
            conn.peer_rst()
            return
        for raw in pdus:
            self.pdus_seen.append((conn.cid, raw))
            idx = st.n_pdus
            st.n_pdus += 1
            if idx >= self.max_pdus_per_conn:
                # a client that never stops talking (e.g. an endless handshake) must not hang the simulation
                conn.world.stats["peer_gave_up"] += 1
                st.dead = True
                conn.peer_rst()
                return
            self.handle_pdu(conn, idx, raw)

    def on_client_close(self, conn) -> None:
        pass

    def handle_pdu(self, conn, idx: int, raw: bytes) -> None:  # pragma: no cover
        raise NotImplementedError


class ScriptedPeer(PduPeer):
    """script[i] = list of actions for the i-th client PDU on a connection.

    action: ("send", bytes) | ("eof",) | ("rst",) | ("silent",) | callable(peer, conn, idx, raw) -> list of actions.
    After the script is exhausted the peer stays silent (open connection).
    ``scripts`` may be a dict {conn index: script} or one script for every connection.
    """

    def __init__(self, scripts):
        super().__init__()
        self.scripts = scripts

    def _script(self, conn):
        if isinstance(self.scripts, dict):
            return self.scripts.get(conn.cid, self.scripts.get("*", []))
        return self.scripts

    def handle_pdu(self, conn, idx: int, raw: bytes) -> None:
        script = self._script(conn)
        if idx >= len(script):
            return
        self._play(conn, idx, raw, script[idx])

    def _play(self, conn, idx, raw, actions) -> None:
        if callable(actions):
            actions = actions(self, conn, idx, raw)
        for a in actions:
            if callable(a):
                self._play(conn, idx, raw, a)
            elif a[0] == "send":
                conn.peer_send(a[1])
            elif a[0] == "eof":
                conn.peer_eof()
            elif a[0] == "rst":
                conn.peer_rst()
            elif a[0] == "silent":
                pass
            else:
                raise ValueError(a)


NCA_S_PROTO_ERROR = 0x1C01000B
NCA_S_UNK_IF = 0x1C010003
NCA_S_OP_RNG_ERROR = 0x1C010002
ERROR_ACCESS_DENIED = 0x00000005
RPC_S_SEC_PKG_ERROR = 0x00000721


class RpcServer(PduPeer):
    """Conforming server.  ``interfaces``: {(uuid, major, minor): handler} with

        handler(server, conn, req: dict) -> ("response", stub_bytes) | ("fault", status)

    ``req`` has: opnum, stub (cleartext, auth padding removed), sealed (bool), auth_level,
    raw pdu dict.  knobs: header_sign (server supports it), sec_addr, pad_mode
    ("min16" pads the sealed stub to 16, "min4" to 4, "<n>" = min4 + 4n, "k:<K>" exactly K bytes),
    ack_token_empty_trailer (send an auth trailer with empty value on the last leg).
    """

    def __init__(self, interfaces: dict, acceptor_factory=None, knobs: t.Optional[dict] = None, name: str = "srv", codec=None):
        super().__init__()
        self.codec = codec or rpce  # ref.rpce, or simworld.libcodec (dpapi_ng's own server-direction codecs = "LibDC")
        self.interfaces = interfaces
        self.acceptor_factory = acceptor_factory
        self.knobs = knobs or {}
        self.name = name
        self.log: t.List[dict] = []  # one entry per decoded client PDU / event
        self.violations: t.List[str] = []  # things a conforming client must not do

    # -- helpers -------------------------------------------------------------
    def _fault(self, conn, status: int, ctx_id: int = 0, call_id: int = 1) -> None:
        conn.world.stats["srv_fault"] += 1
        self.log.append({"conn": conn.cid, "event": "fault_sent", "status": status})
        conn.peer_send(self.codec.build_fault(status, ctx_id=ctx_id, call_id=call_id))

    def handle_pdu(self, conn, idx: int, raw: bytes) -> None:
        st = conn.st
        try:
            pdu = self.codec.parse_pdu(raw)
        except (rpce.WireError, Exception) as e:  # noqa: BLE001
            self.violations.append(f"undecodable PDU from client: {e}")
            self.log.append({"conn": conn.cid, "event": "undecodable", "error": str(e), "raw": raw})
            self._fault(conn, NCA_S_PROTO_ERROR)
            return
        entry = {"conn": conn.cid, "port": conn.port, "event": pdu["name"], "pdu": pdu, "raw": raw}
        self.log.append(entry)
        pt = pdu["ptype"]
        if pt == rpce.BIND:
            self._bind(conn, st, pdu, entry)
        elif pt == rpce.ALTER_CONTEXT:
            self._alter(conn, st, pdu, entry)
        elif pt == rpce.REQUEST:
            self._request(conn, st, pdu, entry, raw)
        else:
            self.violations.append(f"unexpected PDU type {pdu['name']} from client")
            self._fault(conn, NCA_S_PROTO_ERROR)

    def _results(self, st, contexts, record: bool):
        results = []
        for cid, abstract, transfers in contexts:
            res = (2, 2, None)  # provider rejection, proposed transfer syntaxes not supported
            if abstract not in self.interfaces:
                res = (2, 1, None)  # abstract syntax not supported
            for tr in transfers:
                if tr[0].bytes_le[:8] == rpce.BTFN_PREFIX:
                    res = (3, self.knobs.get("btfn_flags", 3) & tr[0].bytes_le[8], None)
                    break
                if abstract in self.interfaces and tr == rpce.NDR64:
                    res = (0, 0, rpce.NDR64)
                    if record:
                        st.bound[cid] = (abstract, tr)
                    break
            results.append(res)
        return results

    def _auth_step(self, conn, st, pdu):
        """-> (ok, auth dict for the reply or None)"""
        a = pdu["auth"]
        if a is None:
            return True, None
        if st.acceptor is None:
            if self.acceptor_factory is None:
                return False, None
            st.acceptor = self.acceptor_factory(a["type"])
            st.auth_type, st.auth_level, st.auth_ctx = a["type"], a["level"], a["ctx"]
        try:
            out = st.acceptor.step(a["value"])
        except Exception as e:  # noqa: BLE001
            self.log.append({"conn": conn.cid, "event": "auth_failed", "error": repr(e)})
            return False, None
        if out is None and not self.knobs.get("ack_token_empty_trailer"):
            return True, None
        # (ack_auth_level: a peer - or someone on the path of the still unprotected bind exchange - puts another level into its trailers)
        return True, {"type": st.auth_type, "level": self.knobs.get("ack_auth_level", st.auth_level), "ctx": st.auth_ctx, "value": out or b""}

    def _bind(self, conn, st, pdu, entry) -> None:
        if st.n_pdus != 1:
            self.violations.append("bind is not the first PDU")
        results = self._results(st, pdu["contexts"], True)
        ok, auth = self._auth_step(conn, st, pdu)
        if not ok:
            conn.peer_send(self.codec.build_bind_nak(reason=8, call_id=pdu["call_id"]))  # authentication type not recognized / invalid
            return
        flags = rpce.PFC_FIRST | rpce.PFC_LAST
        st.header_sign = bool(pdu["flags"] & rpce.PFC_HDR_SIGN) and bool(self.knobs.get("header_sign", True))
        if st.header_sign:
            flags |= rpce.PFC_HDR_SIGN
        sec_addr = self.knobs.get("sec_addr", str(conn.port))
        conn.peer_send(self.codec.build_bind_ack(results, flags=flags, sec_addr=sec_addr, auth=auth, call_id=pdu["call_id"],
                                           assoc=self.knobs.get("assoc", 0x5EED)))

    def _alter(self, conn, st, pdu, entry) -> None:
        results = self._results(st, pdu["contexts"], True)
        ok, auth = self._auth_step(conn, st, pdu)
        if not ok:
            self._fault(conn, ERROR_ACCESS_DENIED, call_id=pdu["call_id"])
            return
        flags = rpce.PFC_FIRST | rpce.PFC_LAST | int(self.knobs.get("alter_resp_extra_flags", 0))
        if st.header_sign:
            flags |= rpce.PFC_HDR_SIGN
        conn.peer_send(self.codec.build_bind_ack(results, ptype=rpce.ALTER_CONTEXT_RESP, flags=flags, sec_addr="", auth=auth,
                                           call_id=pdu["call_id"], assoc=self.knobs.get("assoc", 0x5EED)))

    def _request(self, conn, st, pdu, entry, raw: bytes) -> None:
        ctx = st.bound.get(pdu["ctx_id"])
        if ctx is None:
            self.violations.append(f"request on presentation context {pdu['ctx_id']} that was not accepted")
            self._fault(conn, NCA_S_UNK_IF, pdu["ctx_id"], pdu["call_id"])
            return
        stub = pdu["stub"]
        sealed = False
        a = pdu["auth"]
        if a is not None:
            if st.acceptor is None or not st.acceptor.complete:
                self.violations.append("request with auth trailer before the security context is complete")
                self._fault(conn, ERROR_ACCESS_DENIED, pdu["ctx_id"], pdu["call_id"])
                return
            so = pdu["stub_offset"]
            try:
                stub = st.acceptor.unwrap(raw[:so], raw[so : a["offset"]], raw[a["offset"] : a["offset"] + 8], a["value"], st.header_sign)
            except Exception as e:  # noqa: BLE001
                self.violations.append(f"request failed to unseal: {e!r}")
                entry["unseal_error"] = repr(e)
                self._fault(conn, ERROR_ACCESS_DENIED, pdu["ctx_id"], pdu["call_id"])
                return
            sealed = a["level"] == rpce.LEVEL_PRIVACY
            entry["sealed_stub"] = raw[so : a["offset"]]
            if a["pad"] > len(stub):
                self.violations.append("auth pad_length larger than the stub")
            else:
                entry["stub_padded"] = stub
                stub = stub[: len(stub) - a["pad"]]
        entry["stub_clear"] = stub
        handler = self.interfaces[ctx[0]]
        req = {"opnum": pdu["opnum"], "stub": stub, "sealed": sealed, "auth_level": a["level"] if a else 0, "pdu": pdu,
               "entry": entry, "authenticated": st.acceptor is not None and st.acceptor.complete, "acceptor": st.acceptor}
        kind, val = handler(self, conn, req)
        if kind == "fault":
            self._fault(conn, val, pdu["ctx_id"], pdu["call_id"])
            return
        self.send_response(conn, st, val, pdu["ctx_id"], pdu["call_id"], seal=a is not None)

    def send_response(self, conn, st, stub: bytes, ctx_id: int, call_id: int, seal: bool) -> None:
        self._send_response(conn, st, stub, ctx_id, call_id, seal)
        after = self.knobs.get("after_response")
        if after == "rst":
            # the server answers completely and aborts the connection at once (service shutting down, idle reaper, load balancer):
            # the reset is there before the client gets to close its side
            conn.world.stats["rst_after_response"] += 1
            conn.peer_rst()
        elif after == "eof":
            conn.world.stats["eof_after_response"] += 1
            conn.peer_eof()

    def _send_response(self, conn, st, stub: bytes, ctx_id: int, call_id: int, seal: bool) -> None:
        if not seal:
            hint = self.knobs.get("alloc_hint_unsealed")  # advisory field: None = len(stub); int k = len(stub) - k (at least 1); "zero"
            if hint is None:
                conn.peer_send(self.codec.build_response(stub, ctx_id=ctx_id, call_id=call_id))
            else:
                ah = 0 if hint == "zero" else max(1, len(stub) - int(hint))
                conn.peer_send(self.codec.build_response(stub, ctx_id=ctx_id, call_id=call_id, alloc_hint=ah))
            return
        mode = self.knobs.get("pad_mode", "min16")
        if mode == "min16":
            pad = -len(stub) % 16
        elif mode == "min4":
            pad = -len(stub) % 4
        elif mode.startswith("k:"):  # exactly K padding bytes whatever the alignment (K % 4 != 0 is lenient-server territory)
            pad = int(mode[2:])
        else:  # explicit extra padding that keeps 4-alignment: min4 + 4*k
            pad = (-len(stub) % 4) + 4 * int(mode)
            if pad > 255:
                pad = -len(stub) % 4
        # padding octets are not required to be zero: a non-zero fill makes un-stripped padding observable
        body = stub + bytes([self.knobs.get("pad_fill", 0xA5)]) * pad
        sig_len = st.acceptor.sig_size
        ah = {"padded": len(body), "unpadded": len(stub), "zero": 0}[self.knobs.get("alloc_hint", "padded")]
        # (auth_reserved: "must be zero" for senders, to be ignored by receivers; a knob lets a server send something else)
        pdu = bytearray(self.codec.build_response(body, ctx_id=ctx_id, call_id=call_id, alloc_hint=ah,
                                            auth={"type": st.auth_type, "level": st.auth_level, "pad": pad, "ctx": st.auth_ctx,
                                                  "value": b"\x00" * sig_len, "reserved": int(self.knobs.get("auth_reserved", 0))}))
        off = 24 + len(body)
        sealed, sig = st.acceptor.wrap(bytes(pdu[:24]), body, bytes(pdu[off : off + 8]), st.header_sign)
        if len(sig) != sig_len:
            # signature size differs from the estimate: rebuild with the right auth_len
            pdu = bytearray(rpce.build_response(body, ctx_id=ctx_id, call_id=call_id, alloc_hint=len(body),
                                                auth={"type": st.auth_type, "level": st.auth_level, "pad": pad,
                                                      "ctx": st.auth_ctx, "value": b"\x00" * len(sig)}))
            raise AssertionError("acceptor signature size mismatch")
        pdu[24:off] = sealed
        pdu[off + 8 :] = sig
        conn.world.stats["sealed_replies"] += 1
        conn.world.stats[f"reply_pad_{pad}"] += 1
        conn.peer_send(bytes(pdu))
