"""Operating-system seams that only exist so that a change which starts using them is simulated instead of breaking the run:
select / poll on simulated sockets, and /dev/urandom opened as a file.  The unchanged library uses neither."""
from __future__ import annotations

import typing as t

DEV_RANDOM = ("/dev/urandom", "/dev/random")


def _sim_of(world, obj):
    fd = obj if isinstance(obj, int) else (obj.fileno() if hasattr(obj, "fileno") else None)
    if hasattr(obj, "wait_readable"):
        return obj
    return world.sim_fds.get(fd)


def make_select(world, real_select):
    def select(rlist, wlist, xlist, timeout=None):
        sims = [(o, _sim_of(world, o)) for o in rlist]
        if not any(s for _o, s in sims) and not any(_sim_of(world, o) for o in wlist):
            return real_select(rlist, wlist, xlist, timeout)
        world.stats["select_calls"] += 1
        for o in list(rlist) + list(wlist) + list(xlist):
            fd = o if isinstance(o, int) else (o.fileno() if hasattr(o, "fileno") else -1)
            if isinstance(fd, int) and fd >= 1024 and _sim_of(world, o) is not None:
                # select() cannot watch descriptors at or above FD_SETSIZE (poll / epoll can)
                raise ValueError("filedescriptor out of range in select()")
        ready_w = [o for o in wlist if _sim_of(world, o) is not None]
        ready_r = []
        waited = False
        for o, s in sims:
            if s is None:
                continue
            # (time is spent once: the first socket waits for the timeout, the others are polled)
            if s.wait_readable(0.0 if (waited or ready_w) else timeout):
                ready_r.append(o)
            waited = True
        return ready_r, ready_w, []

    return select


def make_poll(world, real_poll):
    import select as _select

    class SimPoll:
        def __init__(self):
            self._reg: t.Dict[int, t.Tuple[t.Any, int]] = {}
            self._real = None

        def register(self, fd, eventmask=_select.POLLIN | _select.POLLPRI | _select.POLLOUT):
            sim = _sim_of(world, fd)
            if sim is None:
                if self._real is None:
                    self._real = real_poll()
                return self._real.register(fd, eventmask)
            self._reg[sim.fileno()] = (sim, eventmask)

        def modify(self, fd, eventmask):
            self.register(fd, eventmask)

        def unregister(self, fd):
            sim = _sim_of(world, fd)
            if sim is None and self._real is not None:
                return self._real.unregister(fd)
            self._reg.pop(fd if isinstance(fd, int) else sim.fileno(), None)

        def poll(self, timeout=None):
            if not self._reg:
                return self._real.poll(timeout) if self._real is not None else []
            world.stats["poll_calls"] += 1
            tmo = None if timeout is None or timeout < 0 else timeout / 1000.0
            out = []
            waited = False
            for fd, (sim, mask) in self._reg.items():
                ev = 0
                if mask & _select.POLLOUT:
                    ev |= _select.POLLOUT
                if mask & (_select.POLLIN | _select.POLLPRI):
                    if sim.wait_readable(0.0 if (waited or ev) else tmo):
                        ev |= _select.POLLIN
                    waited = True
                if sim.peer_closed():
                    # the kernel reports a half-closed peer as soon as its FIN arrived, also while data is still unread
                    if mask & getattr(_select, "POLLRDHUP", 0x2000):
                        ev |= getattr(_select, "POLLRDHUP", 0x2000)
                    if getattr(sim, "_rst", False):
                        ev |= _select.POLLHUP | _select.POLLERR
                if ev:
                    out.append((fd, ev))
            return out

    return SimPoll


class SimRandomDevice:
    """/dev/urandom opened as a file, backed by the world's entropy source, with device faults."""

    def __init__(self, world, binary: bool = True):
        self.world = world
        self.closed = False

    def _take(self, n: int) -> bytes:
        dev = self.world.entropy_device
        mode = dev.get("mode", "ok")
        self.world.stats["random_device_reads"] += 1
        if mode == "eof":
            return b""
        if mode == "short":
            n = min(n, int(dev.get("max", 1)))
        return self.world.entropy.draw(n, "dev-urandom") if n > 0 else b""

    def read(self, n: int = -1) -> bytes:
        return self._take(4096 if n is None or n < 0 else n)

    def readinto(self, b) -> int:
        view = memoryview(b)
        data = self._take(len(view))
        view[: len(data)] = data
        return len(data)

    def close(self) -> None:
        self.closed = True

    def fileno(self) -> int:
        raise OSError("simulated device has no descriptor")

    def __enter__(self):
        return self

    def __exit__(self, *a):
        self.close()


def make_open(world, real_open):
    def open_(file, mode="r", *a, **kw):
        if isinstance(file, (str, bytes)) and (file.decode() if isinstance(file, bytes) else file) in DEV_RANDOM:
            return SimRandomDevice(world)
        return real_open(file, mode, *a, **kw)

    return open_


def make_id(world, real_id, prefix: str):
    """``id()`` as seen by library frames: CPython hands the address of a freed object to the next allocation of that size, which
    depends on everything the process allocated before.  Inside the world the same effect is deterministic: an object gets the
    lowest free slot number when the library first asks for its identity and gives it back when it is collected (reference
    counting makes that moment deterministic), so the next object of a history re-uses it.  A memo keyed by ``id(obj)`` then
    behaves the same way in every process."""
    import sys
    import weakref

    slots: t.Dict[int, int] = {}      # real id -> slot
    free: t.List[int] = []
    state = {"next": 1}

    def release(rid: int) -> None:
        slot = slots.pop(rid, None)
        if slot is not None:
            free.append(slot)
            free.sort(reverse=True)

    def sim_id(obj):
        f = sys._getframe(1)
        if not f.f_code.co_filename.startswith(prefix):
            return real_id(obj)
        rid = real_id(obj)
        slot = slots.get(rid)
        if slot is None:
            try:
                weakref.finalize(obj, release, rid)
            except TypeError:
                return rid  # (not weak-referenceable: ints, bytes, tuples keep their real identity)
            slot = free.pop() if free else state["next"]
            if slot == state["next"]:
                state["next"] += 1
            slots[rid] = slot
            world.stats["sim_ids"] += 1
        return 0x7F0000000000 + 64 * slot

    return sim_id
