"""Locks of the code under test inside the simulated world.

``threading.Lock`` / ``threading.RLock`` objects *created by dpapi_ng code* while a
world is installed are simulated locks: acquiring one that is held never parks an
OS thread on a primitive the simulator does not control.

* Under the thread scheduler (simworld.threads) a blocked acquire hands the baton
  to another runnable thread and is retried when the baton comes back; if nobody
  else can run, the acquire can never succeed: ``Blocks`` (deadlock), a verdict.
* Outside of it (one caller) a blocking acquire of a held lock can never succeed
  either - nobody exists who could release it: ``Blocks``.
* ``acquire(timeout=t)`` on a lock that cannot be released returns False (the
  virtual timeout elapses); non-blocking acquires behave as usual.

Locks created by anything else (asyncio, concurrent.futures, the harness) stay
real.  The unchanged library creates no locks at all; the seam exists so that a
change which adds one - correctly or not - is simulated instead of wedging the run.
"""
from __future__ import annotations

import sys
import threading
import typing as t

from simworld import net
from simworld import threads as simthreads

_real_lock = threading.Lock
_real_rlock = threading.RLock


def _who() -> int:
    sim = simthreads.ACTIVE
    if sim is not None and sim.cur is not None and threading.current_thread() is sim.cur.thread:
        return sim.cur.idx + 1
    return 0


class SimLock:
    reentrant = False

    def __init__(self, stats=None):
        self._owner: t.Optional[int] = None
        self._count = 0
        self._stats = stats

    def _free_for(self, me: int) -> bool:
        return self._owner is None or (self.reentrant and self._owner == me)

    def acquire(self, blocking: bool = True, timeout: float = -1) -> bool:
        me = _who()
        if not self._free_for(me):
            if self._stats is not None:
                self._stats["lock_contended"] += 1
            if not blocking:
                return False
            sim = simthreads.ACTIVE
            if sim is not None and me:
                ok = sim.block_on(lambda: self._free_for(me), give_up=timeout is not None and timeout >= 0)
                if not ok:
                    return False
            elif timeout is not None and timeout >= 0:
                return False
            else:
                raise net.Blocks(f"acquire of a lock that is held (by caller {self._owner}) and that nobody can release")
        self._owner = me
        self._count += 1
        return True

    def release(self) -> None:
        if self._owner is None:
            raise RuntimeError("release unlocked lock")
        if self.reentrant and self._owner != _who():
            raise RuntimeError("cannot release un-acquired lock")
        self._count -= 1
        if self._count == 0 or not self.reentrant:
            self._owner = None
            self._count = 0

    def locked(self) -> bool:
        return self._owner is not None

    __enter__ = acquire

    def __exit__(self, *a) -> None:
        self.release()


class SimRLock(SimLock):
    reentrant = True


def factories(prefix: str, stats=None):
    """(Lock, RLock) replacements that simulate only what code below ``prefix`` creates."""

    def from_library() -> bool:
        f = sys._getframe(2)
        for _ in range(4):  # (dataclass-generated __init__ and similar synthetic frames sit in between)
            if f is None:
                return False
            fn = f.f_code.co_filename
            if fn.startswith(prefix):
                return True
            if not fn.startswith("<"):
                return False
            f = f.f_back
        return False

    def Lock():
        return SimLock(stats) if from_library() else _real_lock()

    def RLock():
        return SimRLock(stats) if from_library() else _real_rlock()

    return Lock, RLock


_installed = False


def install_globally(prefix: str) -> None:
    """Permanently (for this process) route lock creation through the factories: objects of the library that are created
    before a world is installed - a KeyCache built by the harness, a module-level lock created at import time - get simulated
    locks as well.  Everything not created by library frames keeps getting real locks."""
    global _installed
    if _installed:
        return
    _installed = True
    lock, rlock = factories(prefix, None)
    threading.Lock = lock  # type: ignore[assignment]
    threading.RLock = rlock  # type: ignore[assignment]
