"""LibDC codec: the same server role as ref.rpce's functions, but every byte it
reads or writes goes through dpapi_ng's own server-direction code
(Bind/AlterContext/Request._unpack, BindAck/AlterContextResponse/Response/
Fault/BindNak.pack).  Exists so that the library codecs the client never calls
on itself also run inside the simulation."""
from __future__ import annotations

import typing as t
import uuid

from ref import rpce


def _syn(s):
    return (s.uuid, s.version, s.version_minor)


def parse_pdu(raw: bytes) -> dict:
    import dpapi_ng._rpc as rpc

    from dpapi_ng._rpc._pdu import PDU

    p = PDU.unpack(bytes(raw))
    h = p.header
    out: t.Dict[str, t.Any] = {"ver": h.version, "ver_minor": h.version_minor, "ptype": int(h.packet_type), "flags": int(h.packet_flags),
                              "frag_len": h.frag_len, "auth_len": h.auth_len, "call_id": h.call_id, "name": rpce.PTYPE_NAMES.get(int(h.packet_type), "?"),
                              "drep": h.data_rep.pack(), "auth": None, "lib_obj": p}
    if p.sec_trailer is not None:
        st = p.sec_trailer
        out["auth"] = {"type": int(st.type), "level": int(st.level), "pad": st.pad_length, "reserved": 0, "ctx": st.context_id, "value": st.auth_value,
                       "offset": h.frag_len - h.auth_len - 8}
    if isinstance(p, rpc.Bind):  # AlterContext is a subclass
        out.update(max_xmit=p.max_xmit_frag, max_recv=p.max_recv_frag, assoc=p.assoc_group,
                   contexts=[(c.context_id, _syn(c.abstract_syntax), [_syn(x) for x in c.transfer_syntaxes]) for c in p.contexts])
    elif isinstance(p, rpc.Request):
        so = 24 + (16 if p.obj else 0)
        out.update(alloc_hint=p.alloc_hint, ctx_id=p.context_id, opnum=p.opnum, obj=p.obj, stub=p.stub_data, stub_offset=so)
    elif isinstance(p, rpc.BindAck):
        out.update(max_xmit=p.max_xmit_frag, max_recv=p.max_recv_frag, assoc=p.assoc_group, sec_addr=p.sec_addr,
                   results=[(int(r.result), r.reason, (r.syntax, r.syntax_version & 0xFFFF, r.syntax_version >> 16)) for r in p.results])
    elif isinstance(p, rpc.Response):
        out.update(alloc_hint=p.alloc_hint, ctx_id=p.context_id, cancel_count=p.cancel_count, stub=p.stub_data, stub_offset=24)
    elif isinstance(p, rpc.Fault):
        out.update(alloc_hint=p.alloc_hint, ctx_id=p.context_id, cancel_count=p.cancel_count, fault_flags=int(p.flags), status=p.status, stub=p.stub_data)
    elif isinstance(p, rpc.BindNak):
        out.update(reason=p.reject_reason, versions=list(p.versions))
    return out


def _finish(pdu) -> bytes:
    b = bytearray(pdu.pack())
    b[8:10] = len(b).to_bytes(2, "little")
    return bytes(b)


def _header(ptype: int, flags: int, auth_len: int, call_id: int):
    import dpapi_ng._rpc as rpc

    return rpc.PDUHeader(version=5, version_minor=0, packet_type=rpc.PacketType(ptype), packet_flags=rpc.PacketFlags(flags), data_rep=rpc.DataRep(),
                         frag_len=0, auth_len=auth_len, call_id=call_id)


def _trailer(auth: t.Optional[dict]):
    import dpapi_ng._rpc as rpc

    if auth is None:
        return None
    return rpc.SecTrailer(type=rpc.SecurityProvider(auth["type"]), level=rpc.AuthenticationLevel(auth["level"]), pad_length=auth.get("pad", 0),
                          context_id=auth.get("ctx", 0), auth_value=auth["value"])


def build_bind_ack(results, *, ptype: int = rpce.BIND_ACK, flags: int = 3, sec_addr: str = "", max_xmit: int = 5840, max_recv: int = 5840,
                   assoc: int = 0x1234, auth: t.Optional[dict] = None, call_id: int = 1, n_results_override=None) -> bytes:
    import dpapi_ng._rpc as rpc

    res = []
    for r, reason, syn in results:
        u, ver = (syn[0], syn[1] | (syn[2] << 16)) if syn is not None else (uuid.UUID(int=0), 0)
        res.append(rpc.ContextResult(result=rpc.ContextResultCode(r), reason=reason, syntax=u, syntax_version=ver))
    cls = rpc.BindAck if ptype == rpce.BIND_ACK else rpc.AlterContextResponse
    return _finish(cls(header=_header(ptype, flags, len(auth["value"]) if auth else 0, call_id), sec_trailer=_trailer(auth), max_xmit_frag=max_xmit,
                       max_recv_frag=max_recv, assoc_group=assoc, sec_addr=sec_addr, results=res))


def build_bind_nak(reason: int = 0, versions=((5, 0),), call_id: int = 1) -> bytes:
    import dpapi_ng._rpc as rpc

    return _finish(rpc.BindNak(header=_header(rpce.BIND_NAK, 3, 0, call_id), sec_trailer=None, reject_reason=reason, versions=list(versions)))


def build_fault(status: int, *, ctx_id: int = 0, stub: bytes = b"", flags: int = 3, call_id: int = 1) -> bytes:
    import dpapi_ng._rpc as rpc

    return _finish(rpc.Fault(header=_header(rpce.FAULT, flags, 0, call_id), sec_trailer=None, alloc_hint=len(stub), context_id=ctx_id, cancel_count=0,
                             status=status, flags=rpc.FaultFlags.NONE, stub_data=stub))


def build_response(stub: bytes, *, ctx_id: int = 0, flags: int = 3, auth: t.Optional[dict] = None, call_id: int = 1, alloc_hint=None, cancel_count: int = 0) -> bytes:
    import dpapi_ng._rpc as rpc

    return _finish(rpc.Response(header=_header(rpce.RESPONSE, flags, len(auth["value"]) if auth else 0, call_id), sec_trailer=_trailer(auth),
                                alloc_hint=len(stub) if alloc_hint is None else alloc_hint, context_id=ctx_id, cancel_count=cancel_count, stub_data=stub))
