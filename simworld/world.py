"""The simulated world: clock, entropy, network routing, recorder, seams.

``World.installed()`` is a context manager that puts every seam in place
(module attributes only, nothing in /repo is modified) and restores them.
"""
from __future__ import annotations

import collections
import contextlib
import hashlib
import os
import socket
import sys
import typing as t

from . import net

FILETIME_EPOCH = 116444736000000000


CURRENT: t.Optional["World"] = None  # the world whose seams are installed right now


class SimClock:
    """Virtual wall clock in ns since 1970 (settable, jumpable)."""

    def __init__(self, ns: int = 1_700_000_000_000_000_000):
        self.ns = int(ns)
        self.tick_per_read_ns = 0  # time that passes between two readings of the clock (0 = frozen during a call)
        self.tai_offset_s = 37  # what CLOCK_TAI is ahead of the wall clock on a host whose kernel knows the leap seconds
        self.reads: t.List[int] = []
        # the monotonic clock of the same host: it advances whenever time passes (advance_ns with d > 0, the per-reading tick), never
        # when the wall clock is merely SET or stepped back (NTP correction, VM resume, operator)
        self.mono_ns = 86_400_000_000_000  # "a day since boot"

    def time_ns(self) -> int:
        from simworld import threads

        threads.mark("clock")
        v = self.ns
        self.reads.append(v)
        if len(self.reads) > 10000:
            del self.reads[:5000]
        self.ns += self.tick_per_read_ns
        self.mono_ns += max(0, self.tick_per_read_ns)
        return v

    def monotonic_ns(self) -> int:
        from simworld import threads

        threads.mark("clock")
        v = self.mono_ns
        self.mono_ns += max(0, self.tick_per_read_ns)
        return v

    def time(self) -> float:
        return self.time_ns() / 1e9

    def set_filetime(self, ft: int, sub_ns: int = 0) -> None:
        self.ns = (ft - FILETIME_EPOCH) * 100 + sub_ns

    def filetime(self) -> int:
        return self.ns // 100 + FILETIME_EPOCH

    def advance_ns(self, d: int) -> None:
        """Time passes (d > 0), or - for d < 0 - the wall clock is stepped back."""
        self.ns += int(d)
        if d > 0:
            self.mono_ns += int(d)

    def step_ns(self, d: int) -> None:
        """The wall clock is STEPPED by d (NTP correction, VM resume, operator): no time passes, the monotonic clock does not move."""
        self.ns += int(d)


class _TimeShim:
    """Stands in for the ``time`` module inside dpapi_ng._client."""

    def __init__(self, clock: SimClock):
        self._c = clock

    def time_ns(self) -> int:
        return self._c.time_ns()

    def time(self) -> float:
        return self._c.time()

    def clock_gettime_ns(self, clk) -> int:
        import time as _t

        if clk == _t.CLOCK_REALTIME:
            return self._c.time_ns()
        if clk == getattr(_t, "CLOCK_TAI", -1):  # International Atomic Time: UTC + the leap second offset the kernel was told (37 s)
            return self._c.time_ns() + self._c.tai_offset_s * 1_000_000_000
        return _t.clock_gettime_ns(clk)

    def clock_gettime(self, clk) -> float:
        import time as _t

        if clk in (_t.CLOCK_REALTIME, getattr(_t, "CLOCK_TAI", -1)):
            return self.clock_gettime_ns(clk) / 1e9
        return _t.clock_gettime(clk)

    # the host's monotonic clocks follow the simulated passage of time (not the wall clock's steps)
    def monotonic_ns(self) -> int:
        return self._c.monotonic_ns()

    def monotonic(self) -> float:
        return self._c.monotonic_ns() / 1e9

    perf_counter_ns = monotonic_ns
    perf_counter = monotonic

    def __getattr__(self, name):  # everything else (sleep, struct_time ...) is the real module's
        import time as _t

        return getattr(_t, name)


class SimEntropy:
    """Deterministic entropy source with a ledger of draws.

    mode "stream": bytes from a blake2 counter stream keyed by the run seed
    (unique per draw with overwhelming probability, reproducible).
    A scripted queue can override the next draws of a given length.
    """

    def __init__(self, seed: int):
        self.seed = seed
        self.counter = 0
        self.ledger: t.List[t.Tuple[int, str, int, str]] = []  # (draw idx, op label, n, hex digest)
        self.scripted: t.Dict[t.Any, t.List[bytes]] = collections.defaultdict(list)  # key: n or (source, n)
        self.op = "-"
        self.frozen: t.Optional[bytes] = None  # if set every draw returns this pattern (sensitivity experiments)
        self.keep_ledger = True  # (very long runs switch the ledger off)
        self.fail_sources: t.Set[str] = set()  # entropy sources that raise instead of answering ("urandom", "aesgcm.generate_key")

    def draw(self, n: int, source: str = "urandom") -> bytes:
        from simworld import threads

        threads.mark("entropy")
        if self.fail_sources and source in self.fail_sources:
            # the entropy source itself fails (no device in a chroot, seccomp filter without getrandom): the call raises
            raise OSError(38, "Function not implemented") if source == "urandom" else NotImplementedError(source)
        q = self.scripted.get((source, n)) or self.scripted.get(n)
        if q:
            out = q.pop(0)
            self.scripted_used = getattr(self, "scripted_used", 0) + 1
        elif self.frozen is not None:
            out = (self.frozen * (n // len(self.frozen) + 1))[:n]
        else:
            parts = []
            for blk in range(min((n + 63) // 64, 64)):
                h = hashlib.blake2b(digest_size=64)
                h.update(b"%d/%d/%d" % (self.seed, self.counter, blk))
                parts.append(h.digest())
            out = b"".join(parts)
            if n > len(out):  # very large draws: repeat the 4 KiB block (still unique per draw through its first block)
                out = out * (n // len(out) + 1)
            out = out[:n]
        if self.keep_ledger:
            self.ledger.append((self.counter, self.op, n, out.hex()))
        self.counter += 1
        return out


class ConnectRefused(Exception):
    pass


class World:
    def __init__(self, seed: int = 0, clock_ns: t.Optional[int] = None):
        self.seed = seed
        self.clock = SimClock() if clock_ns is None else SimClock(clock_ns)
        self.entropy = SimEntropy(seed)
        self.stats: t.Dict[str, int] = collections.Counter()
        self.sim_fds: t.Dict[int, t.Any] = {}  # descriptors handed out by simulated sockets (select / poll seam)
        self.entropy_device: t.Dict[str, t.Any] = {"mode": "ok"}  # /dev/urandom as a file: ok | eof | short (reads return fewer bytes)
        self.host_fqdn = "app01.hosting.example"  # the machine the client runs on (its DNS suffix is NOT the AD domain)
        self.events: t.List[tuple] = []
        self._digest = hashlib.sha256()
        self.seq = 0
        self.routes: t.Dict[t.Tuple[str, int], t.Any] = {}  # (host, port) -> peer
        self.flap_ports: t.Dict[int, int] = {}  # port -> number of coming connection attempts that are refused
        self.default_peer = None
        self.conns: t.List[net.Conn] = []
        self.deliveries: t.List[t.Optional[dict]] = []  # delivery spec per connection index (None = whole)
        self.default_delivery: t.Optional[dict] = None
        self.tampers: t.Dict[int, t.Callable] = {}  # connection index -> tamper callable (reply path)
        self.tx_tampers: t.Dict[int, t.Callable] = {}  # connection index -> tamper callable (request path)
        self.refuse: t.Set[t.Tuple[str, int]] = set()
        self.slow_connect: t.Set[t.Tuple[str, int]] = set()  # connects that take longer than any client timeout
        self.partitioned = False
        self.connect_attempts: t.List[t.Tuple[str, int]] = []
        self.dns_queries: t.List[tuple] = []
        self.keep_events = False
        self.loop = None

    # ---- recorder ---------------------------------------------------------
    def log(self, kind: str, *detail) -> None:
        self.seq += 1
        rec = (self.seq, kind) + tuple(detail)
        self._digest.update(repr(rec).encode())
        if self.keep_events:
            self.events.append(rec)

    def digest(self) -> str:
        return self._digest.hexdigest()[:16]

    # ---- routing ----------------------------------------------------------
    def add_route(self, host: str, port: int, peer) -> None:
        self.routes[(host, port)] = peer

    def _lookup(self, host: str, port: int):
        self.connect_attempts.append((host, port))
        self.log("net.connect", host, port)
        if self.partitioned or (host, port) in self.refuse:
            self.stats["noconn"] += 1
            return None
        if self.flap_ports.get(port, 0) > 0:
            # fault: the listener on that port is not (yet / any more) there for the next n connection attempts
            self.flap_ports[port] -= 1
            self.stats["noconn"] += 1
            self.stats["connflap"] += 1
            return None
        peer = self.routes.get((host, port))
        if peer is None:
            peer = self.routes.get(("*", port)) or self.default_peer
        if peer is None:
            self.stats["noconn"] += 1
        return peer

    def _conn_spec(self) -> t.Tuple[int, t.Optional[dict]]:
        idx = len(self.conns)
        spec = self.deliveries[idx] if idx < len(self.deliveries) else self.default_delivery
        return idx, spec

    def connect_sync(self, address, timeout=None, source_address=None, **kw):
        host, port = address
        peer = self._lookup(host, port)
        if peer is None:
            raise ConnectionRefusedError(111, "Connection refused")
        if (host, port) in self.slow_connect or ("*", 0) in self.slow_connect:
            self.stats["slowconn"] += 1
            self.clock.advance_ns(int((timeout or 60) * 1e9))  # the caller waited for its whole timeout
            raise TimeoutError("timed out")
        idx, spec = self._conn_spec()
        conn = net.SimSocket(self, idx, host, port, peer, spec)
        conn._timeout = timeout if isinstance(timeout, (int, float)) else None  # like socket.create_connection(timeout=...)
        conn.tamper = self.tampers.get(idx)
        conn.tx_tamper = self.tx_tampers.get(idx)
        self.conns.append(conn)
        peer.on_connect(conn)
        return conn

    # ---- seams --------------------------------------------------------------
    @contextlib.contextmanager
    def installed(self, *, ctx_factory=None, resolver=None, patch_entropy=True):
        import dpapi_ng._client as dclient
        import dpapi_ng._crypto as dcrypto
        import dpapi_ng._rpc._auth as dauth
        import dns.asyncresolver
        import dns.resolver

        saved = []
        global CURRENT
        prev_current = CURRENT
        CURRENT = self  # (seams that are not handed the world - a stub security context - find it here)

        def patch(obj, name, val):
            saved.append((obj, name, getattr(obj, name)))
            setattr(obj, name, val)

        patch(dclient, "time", _TimeShim(self.clock))
        import time as _time

        # any other library module that imports ``time`` (a changed tree may) sees the same simulated clocks, monotonic ones included
        for _name, _mod in list(sys.modules.items()):
            if _name.startswith("dpapi_ng") and _mod is not dclient and getattr(_mod, "time", None) is _time:
                patch(_mod, "time", _TimeShim(self.clock))

        # every reading of the wall clock inside the world is a reading of the simulated clock (library modules other than
        # _client, pyspnego's NTLM timestamps, ...); time.monotonic / perf_counter are left alone (the loop has its own time)
        patch(_time, "time_ns", self.clock.time_ns)
        patch(_time, "time", self.clock.time)
        shim = _TimeShim(self.clock)
        patch(_time, "clock_gettime_ns", shim.clock_gettime_ns)
        patch(_time, "clock_gettime", shim.clock_gettime)
        # datetime.now() / utcnow() / today() read the C clock directly: library modules that import datetime get a subclass bound
        # to the simulated clock (nothing in the unchanged library uses datetime)
        import datetime as _dt
        import sys as _sys

        clock = self.clock

        class SimDateTime(_dt.datetime):
            @classmethod
            def now(cls, tz=None):
                return _dt.datetime.fromtimestamp(clock.time_ns() / 1e9, tz)

            @classmethod
            def utcnow(cls):
                return _dt.datetime.fromtimestamp(clock.time_ns() / 1e9, _dt.timezone.utc).replace(tzinfo=None)

            @classmethod
            def today(cls):
                return cls.now()

        class _DtModule:
            datetime = SimDateTime

            def __getattr__(self, name):
                return getattr(_dt, name)

        for mname, mod in list(_sys.modules.items()):
            if mname.startswith("dpapi_ng") and mod is not None:
                if getattr(mod, "datetime", None) is _dt:
                    patch(mod, "datetime", _DtModule())
                elif getattr(mod, "datetime", None) is _dt.datetime:
                    patch(mod, "datetime", SimDateTime)
        patch(socket, "create_connection", self.connect_sync)
        # the host's own names are part of the world too (nothing in the unchanged library asks for them)
        patch(socket, "getfqdn", lambda name="": self.host_fqdn if not name else name)
        patch(socket, "gethostname", lambda: self.host_fqdn.split(".")[0])
        import builtins
        import select as _select
        import threading

        import dpapi_ng as _dpkg

        from simworld import locks, osseams

        patch(_select, "select", osseams.make_select(self, _select.select))
        if hasattr(_select, "poll"):
            patch(_select, "poll", osseams.make_poll(self, _select.poll))
        if patch_entropy:
            patch(builtins, "open", osseams.make_open(self, builtins.open))
        patch(builtins, "id", osseams.make_id(self, builtins.id, os.path.dirname(os.path.abspath(_dpkg.__file__)) + os.sep))

        import dpapi_ng as _pkg

        sim_lock, sim_rlock = locks.factories(os.path.dirname(os.path.abspath(_pkg.__file__)) + os.sep, self.stats)
        patch(threading, "Lock", sim_lock)
        patch(threading, "RLock", sim_rlock)
        import asyncio

        world = self
        real_read = asyncio.StreamReader.read

        async def counted_read(reader, n=-1):
            # a coroutine looping on read() after EOF never yields to the loop: count such reads like the simulated socket does
            if reader._eof and not reader._buffer and n != 0:
                world.stats["reads_after_eof"] += 1
                c = getattr(reader, "_verif_eof_reads", 0) + 1
                reader._verif_eof_reads = c
                if c > net.SPIN_LIMIT:
                    raise net.Spin(f"{c} StreamReader.read() calls after EOF")
            return await real_read(reader, n)

        patch(asyncio.StreamReader, "read", counted_read)
        if patch_entropy:
            ent = self.entropy
            patch(os, "urandom", lambda n: ent.draw(n, "urandom"))
            real_aesgcm = dcrypto.AESGCM

            class SimAESGCM:  # the Rust class cannot be subclassed: construct the real one, own generate_key
                def __new__(cls, key):
                    return real_aesgcm(key)

                @staticmethod
                def generate_key(bit_length: int) -> bytes:
                    if bit_length not in (128, 192, 256):
                        raise ValueError("bit_length must be 128, 192, or 256")
                    if "aesgcm.generate_key" in ent.fail_sources:
                        raise OSError(38, "Function not implemented")  # (the Rust side reads the same kernel source)
                    return ent.draw(bit_length // 8, "aesgcm.generate_key")

            patch(dcrypto, "AESGCM", SimAESGCM)
        if ctx_factory is not None:
            patch(dauth.spnego, "client", ctx_factory)
        res = resolver or _NoResolver(self)
        patch(dns.resolver, "resolve", res.resolve)
        patch(dns.asyncresolver, "resolve", res.aresolve)
        try:
            yield self
        finally:
            for obj, name, val in reversed(saved):
                setattr(obj, name, val)
            CURRENT = prev_current


class NeedsNetwork(Exception):
    """Raised by our seams when the library tries to reach a DC and the world has none."""


class _NoResolver:
    def __init__(self, world: World):
        self.world = world

    def resolve(self, qname, rdtype="A", *a, **kw):
        self.world.dns_queries.append((str(qname), str(rdtype), kw.get("search")))
        self.world.log("dns.query", str(qname))
        raise NeedsNetwork(f"DNS lookup {qname}")

    async def aresolve(self, qname, rdtype="A", *a, **kw):
        return self.resolve(qname, rdtype, *a, **kw)
