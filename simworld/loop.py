"""Virtual-time asyncio event loop with in-memory connections.

The ready queue stays FIFO (asyncio guarantees that and library code may rely
on it).  What a real loop does not determine - when each connection becomes
readable, when a connect completes, when an executor job finishes - is decided
here: every such external completion is an entry in ``_ext`` with a latency
drawn from the run's PRNG; ties at one instant are broken by a PRNG draw;
order within a connection is preserved.
"""
from __future__ import annotations

import asyncio
import heapq
import math
import random
import typing as t

from . import net


class Deadlock(BaseException):
    """Nothing is ready, no timer is armed and no external event is pending."""


class _Selector:
    def __init__(self, loop: "SimLoop"):
        self._loop = loop

    def select(self, timeout=None):
        self._loop._advance(timeout)
        return []

    def close(self):
        pass


class SimLoop(asyncio.BaseEventLoop):
    def __init__(self, world, rng: t.Optional[random.Random] = None, latency_us=(50, 4000)):
        super().__init__()
        self.world = world
        world.loop = self
        self._rng = rng or random.Random(0)
        self._vt = 0  # virtual ns
        self._ext: t.List[t.Tuple[int, float, int, t.Callable[[], None], str]] = []
        self._ext_seq = 0
        self._selector = _Selector(self)
        self.latency_us = latency_us
        self.max_steps = 2_000_000
        self._steps = 0
        self.choice_points = 0  # ties with > 1 alternative or latency draws
        self.schedule_trace: t.List[str] = []
        self._task_n = 0

    # ---- time -----------------------------------------------------------
    def time(self) -> float:
        return self._vt / 1e9

    def _advance(self, timeout: t.Optional[float]) -> None:
        self._steps += 1
        if self._steps > self.max_steps:
            raise Deadlock("step cap reached")
        if timeout == 0 or getattr(self, "_shutting_down", False):
            return
        t_timer = None if timeout is None else self._vt + int(math.ceil(timeout * 1e9))
        if self._ext and (t_timer is None or self._ext[0][0] <= t_timer):
            when, _tie, _seq, cb, label = heapq.heappop(self._ext)
            if when > self._vt:
                self._vt = when
            self.world.log("loop.ext", self._vt, label)
            self.schedule_trace.append(label)
            cb()
            return
        if t_timer is not None:
            # jump to the next timer
            self._vt = max(self._vt, t_timer)
            return
        raise Deadlock("no ready callbacks, no timers, no pending external events")

    def schedule_ext(self, delay_ns: int, cb: t.Callable[[], None], label: str, not_before: int = 0) -> int:
        when = max(self._vt + max(0, int(delay_ns)), not_before)
        self._ext_seq += 1
        if any(e[0] == when for e in self._ext):
            self.choice_points += 1
        heapq.heappush(self._ext, (when, self._rng.random(), self._ext_seq, cb, label))
        return when

    def draw_latency_ns(self) -> int:
        lo, hi = self.latency_us
        self.choice_points += 1
        return self._rng.randint(lo, hi) * 1000

    # ---- BaseEventLoop plumbing -------------------------------------------
    def _process_events(self, event_list) -> None:
        pass

    def _write_to_self(self) -> None:
        pass

    def named_task(self, coro, name: str):
        return self.create_task(coro, name=name)

    def run_in_executor(self, executor, func, *args):
        """No real thread ever runs: the job executes inline at a simulated instant."""
        fut = self.create_future()
        self.world.stats["executor_jobs"] += 1

        def run():
            # the job starts (and does all its work) at this instant and is reported done a little later: a worker thread takes time,
            # and whatever the job read at its start (the clock, shared state) is already old when its result arrives
            if fut.cancelled():
                return
            self.world.executor_job_seconds = 0.0
            try:
                res = func(*args)
            except BaseException as e:  # noqa: BLE001
                if isinstance(e, (KeyboardInterrupt, SystemExit)):
                    raise
                exc = e
                self.schedule_ext(self.draw_latency_ns() // 4, lambda: None if fut.cancelled() else fut.set_exception(exc), "exec.done")
            else:
                # (a job may declare how long it took - a slow KDC, a smart card prompt: world.executor_job_seconds, set by the seam
                # the job went through; its result arrives that much later, and the wall clock has moved on by then)
                took = float(getattr(self.world, "executor_job_seconds", 0.0) or 0.0)
                if took:
                    self.world.stats["slow_executor_jobs"] += 1

                    def tick(took=took):
                        self.world.clock.advance_ns(int(took * 1e9))

                    self.schedule_ext(int(took * 1e9), tick, "exec.slow")
                self.schedule_ext(self.draw_latency_ns() // 4 + int(took * 1e9), lambda: None if fut.cancelled() else fut.set_result(res), "exec.done")

        self.schedule_ext(self.draw_latency_ns() // 4, run, "exec")
        if executor is not None and hasattr(executor, "shutdown"):
            executor.shutdown(wait=False)
        return fut

    async def create_connection(self, protocol_factory, host=None, port=None, **kw):
        world = self.world
        fut = self.create_future()
        peer = world._lookup(host, port)

        def done():
            if fut.cancelled():
                return
            if peer is None:
                fut.set_exception(ConnectionRefusedError(111, "Connect call failed"))
            else:
                fut.set_result(None)

        delay = self.draw_latency_ns()
        if (host, port) in world.slow_connect or ("*", 0) in world.slow_connect:  # beyond the 5 s wait_for
            delay = 60_000_000_000
            world.stats["slowconn"] += 1
        self.schedule_ext(delay, done, "connect")
        await fut
        idx, spec = world._conn_spec()
        protocol = protocol_factory()
        tr = SimTransport(world, idx, host, port, peer, spec, self, protocol)
        tr.tamper = world.tampers.get(idx)
        tr.tx_tamper = world.tx_tampers.get(idx)
        world.conns.append(tr)
        protocol.connection_made(tr)
        peer.on_connect(tr)
        return tr, protocol

    def run(self, coro):
        """Run ``coro`` to completion as the main task; returns its result."""
        asyncio.set_event_loop(self)
        try:
            task = self.create_task(coro, name="main")
            return self.run_until_complete(task)
        finally:
            asyncio.set_event_loop(None)

    def shutdown(self):
        """Unwind whatever is still pending (a blocked main task after a stall) quietly, then close."""
        self._ext.clear()
        self._shutting_down = True
        try:
            pending = [t_ for t_ in asyncio.all_tasks(self) if not t_.done()]
        except RuntimeError:
            pending = []
        for task in pending:
            task._log_destroy_pending = False
            task.cancel()
        asyncio.set_event_loop(self)
        try:
            for _ in range(200):
                if not self._ready:
                    break
                self._run_once()
        except BaseException:  # noqa: BLE001 - best effort cleanup only
            pass
        finally:
            asyncio.set_event_loop(None)
        for task in pending:
            if task.done() and not task.cancelled():
                task.exception()  # mark retrieved
        self._ext.clear()
        self._ready.clear()
        self._scheduled.clear()
        self.close()


class _TransportSocket:
    """What ``transport.get_extra_info("socket")`` hands out: socket options are recorded, SO_RCVLOWAT is honoured by the delivery."""

    def __init__(self, tr):
        self._tr = tr

    def setsockopt(self, level, opt, value) -> None:
        import socket as _s

        self._tr._sockopts[(level, opt)] = value
        if level == _s.SOL_SOCKET and opt == getattr(_s, "SO_RCVLOWAT", -1):
            self._tr._rcvlowat = max(1, int(value))

    def getsockopt(self, level, opt, *a):
        return self._tr._sockopts.get((level, opt), 0)

    def fileno(self) -> int:
        return -1 if self._tr._lost else 30000 + self._tr.cid

    def getpeername(self):
        return (self._tr.host, self._tr.port)

    def getsockname(self):
        return ("192.0.2.10", 50000 + self._tr.cid)

    def gettimeout(self):
        return 0.0

    @property
    def family(self):
        import socket as _s

        return _s.AF_INET

    @property
    def type(self):
        import socket as _s

        return _s.SOCK_STREAM


class SimTransport(net.Conn, asyncio.Transport):
    def __init__(self, world, cid, host, port, peer, spec, loop: SimLoop, protocol):
        net.Conn.__init__(self, world, cid, host, port, peer, spec)
        asyncio.Transport.__init__(self)
        self._loop = loop
        self._protocol = protocol
        self._closing = False
        self._last_rx = 0
        self._last_tx = 0
        self._lost = False
        self._kbuf = b""      # bytes the "kernel" holds back (SO_RCVLOWAT)
        self._rcvlowat = 1
        self._sockopts: t.Dict[t.Tuple[int, int], t.Any] = {}

    # -- delivery towards the client ---------------------------------------
    def _deliver(self, item) -> None:
        loop = self._loop
        kind = item[0]
        if kind == "stall":
            return
        if kind == "gap":
            # nothing arrives for item[1] seconds: everything later on this connection is that much later (wall clock included)
            self._last_rx = max(self._last_rx, loop._vt) + int(item[1] * 1e9)
            wall = item[1]

            def tick():
                self.world.clock.advance_ns(int(wall * 1e9))

            loop.schedule_ext(0, tick, f"rx{self.cid}:gap", self._last_rx)
            return

        def cb():
            if kind == "clockjump":
                self.world.clock.step_ns(int(item[1] * 1e9))
                self.world.log("clock.jump", self.cid, item[1])
                return
            if self._lost:
                return
            if kind == "data":
                # SO_RCVLOWAT: the kernel reports the socket readable only once that many bytes are queued (or the stream ended)
                self._kbuf += item[1]
                if len(self._kbuf) >= self._rcvlowat:
                    data_, self._kbuf = self._kbuf, b""
                    self._protocol.data_received(data_)
                else:
                    self.world.stats["rcvlowat_held"] += 1
            elif kind == "eof":
                if self._kbuf:
                    data_, self._kbuf = self._kbuf, b""
                    self._protocol.data_received(data_)
                keep = self._protocol.eof_received()
                if not keep:
                    self._force_close(None)
            elif kind == "rst":
                self._force_close(ConnectionResetError(104, "Connection reset by peer"))

        self._last_rx = loop.schedule_ext(loop.draw_latency_ns(), cb, f"rx{self.cid}:{kind}", self._last_rx + 1)

    def _force_close(self, exc) -> None:
        if self._lost:
            return
        self._lost = True
        self._closing = True
        self._loop.call_soon(self._protocol.connection_lost, exc)

    # -- asyncio.Transport API ------------------------------------------------
    def write(self, data) -> None:
        if self._closing:
            return
        data = self._client_wrote(bytes(data))
        loop = self._loop

        def cb():
            if not self.closed_by_client:
                self.peer.on_data(self, data)

        self._last_tx = loop.schedule_ext(loop.draw_latency_ns(), cb, f"tx{self.cid}", self._last_tx + 1)

    def is_closing(self) -> bool:
        return self._closing

    def close(self) -> None:
        if self.closed_by_client:
            return
        self.closed_by_client = True
        self._closing = True
        self.world.log("net.close", self.cid)
        loop = self._loop

        def cb():
            self.peer.on_client_close(self)

        if not getattr(loop, "_shutting_down", False):
            loop.schedule_ext(loop.draw_latency_ns(), cb, f"close{self.cid}", self._last_tx + 1)
        if not self._lost:
            self._lost = True
            if not loop.is_closed():
                loop.call_soon(self._protocol.connection_lost, None)

    def abort(self) -> None:
        self.close()

    def get_extra_info(self, name, default=None):
        if name == "socket":
            return _TransportSocket(self)
        if name == "peername":
            return (self.host, self.port)
        return default

    def can_write_eof(self) -> bool:
        return True

    def write_eof(self) -> None:
        pass

    def get_write_buffer_size(self) -> int:
        return 0

    def set_write_buffer_limits(self, high=None, low=None) -> None:
        pass

    def pause_reading(self) -> None:
        pass

    def resume_reading(self) -> None:
        pass

    def is_reading(self) -> bool:
        return not self._closing

    def get_protocol(self):
        return self._protocol

    def set_protocol(self, protocol) -> None:
        self._protocol = protocol
