"""Deterministic interleaving of caller threads (the sync API shared by threads).

Real ``threading.Thread`` objects carry the callers, but only the holder of the
baton runs: every other thread is parked on its own semaphore.  Pre-emption
points are the interpreter's ``line`` (or ``opcode``) trace events inside frames
of the code under test (files below ``src_prefix``); at each point the
simulator - never the OS - decides who goes on, either from the seeded PRNG or
from an explicit list of switches (the minimised schedule of a replay file).
One seed is one interleaving; the switches actually taken are recorded.

Nothing here sleeps or reads a clock; the only wall-clock use is a watchdog on
the final join that turns a wedged run into a harness error, never a verdict.
"""
from __future__ import annotations

import sys
import threading
import typing as t


ACTIVE: t.Optional["ThreadSim"] = None  # the scheduler whose threads are running right now (simulated locks ask it)


def mark(kind: str) -> None:
    """Called by the world's seams (socket send / receive, security-context wrap / unwrap, entropy draw, clock reading) when a
    simulated caller thread crosses them: the scheduler may pre-empt that thread at its very next point.  State that is in
    flight across such a crossing (a buffer just filled, a token just verified, a value just drawn) is where interleavings
    matter, and uniformly random pre-emptions rarely land there."""
    sim = ACTIVE
    if sim is not None and sim.cur is not None and threading.current_thread() is sim.cur.thread:
        sim._marked = kind
        sim.marks_seen += 1


class StepLimit(BaseException):
    """A thread used more pre-emption points than the run's cap (treated like a hang by the oracles)."""


class Wedged(Exception):
    """The simulated threads did not finish (a real lock is held by a parked thread?) - a harness problem."""


class _T:
    __slots__ = ("idx", "fn", "sem", "thread", "result", "exc", "done", "steps", "waiting")

    def __init__(self, idx: int, fn):
        self.idx = idx
        self.fn = fn
        self.sem = threading.Semaphore(0)
        self.thread: t.Optional[threading.Thread] = None
        self.result = None
        self.exc: t.Optional[BaseException] = None
        self.done = False
        self.steps = 0
        self.waiting: t.Optional[t.Callable[[], bool]] = None  # set while the thread waits for a simulated lock


class ThreadSim:
    """run(fns) executes the callables as interleaved threads and returns [(result, exc)] in the order given.

    policy: {"mode": "prob", "p": 0.02}                     switch with probability p at each point
            {"mode": "points", "n": 3, "horizon": 4000}     n switch points drawn over the first ``horizon`` points
            {"mode": "marks", "q": 0.3, "p": 0.0}           switch with probability q at the first point after the thread crossed a seam
                                                            of the world (see ``mark``), and with probability p elsewhere
            {"mode": "script", "first": i, "switches": [[thread, k, to], ..], "ends": [..]}   explicit (replay / minimised): thread is
                 pre-empted at ITS k-th point in favour of ``to`` - counted per thread, so that dropping one pre-emption leaves the others
                 where they were in each thread's own execution
    granularity: "line" ("opcode" exists for experiments only: under CPython 3.12.1 a code object's first execution after
                 f_trace_opcodes is set misses events, so the same seed gives another interleaving in a fresh interpreter; no check uses it)
    """

    def __init__(self, rng, src_prefix: str, policy: t.Optional[dict] = None, granularity: str = "line", max_steps: int = 3_000_000,
                 on_switch: t.Optional[t.Callable[[int, int, int], None]] = None):
        self.rng = rng
        self.src_prefix = src_prefix
        self.policy = dict(policy or {"mode": "prob", "p": 0.02})
        self._hold = 0
        self.opcode = granularity == "opcode"
        self.max_steps = max_steps
        self.on_switch = on_switch
        self.steps = 0
        self.switches: t.List[t.List[int]] = []  # pre-emptions: [thread, its own point count, to]
        self.ends: t.List[int] = []  # who went on each time a thread finished
        self.blocks: t.List[int] = []  # who went on each time a thread had to wait for a simulated lock
        self._blocks: t.List[int] = []
        self.lock_waits = 0
        self._marked: t.Optional[str] = None
        self._shared_cache: t.Dict[t.Any, t.FrozenSet[int]] = {}
        self.marks_seen = 0
        self.marks_used = 0
        self.ts: t.List[_T] = []
        self.cur: t.Optional[_T] = None
        self._done = threading.Semaphore(0)
        self._points: t.Set[int] = set()
        self._script: t.Dict[t.Tuple[int, int], int] = {}
        self._ends: t.List[int] = []
        self.overlap = 0  # switches taken while >= 2 threads were inside the code under test

    # -- scheduling -----------------------------------------------------------
    def _runnable_others(self, me: _T) -> t.List[_T]:
        return [x for x in self.ts if not x.done and x is not me and (x.waiting is None or x.waiting())]

    def block_on(self, pred: t.Callable[[], bool], give_up: bool = False) -> bool:
        """Called by a simulated lock on behalf of the running thread: wait until ``pred`` holds, letting others run.
        Returns False (``give_up``: the acquire had a timeout) or raises Blocks when nobody is left who could make it true."""
        from simworld import net

        me = self.cur
        assert me is not None
        while not pred():
            me.waiting = pred
            others = self._runnable_others(me)
            if not others:
                me.waiting = None
                if give_up:
                    return False
                raise net.Blocks("deadlock: every caller thread waits for a lock")
            if self.policy["mode"] == "script":
                want = self._blocks.pop(0) if self._blocks else -1
                nxt = next((x for x in others if x.idx == want), others[0])
            else:
                nxt = others[self.rng.randrange(len(others))]
            self.blocks.append(nxt.idx)
            self.lock_waits += 1
            self.cur = nxt
            nxt.sem.release()
            me.sem.acquire()
        me.waiting = None
        return True

    def _decide(self, me: _T) -> t.Optional[_T]:
        others = self._runnable_others(me)
        if not others:
            return None
        mode = self.policy["mode"]
        if mode == "script":
            to = self._script.get((me.idx, me.steps))
            if to is None:
                return None
            for x in others:
                if x.idx == to:
                    return x
            return others[0]
        if mode == "points":
            if self.steps not in self._points:
                return None
            return others[self.rng.randrange(len(others))]
        if mode == "marks":
            marked, self._marked = self._marked, None
            if marked and self.policy.get("kinds") == "shared" and "shared-state" not in marked:
                marked = None  # (only the marks on process-wide state count: a thread runs through its I/O undisturbed and meets the others there)
            if marked and self._hold > 0:
                # the thread that was just switched in keeps the processor for a time slice: its next few marks are not taken
                self._hold -= 1
                return None
            if self.rng.random() >= (self.policy.get("q", 0.3) if marked else self.policy.get("p", 0.0)):
                return None
            if marked:
                self.marks_used += 1
                self._hold = int(self.policy.get("hold", 0))
            return others[self.rng.randrange(len(others))]
        if self.rng.random() >= self.policy.get("p", 0.02):
            return None
        return others[self.rng.randrange(len(others))]

    def _point(self, me: _T) -> None:
        self.steps += 1
        me.steps += 1
        if self.steps > self.max_steps:
            raise StepLimit(f"more than {self.max_steps} pre-emption points")
        nxt = self._decide(me)
        if nxt is None:
            return
        self.switches.append([me.idx, me.steps, nxt.idx])
        if nxt.steps and not nxt.done:
            self.overlap += 1
        if self.on_switch:
            self.on_switch(self.steps, me.idx, nxt.idx)
        self.cur = nxt
        nxt.sem.release()
        me.sem.acquire()

    # -- tracing --------------------------------------------------------------
    def _mk_trace(self, me: _T):
        prefix = self.src_prefix
        opcode = self.opcode
        point = self._point

        shared_lines = self._shared_lines

        after_shared = [False]

        def local(frame, event, arg):
            if event == ("opcode" if opcode else "line"):
                if frame.f_lineno in shared_lines(frame):
                    # the line about to run reads or writes module-level state that is shared by every thread of the process:
                    # the place where a pre-emption matters most (policy "marks" may take it)
                    self._marked = "shared-state"
                    self.marks_seen += 1
                    after_shared[0] = True
                elif after_shared[0]:
                    # ... and so is the instant right AFTER such a line ran: what it just published (an entry inserted before it is
                    # filled, a flag set before the work is done) is visible to everybody now
                    after_shared[0] = False
                    self._marked = "after-shared-state"
                    self.marks_seen += 1
                point(me)
            return local

        def glob(frame, event, arg):
            if event == "call" and frame.f_code.co_filename.startswith(prefix):
                if opcode:
                    frame.f_trace_opcodes = True
                return local
            return None

        return glob

    def _shared_lines(self, frame) -> t.FrozenSet[int]:
        """Lines of the frame's code that WRITE module-level state or read a module-level name this function also rebinds: a
        STORE_GLOBAL / DELETE_GLOBAL, a LOAD_GLOBAL of a name rebound in this function (check-then-act on a memo), or a line that
        loads a module-level mutable container (dict, list, set, bytearray) and stores into it / calls a mutating method on it,
        a line that touches a module-level byte buffer at all, or a line that reads a module-level container which the same function
        mutates elsewhere (the membership test before the subscript, the length check before the clear).
        Plain reads of module-level registries are not included (they are everywhere and never race on their own)."""
        code = frame.f_code
        got = self._shared_cache.get(code)
        if got is None:
            import dis

            MUTATORS = {"append", "extend", "insert", "pop", "popitem", "clear", "update", "setdefault", "add", "discard", "remove", "sort", "reverse"}
            ins_list = list(dis.get_instructions(code))
            rebound = {i.argval for i in ins_list if i.opname in ("STORE_GLOBAL", "DELETE_GLOBAL")}
            g = frame.f_globals
            per_line: t.Dict[int, list] = {}
            cur = code.co_firstlineno
            for i in ins_list:
                if i.starts_line:
                    cur = i.starts_line
                per_line.setdefault(cur, []).append(i)
            lines: t.Set[int] = set()
            # module-level containers this very function mutates somewhere: its READS of them are check-then-act windows too
            mutated: t.Set[str] = set()
            for ln, group in per_line.items():
                ops = {i.opname for i in group}
                loads = [i.argval for i in group if i.opname == "LOAD_GLOBAL" and isinstance(g.get(i.argval), (dict, list, set, bytearray))]
                attrs = {i.argval for i in group if i.opname in ("LOAD_ATTR", "LOAD_METHOD")}
                if loads and (ops & {"STORE_SUBSCR", "DELETE_SUBSCR", "STORE_SLICE"} or attrs & MUTATORS):
                    mutated.update(loads)
            for ln, group in per_line.items():
                ops = {i.opname for i in group}
                loads = [i.argval for i in group if i.opname == "LOAD_GLOBAL"]
                if ops & {"STORE_GLOBAL", "DELETE_GLOBAL"} or any(n in rebound for n in loads) or any(n in mutated for n in loads):
                    lines.add(ln)
                elif any(isinstance(g.get(n), (bytearray, memoryview)) for n in loads):
                    # a module-level byte buffer is a scratch area whatever is done with it on this line (filled through a third
                    # party such as struct.pack_into, or read back): every touch counts
                    lines.add(ln)
                elif any(isinstance(g.get(n), (dict, list, set, bytearray)) for n in loads):
                    attrs = {i.argval for i in group if i.opname in ("LOAD_ATTR", "LOAD_METHOD")}
                    if ops & {"STORE_SUBSCR", "DELETE_SUBSCR", "STORE_SLICE"} or attrs & MUTATORS:
                        lines.add(ln)
            got = self._shared_cache[code] = frozenset(lines)
        return got

    def _mk_profile(self, me: _T):
        """Marks every return from code outside the library (an extension-module call such as an AES or HMAC operation, or a
        third-party Python function) back into a library frame: the state such a call leaves behind (a buffer it filled, an
        object it returned) is in flight exactly then."""
        prefix = self.src_prefix
        stdlib = getattr(sys, "stdlib_module_names", frozenset()) | {"builtins"}

        def prof(frame, event, arg):
            # (only third-party code counts: the standard library is called on nearly every line and would drown the signal)
            if event == "c_return":
                if frame.f_code.co_filename.startswith(prefix):
                    owner = getattr(arg, "__self__", None)
                    mod = getattr(arg, "__module__", None) or (type(owner).__module__ if owner is not None else None)
                    if mod and mod.split(".")[0] not in stdlib:
                        self._marked = "extcall"
                        self.marks_seen += 1
            elif event == "return":
                back = frame.f_back
                if back is not None and back.f_code.co_filename.startswith(prefix) and "site-packages" in frame.f_code.co_filename:
                    self._marked = "extcall"
                    self.marks_seen += 1

        return prof

    def _body(self, me: _T) -> None:
        me.sem.acquire()
        sys.settrace(self._mk_trace(me))
        if self.policy.get("mode") == "marks":
            sys.setprofile(self._mk_profile(me))
        try:
            me.result = me.fn()
        except BaseException as e:  # noqa: BLE001 - verdicts are the caller's business
            me.exc = e
        finally:
            sys.settrace(None)
            sys.setprofile(None)
            me.done = True
            rest = [x for x in self.ts if not x.done and (x.waiting is None or x.waiting())] or [x for x in self.ts if not x.done]
            if rest:
                # the scheduler's choice of who continues when a thread ends
                if self.policy["mode"] == "script":
                    want = self._ends.pop(0) if self._ends else -1
                    nxt = next((x for x in rest if x.idx == want), rest[0])
                else:
                    nxt = rest[self.rng.randrange(len(rest))]
                self.ends.append(nxt.idx)
                self.cur = nxt
                nxt.sem.release()
            else:
                self._done.release()

    def run(self, fns: t.Sequence[t.Callable[[], t.Any]], watchdog_s: float = 120.0):
        self.ts = [_T(i, fn) for i, fn in enumerate(fns)]
        if self.policy["mode"] == "points":
            hz = max(2, int(self.policy.get("horizon", 4000)))
            self._points = {self.rng.randrange(1, hz) for _ in range(int(self.policy.get("n", 3)))}
        elif self.policy["mode"] == "script":
            self._script = {(int(a), int(k)): int(to) for a, k, to in self.policy.get("switches", [])}
            self._ends = [int(x) for x in self.policy.get("ends", [])]
            self._blocks = [int(x) for x in self.policy.get("blocks", [])]
        for x in self.ts:
            x.thread = threading.Thread(target=self._body, args=(x,), name=f"simthread-{x.idx}", daemon=True)
            x.thread.start()
        if self.policy["mode"] == "script":
            first = self.ts[int(self.policy.get("first", 0)) % len(self.ts)]
        else:
            first = self.ts[self.rng.randrange(len(self.ts))]
        global ACTIVE
        self.first = first.idx
        self.cur = first
        ACTIVE = self
        try:
            first.sem.release()
            if not self._done.acquire(timeout=watchdog_s):
                raise Wedged(f"simulated threads did not finish within {watchdog_s}s of wall time (steps={self.steps})")
        finally:
            ACTIVE = None
        for x in self.ts:
            x.thread.join(timeout=5)
        return [(x.result, x.exc) for x in self.ts]

    def script(self) -> dict:
        """The interleaving actually taken, as an explicit policy (for replay files and minimisation)."""
        return {"mode": "script", "first": self.first, "switches": [list(x) for x in self.switches], "ends": list(self.ends), "blocks": list(self.blocks)}
