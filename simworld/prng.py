"""One integer decides everything: a tree of independent PRNG streams.

Every stream is a ``random.Random`` seeded from blake2b(seed, label), so that
adding a draw to one stream (say ``net``) never shifts another (``workload``).
"""
from __future__ import annotations

import hashlib
import random


def derive(seed: int, *labels) -> int:
    h = hashlib.blake2b(digest_size=8)
    h.update(str(int(seed)).encode())
    for lab in labels:
        h.update(b"/")
        h.update(str(lab).encode())
    return int.from_bytes(h.digest(), "big")


def stream(seed: int, *labels) -> random.Random:
    return random.Random(derive(seed, *labels))


class Streams:
    """Lazily created named streams for one run."""

    def __init__(self, seed: int):
        self.seed = int(seed)
        self._s = {}

    def __getitem__(self, label: str) -> random.Random:
        r = self._s.get(label)
        if r is None:
            r = self._s[label] = stream(self.seed, label)
        return r
