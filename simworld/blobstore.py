"""Bytes at rest between protect and unprotect (an AD attribute, a file): the
simulated store can flip bits, substitute / insert / delete bytes, tear
(truncate) a record, or overwrite a field located through ref.cms' offset map.

fault := ["flip", bit] | ["trunc", n] | ["subst", off, byte] | ["ins", off, byte] | ["del", off]
       | ["field", name, hex-bytes]   (replace the field's content, same length or not)
       | ["garbage", hex-bytes]       (whole record replaced)
       | ["tagflip"]                   (last bit of the record: the GCM tag in both layouts)
       | ["algsub", last OID arc, params kind, content length, last IV byte]   (algorithm substitution, multi-site)
A stored record may suffer several faults (applied in order).
"""
from __future__ import annotations

import typing as t


def apply_fault(data: bytes, fault, offsets: t.Optional[dict] = None) -> bytes:
    kind = fault[0]
    b = bytearray(data)
    if kind == "flip":
        bit = fault[1]
        if bit // 8 < len(b):
            b[bit // 8] ^= 0x80 >> (bit % 8)
        return bytes(b)
    if kind == "tagflip":
        if b:
            b[-1] ^= 0x01
        return bytes(b)
    if kind == "trunc":
        return bytes(b[: fault[1]])
    if kind == "subst":
        if fault[1] < len(b):
            b[fault[1]] = fault[2] & 0xFF
        return bytes(b)
    if kind == "ins":
        b[fault[1] : fault[1]] = bytes([fault[2] & 0xFF])
        return bytes(b)
    if kind == "del":
        del b[fault[1] : fault[1] + 1]
        return bytes(b)
    if kind == "field":
        assert offsets is not None
        s, e = offsets[fault[1]]
        b[s:e] = bytes.fromhex(fault[2])
        return bytes(b)
    if kind == "garbage":
        return bytes.fromhex(fault[1])
    if kind == "algsub":
        # algorithm substitution: the (unauthenticated) content-encryption AlgorithmIdentifier is rewritten to another
        # AES mode of the NIST arc, with matching-looking parameters, and the content cut to whole blocks.
        from ref import cms, der

        _k, arc_last, params_kind, content_len, iv_last = fault
        p = cms.parse_blob(data)
        nonce = p["gcm_nonce"]
        iv16 = (nonce + b"\x00\x00\x00" + bytes([iv_last & 0xFF]))[:16]
        params = {"iv16": der.octets(iv16), "iv12": der.octets(nonce), "gcm": der.seq(der.octets(nonce), der.enc_int(16)),
                  "null": b"\x05\x00", "absent": b""}[params_kind]
        cea = der.seq(der.enc_oid("2.16.840.1.101.3.4.1.%d" % arc_last), params)
        content = p["enc_content"] if content_len < 0 else p["enc_content"][:content_len].ljust(content_len, b"\x5a")
        return cms.build_blob(p["key_identifier_raw"], p["sid"], p["enc_cek"], nonce, content, p["layout"] == "in_envelope", cea_raw=cea)
    raise ValueError(fault)


def apply_faults(data: bytes, faults, offsets: t.Optional[dict] = None) -> bytes:
    for f in faults:
        data = apply_fault(data, f, offsets)
    return data
