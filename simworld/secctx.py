"""Security contexts for the simulated world.

StubCtx (a STUB, reported as such in evidence): a scripted GSS-like context
that stands in for ``spnego.client(...)``.  It has a configurable number of
legs, an optional empty final token, a configurable signature size, seals with
an HMAC-derived key stream, signs body (+ header/trailer when they are
``sign_only``) with HMAC and uses per-direction sequence numbers so replays
fail.  It records every call so that oracles can see exactly what the library
handed to it.

StubAcceptor is the matching server side.  NtlmAcceptor wraps a *real*
pyspnego acceptor (NTLM / Negotiate->NTLM) behind the same small interface.
"""
from __future__ import annotations

import collections
import hashlib
import hmac
import typing as t

MessageSizes = collections.namedtuple("MessageSizes", ["header"])


def _mark(kind: str) -> None:
    from simworld import threads

    threads.mark(kind)


class StubCtxError(Exception):
    pass


class _Buf:
    __slots__ = ("type", "data")

    def __init__(self, type_, data):
        self.type = type_
        self.data = data


class _IovResult:
    def __init__(self, buffers, encrypted=True, qop=0):
        self.buffers = tuple(buffers)
        self.encrypted = encrypted
        self.qop = qop


def _norm(iov):
    import spnego.iov as siov

    out = []
    for item in iov:
        if isinstance(item, tuple):
            out.append(_Buf(item[0], item[1]))
        elif isinstance(item, (bytes, bytearray, memoryview)):
            out.append(_Buf(siov.BufferType.data, bytes(item)))
        else:
            out.append(_Buf(item, None))
    return out


def _keystream(key: bytes, direction: bytes, seq: int, n: int) -> bytes:
    out = b""
    ctr = 0
    while len(out) < n:
        out += hmac.new(key, b"seal" + direction + seq.to_bytes(8, "big") + ctr.to_bytes(4, "big"), hashlib.sha256).digest()
        ctr += 1
    return out[:n]


def _mac(key: bytes, direction: bytes, seq: int, parts: t.Sequence[bytes], size: int) -> bytes:
    h = hmac.new(key, b"sign" + direction + seq.to_bytes(8, "big"), hashlib.sha512)
    for p in parts:
        h.update(len(p).to_bytes(4, "big"))
        h.update(p)
    d = h.digest()
    out = d
    i = 0
    while len(out) < size:
        out += hashlib.sha512(d + bytes([i])).digest()
        i += 1
    return out[:size]


def _xor(a: bytes, b: bytes) -> bytes:
    return (int.from_bytes(a, "big") ^ int.from_bytes(b, "big")).to_bytes(len(a), "big") if a else b""


class _Sealer:
    """Symmetric seal/sign used by both ends."""

    def __init__(self, key: bytes, sig_size: int, send_dir: bytes, recv_dir: bytes):
        self.key = key
        self.sig_size = sig_size
        self.send_dir = send_dir
        self.recv_dir = recv_dir
        self.send_seq = 0
        self.recv_seq = 0

    def seal(self, header: bytes, body: bytes, trailer: bytes, sign_header: bool) -> t.Tuple[bytes, bytes]:
        seq = self.send_seq
        self.send_seq += 1
        sealed = _xor(body, _keystream(self.key, self.send_dir, seq, len(body)))
        parts = [body] + ([header, trailer] if sign_header else [])
        return sealed, _mac(self.key, self.send_dir, seq, parts, self.sig_size)

    def unseal(self, header: bytes, body: bytes, trailer: bytes, sig: bytes, sign_header: bool) -> bytes:
        seq = self.recv_seq
        plain = _xor(body, _keystream(self.key, self.recv_dir, seq, len(body)))
        parts = [plain] + ([header, trailer] if sign_header else [])
        if not sig or not hmac.compare_digest(_mac(self.key, self.recv_dir, seq, parts, len(sig)), bytes(sig)):
            raise StubCtxError("bad signature")  # (the peer's signature size may differ from ours: verified at its own length)
        self.recv_seq += 1
        return plain


def client_token(i: int, secret: bytes, size: int = 24) -> bytes:
    base = b"CTOK" + bytes([i]) + hmac.new(secret, b"ctok%d" % i, hashlib.sha256).digest()
    return (base * (size // len(base) + 1))[:max(size, 6)]


def server_token(i: int, secret: bytes, size: int = 20) -> bytes:
    base = b"STOK" + bytes([i]) + hmac.new(secret, b"stok%d" % i, hashlib.sha256).digest()
    return (base * (size // len(base) + 1))[:max(size, 6)]


class StubCtx:
    """Client side.  ``cfg``: legs (1..4), empty_last (bool), sig (16/28/60/76), tok_size."""

    def __init__(self, cfg: dict, secret: bytes, record: t.Optional[list] = None):
        self.cfg = cfg
        self.legs = int(cfg.get("legs", 2))
        self.empty_last = bool(cfg.get("empty_last", False))
        self.sig = int(cfg.get("sig", 16))
        self.tok_size = int(cfg.get("tok_size", 24))
        self.secret = secret
        self.calls = record if record is not None else []
        self.n_steps = 0
        self._complete = False
        self.step_after_complete = 0
        self._sealer = _Sealer(hmac.new(secret, b"session", hashlib.sha256).digest(), self.sig, b"C", b"S")

    # --- the subset of spnego's ContextProxy the library uses -------------
    @property
    def complete(self) -> bool:
        return self._complete

    def step(self, in_token: t.Optional[bytes] = None) -> t.Optional[bytes]:
        _mark("ctx-step")
        self.n_steps += 1
        i = self.n_steps
        self.calls.append(("step", i, None if in_token is None else bytes(in_token), self._complete))
        slow = self.cfg.get("slow_step")
        if slow and int(slow[0]) == i:
            # this leg takes a while (a slow KDC, a credential prompt): told to whoever runs the job (the simulated executor)
            try:
                from simworld import world as _w

                if _w.CURRENT is not None:
                    _w.CURRENT.executor_job_seconds = float(slow[1])
            except Exception:  # noqa: BLE001
                pass
        if self._complete:
            self.step_after_complete += 1
            raise StubCtxError("step() on a complete context")
        if i >= self.legs:
            self._complete = True
            if self.empty_last:
                return None if self.cfg.get("none_last") else b""
        return client_token(i, self.secret, self.tok_size + i)

    # --- read-only attributes of a spnego ContextProxy (a change that consults them must find them) ---------
    @property
    def context_attr(self):
        import spnego

        cr = spnego.ContextReq
        return cr.mutual_auth | cr.replay_detect | cr.sequence_detect | cr.confidentiality | cr.integrity | cr.dce_style

    @property
    def context_req(self):
        return self.context_attr

    @property
    def negotiated_protocol(self) -> str:
        return "ntlm"

    protocol = "negotiate"
    usage = "initiate"
    client_principal = None

    @property
    def session_key(self) -> bytes:
        return hmac.new(self.secret, b"session", hashlib.sha256).digest()

    def query_message_sizes(self) -> MessageSizes:
        self.calls.append(("sizes",))
        if not self._complete and self.cfg.get("sig_early") is not None:
            # before the context is established a provider either refuses the query (pyspnego's NTLM) or reports the size of the
            # mechanism it has in mind so far, which need not be the one that is finally negotiated
            if self.cfg["sig_early"] == "raise":
                import spnego.exceptions as _sx

                raise _sx.NoContextError(context_msg="simulated: no security context established yet")
            return MessageSizes(header=int(self.cfg["sig_early"]))
        return MessageSizes(header=self.sig)

    def wrap_iov(self, iov, encrypt: bool = True, qop=None) -> _IovResult:
        _mark("wrap")
        import spnego.iov as siov

        bufs = _norm(iov)
        self.calls.append(("wrap", [(int(b.type), b.data) for b in bufs], encrypt, self._complete))
        header, body, trailer = bufs[0], bufs[1], bufs[2]
        sign = header.type == siov.BufferType.sign_only
        sealed, sig = self._sealer.seal(header.data or b"", body.data or b"", trailer.data or b"", sign)
        return _IovResult([_Buf(header.type, header.data), _Buf(body.type, sealed), _Buf(trailer.type, trailer.data),
                           _Buf(siov.BufferType.header, sig)])

    def unwrap_iov(self, iov) -> _IovResult:
        _mark("unwrap")
        import spnego.iov as siov

        bufs = _norm(iov)
        self.calls.append(("unwrap", [(int(b.type), b.data) for b in bufs], self._complete))
        header, body, trailer, sig = bufs[0], bufs[1], bufs[2], bufs[3]
        sign = header.type == siov.BufferType.sign_only
        plain = self._sealer.unseal(header.data or b"", body.data or b"", trailer.data or b"", sig.data or b"", sign)
        return _IovResult([_Buf(header.type, header.data), _Buf(body.type, plain), _Buf(trailer.type, trailer.data), sig])


class StubAcceptor:
    """Server side of StubCtx."""

    kind = "stub"

    def __init__(self, cfg: dict, secret: bytes):
        self.legs = int(cfg.get("legs", 2))
        self.empty_last = bool(cfg.get("empty_last", False))
        self.sig = int(cfg.get("sig_srv", cfg.get("sig", 16)))  # the acceptor's own signature size may differ from the initiator's
        self.tok_size = int(cfg.get("tok_size", 24))
        self.secret = secret
        self.seen = 0
        self.expected = self.legs - 1 if self.empty_last else self.legs
        self.complete = self.expected == 0
        self.failed = False
        self.tokens_in: t.List[bytes] = []
        self._sealer = _Sealer(hmac.new(secret, b"session", hashlib.sha256).digest(), self.sig, b"S", b"C")
        self.principal = "stubuser"

    def step(self, token: bytes) -> t.Optional[bytes]:
        self.seen += 1
        self.tokens_in.append(bytes(token))
        if self.complete or bytes(token) != client_token(self.seen, self.secret, self.tok_size + self.seen):
            self.failed = True
            raise StubCtxError("unexpected client token")
        if self.seen >= self.expected:
            self.complete = True
        if self.seen >= self.legs:
            return None  # nothing to answer to the client's last leg
        return server_token(self.seen, self.secret)

    def wrap(self, header: bytes, body: bytes, trailer: bytes, sign_header: bool) -> t.Tuple[bytes, bytes]:
        return self._sealer.seal(header, body, trailer, sign_header)

    def unwrap(self, header: bytes, body: bytes, trailer: bytes, sig: bytes, sign_header: bool) -> bytes:
        return self._sealer.unseal(header, body, trailer, sig, sign_header)

    @property
    def sig_size(self) -> int:
        return self.sig


class NtlmAcceptor:
    """A real pyspnego acceptor (NTLM or Negotiate) behind the same interface."""

    kind = "real"

    def __init__(self, protocol: str = "ntlm"):
        import spnego

        self.ctx = spnego.server(protocol=protocol, context_req=spnego.ContextReq.default | spnego.ContextReq.dce_style)
        self.failed = False
        self._sig = None

    @property
    def complete(self) -> bool:
        return self.ctx.complete

    @property
    def principal(self) -> str:
        try:
            return str(self.ctx.client_principal)
        except Exception:  # noqa: BLE001
            return "?"

    def step(self, token: bytes) -> t.Optional[bytes]:
        try:
            return self.ctx.step(bytes(token))
        except Exception:
            self.failed = True
            raise

    @property
    def sig_size(self) -> int:
        if self._sig is None:
            self._sig = self.ctx.query_message_sizes().header
        return self._sig

    def wrap(self, header: bytes, body: bytes, trailer: bytes, sign_header: bool) -> t.Tuple[bytes, bytes]:
        import spnego.iov as siov

        bt = siov.BufferType.sign_only if sign_header else siov.BufferType.data_readonly
        res = self.ctx.wrap_iov([(bt, header), body, (bt, trailer), siov.BufferType.header], encrypt=True, qop=None)
        return res.buffers[1].data or b"", res.buffers[3].data or b""

    def unwrap(self, header: bytes, body: bytes, trailer: bytes, sig: bytes, sign_header: bool) -> bytes:
        import spnego.iov as siov

        bt = siov.BufferType.sign_only if sign_header else siov.BufferType.data_readonly
        res = self.ctx.unwrap_iov([(bt, header), body, (bt, trailer), (siov.BufferType.header, sig)])
        return res.buffers[1].data or b""
